#!/bin/bash
# usage: tools/tryseed.sh <seed-dir> <worktree> <prop> [<prop>...]
# 1. confirms the seeded change in the scratch worktree (applies, builds, suite passes, demo fails with / passes without)
# 2. applies it to /repo, runs the named checks (quick), reverts /repo
set -u
seed=$1; wt=$2; shift 2
export GOFLAGS=-mod=mod GOPROXY=off GOSUMDB=off GOTOOLCHAIN=local
cd "$wt" || exit 2
git checkout -q -- . ; git clean -fdq
git apply "$seed/patch.diff" || { echo "PATCH DOES NOT APPLY"; exit 2; }
go build ./... || { echo "DOES NOT COMPILE"; git checkout -q -- .; exit 2; }
if go test -mod=mod -vet=off -count=1 ./... >/tmp/seedtest.log 2>&1; then echo "suite: passes with change"; else echo "SUITE FAILS WITH CHANGE"; tail -5 /tmp/seedtest.log; git checkout -q -- .; exit 2; fi
rundemo() {
  if [ -f "$seed/demo.sh" ]; then (cd "$wt" && bash "$seed/demo.sh" "$wt") >/tmp/seeddemo.log 2>&1; return $?;
  else
    t=$(ls "$seed"/*_test.go | head -1); pkgline=$(grep -m1 '^package ' "$t" | awk '{print $2}')
    dir=pkg/yqlib; [ "$pkgline" = "cmd" ] && dir=cmd
    cp "$t" "$wt/$dir/zz_seed_demo_test.go"
    (cd "$wt" && go test -mod=mod -vet=off -count=1 -run 'Seed|Demo|C[0-9][0-9]' ./$dir) >/tmp/seeddemo.log 2>&1; rc=$?
    rm -f "$wt/$dir/zz_seed_demo_test.go"; return $rc
  fi
}
rundemo; with=$?
git checkout -q -- . ; git clean -fdq
rundemo; without=$?
echo "demo: with change rc=$with, without change rc=$without"
if [ $with -eq 0 ] || [ $without -ne 0 ]; then echo "DEMO DOES NOT DISCRIMINATE"; tail -20 /tmp/seeddemo.log; exit 2; fi
cd /verif
# run the checks against the scratch worktree with the change applied (same as applying it to /repo; /repo stays
# untouched so that background runs are not disturbed). VERIF_REPO selects the tree the engine loads.
(cd "$wt" && git apply "$seed/patch.diff") || { echo "PATCH DOES NOT APPLY"; exit 2; }
for p in "$@"; do
  out=$(VERIF_REPO="$wt" ./bin/check $p quick -no-evidence 2>&1); rc=$?
  echo "check $p: rc=$rc $(echo "$out" | grep -c '^VIOLATION') violations"
  echo "$out" | grep '^VIOLATION\|^counterexample\|MACHINERY\|INCOMPLETE' | cut -c1-220 | head -6
done
(cd "$wt" && git checkout -q -- . && git clean -fdq)
rm -f /verif/replays/*.json
