#!/bin/bash
# usage: tools/seedcheck.sh <seed-id> [harness ...]  — applies seeded/<id>/patch.diff to the scratch worktree /tmp/wt-main
# (reset to /repo's HEAD first) and runs the property's quick check (or only the named harnesses) against it.
set -u
id=$1; shift
cd /verif
prop=$(python3 -c "import json;print(json.load(open('seeded/$id/meta.json'))['property'])" 2>/dev/null || echo ${id:0:3})
wt=/tmp/wt-main
[ -d $wt ] || git -C /repo worktree add --detach $wt HEAD >/dev/null 2>&1
(cd $wt && git reset -q --hard && git checkout -q --detach $(git -C /repo rev-parse HEAD) && git clean -fdq)
patch=seeded/$id/patch.diff; [ -f seeded/$id/patch.head.diff ] && patch=seeded/$id/patch.head.diff
(cd $wt && git apply /verif/$patch) || { echo "PATCH DOES NOT APPLY"; exit 2; }
only=""
[ $# -gt 0 ] && only="-only $(echo "$@" | tr ' ' ',')"
out=$(VERIF_REPO=$wt ./bin/check $prop quick -no-evidence -samples 0 $only 2>&1); rc=$?
echo "$id $prop rc=$rc $(echo "$out" | grep -c '^VIOLATION') violations"
echo "$out" | grep '^counterexample\|MACHINERY\|INCOMPLETE' | cut -c1-260 | head -${SEEDCHECK_LINES:-4}
(cd $wt && git checkout -q -- . && git clean -fdq)
rm -f /verif/replays/*.json
