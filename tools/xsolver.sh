#!/bin/sh
# usage: tools/xsolver.sh [quick|thorough] [props...]
# Solver differential: runs every registered check under z3 4.8.12 (the registered back end), z3 5.1.0 (z3-new)
# and cvc5 1.0 without touching the evidence files, and compares paths / forks / known findings / violations.
# The three back ends must explore the same path tree: a different count means one of them answered a query
# differently (or dropped an assertion), which would make every verdict of that encoding suspect.
# Run after every change of the term encoding (engine/term.go, solver.go, sstr.go, ops.go); result in xsolver.txt.
tier=${1:-quick}; shift 2>/dev/null || true
cd "$(dirname "$0")/.."
props=${*:-C01 C02 C03 C04 C05 C06 C07 C08 C09 C10 C11 C12 C13 C14 C15 C16 C17 C18 C19}
bad=0
out=xsolver.txt
{
echo "# solver differential, tier=$tier, $(date -u +%Y-%m-%dT%H:%MZ), repo $(git -C "${VERIF_REPO:-/repo}" rev-parse --short HEAD)"
for p in $props; do
  ref=""
  for s in z3 z3-new cvc5; do
    line=$(VERIF_SOLVER=$s ./bin/check $p $tier -no-evidence -samples 0 2>&1 | grep "^property $p tier" | sed -e 's/, [0-9]* solver queries.*witness replays agreed//' -e 's/, wall.*//')
    echo "$s: $line"
    if [ -z "$ref" ]; then ref=$line; elif [ "$ref" != "$line" ]; then echo "DISAGREEMENT $p $s"; bad=1; fi
  done
done
echo "disagreements: $bad"
} | tee $out
exit $bad
