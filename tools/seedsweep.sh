#!/bin/bash
# usage: tools/seedsweep.sh [seed-id ...]
# Regression of the checks themselves: every stored seeded change (seeded/<id>/patch.diff) is applied to a scratch
# worktree of /repo's current HEAD (outside /repo and /verif; /repo itself is never touched), the quick check of
# its property is run against that tree (VERIF_REPO), and the change must be reported (exit 1 with a VIOLATION
# line). Prints one line per seed; exits 1 if some seed is no longer caught. The worktree is removed afterwards.
set -u
cd "$(dirname "$0")/.."
wt=$(mktemp -d /dev/shm/seedsweep.XXXXXX)/wt
git -C /repo worktree add --detach "$wt" HEAD >/dev/null 2>&1 || { echo "cannot create worktree"; exit 2; }
trap 'git -C /repo worktree remove --force "$wt" >/dev/null 2>&1; git -C /repo worktree prune; rm -rf "$(dirname "$wt")"' EXIT
ids=${*:-$(ls seeded)}
bad=0
for id in $ids; do
  prop=$(python3 -c "import json;print(json.load(open('seeded/$id/meta.json'))['property'])")
  extra=$(python3 -c "import json;print(' '.join(json.load(open('seeded/$id/meta.json')).get('also_check',[])))")
  if python3 -c "import json,sys;sys.exit(0 if json.load(open('seeded/$id/meta.json')).get('neutralised_by') else 1)"; then echo "$id $prop: skipped (neutralised or not detectable, see meta.json)"; continue; fi
  (cd "$wt" && git reset -q --hard HEAD && git clean -fdq)
  patch="/verif/seeded/$id/patch.diff"
  # a seed whose context lines were touched by a later fix: commit keeps a copy re-cut against the current HEAD
  [ -f "/verif/seeded/$id/patch.head.diff" ] && patch="/verif/seeded/$id/patch.head.diff"
  if ! (cd "$wt" && git apply "$patch" 2>/dev/null); then
    echo "$id $prop: patch no longer applies to HEAD (needs seeded/$id/patch.head.diff)"; bad=1; continue
  fi
  caught=0
  for pp in $prop $extra; do
    out=$(VERIF_REPO="$wt" ./bin/check $pp quick -no-evidence -samples 0 2>&1); rc=$?
    n=$(echo "$out" | grep -c '^VIOLATION')
    if [ $rc -eq 1 ] && [ $n -gt 0 ]; then echo "$id $pp: caught ($n violations)"; caught=1; break; else echo "$id $pp: not caught rc=$rc"; fi
  done
  if [ $caught -eq 0 ]; then echo "$id: NOT CAUGHT"; bad=1; fi
done
rm -f replays/*.json
exit $bad
