#!/bin/bash
# usage: tools/seedsweep.sh [seed-id ...]
# Regression of the checks themselves: every stored seeded change (seeded/<id>/patch.diff) is applied to a scratch
# worktree of /repo's current HEAD (outside /repo and /verif; /repo itself is never touched), the quick check of
# its property is run against that tree (VERIF_REPO), and the change must be reported (exit 1 with a VIOLATION
# line). Prints one line per seed; exits 1 if some seed is no longer caught. The worktree is removed afterwards.
set -u
cd "$(dirname "$0")/.."
wt=$(mktemp -d /dev/shm/seedsweep.XXXXXX)/wt
git -C /repo worktree add --detach "$wt" HEAD >/dev/null 2>&1 || { echo "cannot create worktree"; exit 2; }
trap 'git -C /repo worktree remove --force "$wt" >/dev/null 2>&1; git -C /repo worktree prune; rm -rf "$(dirname "$wt")"' EXIT
ids=${*:-$(ls seeded)}
bad=0
for id in $ids; do
  prop=$(python3 -c "import json;print(json.load(open('seeded/$id/meta.json'))['property'])")
  extra=$(python3 -c "import json;print(' '.join(json.load(open('seeded/$id/meta.json')).get('also_check',[])))")
  (cd "$wt" && git checkout -q -- . && git clean -fdq)
  if ! (cd "$wt" && git apply "/verif/seeded/$id/patch.diff" 2>/dev/null); then
    if (cd "$wt" && git apply -3 "/verif/seeded/$id/patch.diff" >/dev/null 2>&1); then :; else echo "$id $prop: patch no longer applies to HEAD (skipped)"; (cd "$wt" && git checkout -q -- . ); continue; fi
  fi
  out=$(VERIF_REPO="$wt" ./bin/check $prop quick -no-evidence -samples 0 2>&1); rc=$?
  n=$(echo "$out" | grep -c '^VIOLATION')
  if [ $rc -eq 1 ] && [ $n -gt 0 ]; then echo "$id $prop: caught ($n violations)"; else echo "$id $prop: NOT CAUGHT rc=$rc"; bad=1; fi
done
rm -f replays/*.json
exit $bad
