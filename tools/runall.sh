#!/bin/sh
# usage: tools/runall.sh quick|thorough  — runs every registered check, prints one line each
tier=${1:-quick}
cd "$(dirname "$0")/.."
for p in C01 C02 C03 C04 C05 C06 C07 C08 C09 C10 C11 C12 C13 C14 C15 C16 C17 C18 C19; do
  s=$(date +%s)
  out=$(./bin/check $p $tier 2>&1); rc=$?
  e=$(date +%s)
  echo "$p rc=$rc $((e-s))s $(echo "$out" | grep -c '^KNOWN-FINDING') known $(echo "$out" | grep -c '^VIOLATION') violations $(echo "$out" | grep -c 'INCOMPLETE\|WARNING\|MACHINERY') notes"
  echo "$out" | grep 'VIOLATION\|INCOMPLETE\|WARNING\|MACHINERY' | head -5
done
