#!/usr/bin/env python3
"""Regenerates /verif/MANIFEST.json from checks.json + props_meta.json and validates it."""
import json, os, sys
here = os.path.dirname(os.path.dirname(os.path.abspath(__file__)))
checks = json.load(open(os.path.join(here, "checks.json")))
meta = json.load(open(os.path.join(here, "props_meta.json")))
props = [json.loads(l) for l in open(os.path.join(here, "properties.jsonl"))]
man = {
    "version": 1,
    "setup_cmd": "cd /verif/engine && GOFLAGS=-mod=mod GOPROXY=off GOSUMDB=off GOTOOLCHAIN=local go build -o /verif/.build/gosym .",
    "hooks": {
        "guard": "verif",
        "enable": "no source hooks: harness files (/verif/harness/<pkg>/*.go) are injected into package yqlib/cmd by go/packages Overlay for the symbolic run and by `go test -overlay` for native replay; /repo is never modified by a check",
        "baseline_off_cmd": "cd /repo && go test -mod=mod -vet=off -count=1 ./...",
        "source_commits": [],
        "add_only": True,
    },
    "engines": [{
        "name": "gosym",
        "path": "/verif/engine",
        "serves_properties": sorted(k for k in checks if k in meta),
        "kind_free_text": "own symbolic executor for go/ssa (x/tools v0.29.0) of /repo's current source: concrete heap, symbolic scalars/bytes as QF_BV terms (plus an IEEE-754 binary64 fragment, QF_FPBV, for the harnesses that name it), path exploration by decision-prefix replay, every branch and assertion decided by an SMT solver (z3 4.8.12 via z3 -in; cvc5 1.0 for the floating-point harnesses); counterexamples replayed natively with go test -overlay before being reported",
    }],
    "checks": [],
    "not_applicable": [],
    "notes": "Technique family: solver-based checking of the real code (symbolic execution over go/ssa + SMT). See DESIGN.md. Exit codes: 0 held / known findings only, 1 VIOLATION (reproduced natively), 2 machinery fault or incomplete exploration (never on the unchanged tree).",
}
for p in props:
    pid = p["id"]
    if pid in checks and pid in meta and not meta[pid].get("not_applicable"):
        m = meta[pid]
        man["checks"].append({
            "property_id": pid,
            "quick_cmd": "./bin/check %s quick" % pid,
            "thorough_cmd": "./bin/check %s thorough" % pid,
            "evidence_file": "/verif/evidence/%s.json" % pid,
            "replay_cmd_template": "./bin/check --replay {path}",
            "engine": "gosym",
            "level_claimed": {"category": "model_checking", "text": m["level_text"], "design_ref": m.get("design_ref", "DESIGN.md §3 " + pid)},
            "level_note": m["level_note"],
            "technique": m.get("technique", "bounded symbolic execution of the real Go functions (go/ssa) with an SMT solver (z3; cvc5 for floating point) deciding every branch and assertion; counterexamples replayed natively"),
        })
    else:
        reason = meta.get(pid, {}).get("not_applicable") or "no check built yet for this property in this session (engine exists; harness pending) — see DESIGN.md"
        man["not_applicable"].append({"property_id": pid, "reason": reason})
json.dump(man, open(os.path.join(here, "MANIFEST.json"), "w"), indent=1)
try:
    import jsonschema
    jsonschema.validate(man, json.load(open("/root/.vp/MANIFEST.schema.json")))
    print("MANIFEST.json valid;", len(man["checks"]), "checks,", len(man["not_applicable"]), "not applicable")
except ImportError:
    print("jsonschema not available; MANIFEST.json written unvalidated")
