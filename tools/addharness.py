#!/usr/bin/env python3
# usage: tools/addharness.py <prop> <fn> <cover>[,<cover>...] [key=json ...]   — appends a harness entry to checks.json
import json, sys, os
prop, fn, covers = sys.argv[1], sys.argv[2], sys.argv[3].split(',')
c = json.load(open(os.path.join(os.path.dirname(os.path.dirname(os.path.abspath(__file__))), 'checks.json')))
hs = c[prop]['harnesses']
if any(h['fn'] == fn for h in hs):
    print('already there'); sys.exit(0)
e = {'fn': fn, 'covers': covers}
for kv in sys.argv[4:]:
    k, v = kv.split('=', 1)
    e[k] = json.loads(v)
hs.append(e)
json.dump(c, open(os.path.join(os.path.dirname(os.path.dirname(os.path.abspath(__file__))), 'checks.json'), 'w'), indent=1, ensure_ascii=False)
print('added', fn, 'to', prop)
