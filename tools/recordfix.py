#!/usr/bin/env python3
# usage: tools/recordfix.py <commit> <property> "<what failed>" [also=<prop>,<prop>] [neutralised="<reason>"]
# records a fix: commit of /repo: known_findings.json gets a "fixed:" entry, seeded/R-<commit>/ the reverse diff.
import json, subprocess, sys, os
h, prop, what = sys.argv[1], sys.argv[2], sys.argv[3]
also, neut = [], None
for a in sys.argv[4:]:
    if a.startswith('also='): also = a[5:].split(',')
    if a.startswith('neutralised='): neut = a[12:]
h = subprocess.check_output(['git', '-C', '/repo', 'rev-parse', '--short=7', h], text=True).strip()
subj = subprocess.check_output(['git', '-C', '/repo', 'log', '-1', '--format=%s', h], text=True).strip()
d = f'/verif/seeded/R-{h}'
os.makedirs(d, exist_ok=True)
diff = subprocess.check_output(['git', '-C', '/repo', 'diff', h, h + '~1', '--', '.', ':!*_test.go'], text=True)
open(d + '/patch.diff', 'w').write(diff)
meta = {"id": "R-" + h, "property": prop, "also_check": also, "round": "revert", "summary": f"reverts {h} ({subj})",
        "needs_to_manifest": "the input of the original finding",
        "origin": "derived: the reverse diff of a fix: commit of /repo (not an independent seed); guards against the repaired defect coming back",
        "files": {"patch": "patch.diff"}, "detection": {"caught_by": "see tools/seedsweep.sh output"}}
if neut: meta["neutralised_by"] = neut
json.dump(meta, open(d + '/meta.json', 'w'), indent=1)
k = json.load(open('/verif/known_findings.json'))
if not any(e.get('commit') == h for e in k):
    k.append({"property": prop, "status": "fixed", "commit": h, "what": f"fixed: property={prop} {h} {what}"})
    json.dump(k, open('/verif/known_findings.json', 'w'), indent=1, ensure_ascii=False)
print('recorded', h, prop)
