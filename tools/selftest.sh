#!/bin/sh
# usage: tools/selftest.sh
# Self-test of the machinery (not a property check): (1) go test of the engine package (regex NFA vs package regexp),
# (2) the SELF harnesses — Go constructs on concrete and symbolic inputs and yq helpers the checks lean on — with
# EVERY explored path replayed natively: the engine's observables must equal the Go compiler's on each path.
# Exit 0 only if both agree everywhere. Run after every change to engine/*.go.
cd "$(dirname "$0")/.."
export GOFLAGS=-mod=mod GOPROXY=off GOSUMDB=off GOTOOLCHAIN=local
(cd engine && go build -o ../.build/gosym . && go test -count=1 . 2>&1 | tail -3) || exit 1
out=$(./bin/check SELF quick -samples 1000000 -no-evidence 2>&1); rc=$?
echo "$out" | grep '^harness\|^property\|WARNING\|MACHINERY\|INCOMPLETE\|VIOLATION' | cut -c1-300
exit $rc
