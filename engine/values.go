package main

import (
	"fmt"
	"go/types"
	"strings"

	"golang.org/x/tools/go/ssa"
)

// Value domain. Concrete heap and pointers; symbolic leaves.
//   bool | Sym(Bool term)          Go bool
//   Int  | Sym(BV term)            Go integers (bit pattern normalised to the static type)
//   float64 | SymF(FP term)        Go float64 (float32 concrete only)
//   string | *SStr | *FD           Go strings (concrete, rope with symbolic bytes/atoms, finite domain)
//   *Struct, *Array                aggregates by value (copied on load/store)
//   Pointer, Slice, Iface, *Closure, *MapObj, Tuple, Opaque, *Native
type Value interface{}

type Int struct{ v uint64 }

type Sym struct{ t *Term }

// SymF is a symbolic float64: a term of floating-point sort (term.go, IEEE-754 binary64 fragment).
type SymF struct{ t *Term }

type Struct struct{ f []Value }
type Array struct{ e []Value }

type Object struct {
	id  int
	val Value
	typ types.Type
}

type Pointer struct {
	obj  *Object
	path []int
}

type Slice struct {
	arr      Pointer
	off, len int
	cap      int
	isNil    bool
}

type Iface struct {
	t types.Type
	v Value
}

type Closure struct {
	fn   *ssa.Function
	bind []Value
}

// NativeFn is a function value implemented by the engine itself (only built by intrinsics, e.g. the swap
// function sort.Slice hands to its sorting routine); it holds no interpreter state of its own.
type NativeFn struct {
	f func(in *Interp, args []Value) Value
}

type MapEntry struct{ k, v Value }
type MapObj struct {
	id      int
	entries []*MapEntry
	kt      types.Type
}

type Tuple []Value

type Opaque struct{ what string }

// Native wraps a host Go object (compiled regexp, lexer state, …) that the engine only passes around.
type Native struct{ v any }

func copyVal(v Value) Value {
	switch x := v.(type) {
	case *Struct:
		n := &Struct{f: make([]Value, len(x.f))}
		for i, f := range x.f {
			n.f[i] = copyVal(f)
		}
		return n
	case *Array:
		n := &Array{e: make([]Value, len(x.e))}
		for i, f := range x.e {
			n.e[i] = copyVal(f)
		}
		return n
	}
	return v
}

func (in *Interp) newObject(t types.Type, v Value) *Object {
	in.nextID++
	return &Object{id: in.nextID, val: v, typ: t}
}

func zero(t types.Type) Value {
	switch u := t.Underlying().(type) {
	case *types.Basic:
		switch {
		case u.Info()&types.IsBoolean != 0:
			return false
		case u.Info()&types.IsInteger != 0:
			return Int{0}
		case u.Info()&types.IsFloat != 0:
			return float64(0)
		case u.Info()&types.IsComplex != 0:
			return complex128(0)
		case u.Info()&types.IsString != 0:
			return ""
		case u.Kind() == types.UnsafePointer:
			return Pointer{}
		case u.Kind() == types.UntypedNil:
			return nil
		}
		panic("zero basic " + u.String())
	case *types.Struct:
		s := &Struct{f: make([]Value, u.NumFields())}
		for i := 0; i < u.NumFields(); i++ {
			s.f[i] = zero(u.Field(i).Type())
		}
		return s
	case *types.Array:
		a := &Array{e: make([]Value, int(u.Len()))}
		for i := range a.e {
			a.e[i] = zero(u.Elem())
		}
		return a
	case *types.Pointer:
		return Pointer{}
	case *types.Slice:
		return Slice{isNil: true}
	case *types.Interface:
		return Iface{}
	case *types.Signature:
		return (*Closure)(nil)
	case *types.Map:
		return (*MapObj)(nil)
	case *types.Chan:
		return Opaque{"chan"}
	case *types.Tuple:
		tu := make(Tuple, u.Len())
		for i := range tu {
			tu[i] = zero(u.At(i).Type())
		}
		return tu
	}
	panic(fmt.Sprintf("zero: %T %v", t.Underlying(), t))
}

func (p Pointer) isNil() bool { return p.obj == nil }

func (p Pointer) slot() *Value {
	cur := &p.obj.val
	for _, i := range p.path {
		switch a := (*cur).(type) {
		case *Struct:
			cur = &a.f[i]
		case *Array:
			cur = &a.e[i]
		default:
			panic(fmt.Sprintf("slot: path %v into %T (obj type %v)", p.path, *cur, p.obj.typ))
		}
	}
	return cur
}

func (p Pointer) load() Value   { return copyVal(*p.slot()) }
func (p Pointer) store(v Value) { *p.slot() = copyVal(v) }
func (p Pointer) sub(i int) Pointer {
	np := make([]int, len(p.path)+1)
	copy(np, p.path)
	np[len(p.path)] = i
	return Pointer{p.obj, np}
}

func ptrEq(a, b Pointer) bool {
	if a.obj != b.obj || len(a.path) != len(b.path) {
		return false
	}
	for i := range a.path {
		if a.path[i] != b.path[i] {
			return false
		}
	}
	return true
}

func (s Slice) at(i int) Pointer { return s.arr.sub(s.off + i) }

func (in *Interp) makeSlice(et types.Type, n, c int) Slice {
	a := &Array{e: make([]Value, c)}
	z := zero(et)
	for i := range a.e {
		a.e[i] = copyVal(z)
	}
	o := in.newObject(types.NewArray(et, int64(c)), a)
	return Slice{arr: Pointer{obj: o}, off: 0, len: n, cap: c}
}

func (in *Interp) sliceOf(et types.Type, vals []Value) Slice {
	s := in.makeSlice(et, len(vals), len(vals))
	a := s.arr.obj.val.(*Array)
	copy(a.e, vals)
	return s
}

func sliceVals(s Slice) []Value {
	out := make([]Value, s.len)
	for i := 0; i < s.len; i++ {
		out[i] = s.at(i).load()
	}
	return out
}

func show(v Value) string {
	switch x := v.(type) {
	case Pointer:
		if x.obj == nil {
			return "nil"
		}
		return fmt.Sprintf("&o%d%v", x.obj.id, x.path)
	case *Struct:
		var sb strings.Builder
		sb.WriteString("{")
		for i, f := range x.f {
			if i > 0 {
				sb.WriteString(" ")
			}
			sb.WriteString(show(f))
		}
		sb.WriteString("}")
		return sb.String()
	case Int:
		return fmt.Sprint(int64(x.v))
	case Sym:
		s := x.t.String()
		if len(s) > 120 {
			s = s[:120] + "…"
		}
		return "sym:" + s
	case Iface:
		if x.t == nil {
			return "nil"
		}
		return fmt.Sprintf("<%v:%s>", x.t, show(x.v))
	case *SStr:
		return x.debug()
	case *FD:
		return fmt.Sprintf("FD%v", x.alts)
	case Slice:
		if x.isNil {
			return "nil-slice"
		}
		return fmt.Sprintf("slice(len=%d)", x.len)
	case *Closure:
		if x == nil {
			return "nil-func"
		}
		return "func:" + x.fn.String()
	}
	return fmt.Sprintf("%v", v)
}

// ---- heap cloning (post-init snapshot) ----

type cloner struct {
	objs map[*Object]*Object
	maps map[*MapObj]*MapObj
	clos map[*Closure]*Closure
}

func newCloner() *cloner {
	return &cloner{objs: map[*Object]*Object{}, maps: map[*MapObj]*MapObj{}, clos: map[*Closure]*Closure{}}
}

func (c *cloner) obj(o *Object) *Object {
	if o == nil {
		return nil
	}
	if n, ok := c.objs[o]; ok {
		return n
	}
	n := &Object{id: o.id, typ: o.typ}
	c.objs[o] = n
	n.val = c.val(o.val)
	return n
}

func (c *cloner) val(v Value) Value {
	switch x := v.(type) {
	case *Struct:
		n := &Struct{f: make([]Value, len(x.f))}
		for i, f := range x.f {
			n.f[i] = c.val(f)
		}
		return n
	case *Array:
		n := &Array{e: make([]Value, len(x.e))}
		for i, f := range x.e {
			n.e[i] = c.val(f)
		}
		return n
	case Pointer:
		if x.obj == nil {
			return x
		}
		return Pointer{obj: c.obj(x.obj), path: x.path}
	case Slice:
		if x.arr.obj == nil {
			return x
		}
		x.arr = Pointer{obj: c.obj(x.arr.obj), path: x.arr.path}
		return x
	case Iface:
		return Iface{t: x.t, v: c.val(x.v)}
	case *Closure:
		if x == nil {
			return x
		}
		if n, ok := c.clos[x]; ok {
			return n
		}
		n := &Closure{fn: x.fn, bind: make([]Value, len(x.bind))}
		c.clos[x] = n
		for i, b := range x.bind {
			n.bind[i] = c.val(b)
		}
		return n
	case *MapObj:
		if x == nil {
			return x
		}
		if n, ok := c.maps[x]; ok {
			return n
		}
		n := &MapObj{id: x.id, kt: x.kt}
		c.maps[x] = n
		for _, e := range x.entries {
			n.entries = append(n.entries, &MapEntry{k: c.val(e.k), v: c.val(e.v)})
		}
		return n
	case Tuple:
		n := make(Tuple, len(x))
		for i, f := range x {
			n[i] = c.val(f)
		}
		return n
	}
	return v
}
