package main

import (
	"fmt"
	"go/token"
	"go/types"
	"math"
	"unicode/utf8"

	"golang.org/x/tools/go/ssa"
)

func decodeRune(b []byte) (rune, int) { return utf8.DecodeRune(b) }

func toTerm(v Value, w int) *Term {
	switch x := v.(type) {
	case Sym:
		return x.t
	case Int:
		return mkConst(x.v, w)
	case bool:
		return mkBool(x)
	case *Atom:
		panic(unsupported{"byte-level inspection of an integer/opaque text atom"})
	}
	panic(fmt.Sprintf("toTerm %T", v))
}

func isSym(v Value) bool {
	_, ok := v.(Sym)
	return ok
}

func isSymF(v Value) bool {
	_, ok := v.(SymF)
	return ok
}

// fpTerm gives the floating-point term of a float64 value (concrete or symbolic).
func fpTerm(v Value) *Term {
	switch x := v.(type) {
	case SymF:
		return x.t
	case float64:
		return mkFPConst(x)
	}
	panic(fmt.Sprintf("fpTerm %T", v))
}

func symFloat(t *Term) Value {
	if c, ok := fpConstOf(t); ok {
		return c
	}
	return SymF{t}
}

func requireFloat64(t types.Type) {
	if b, ok := t.Underlying().(*types.Basic); ok && b.Kind() == types.Float32 {
		unsup("symbolic float32")
	}
}

func (in *Interp) floatBinop(op token.Token, t types.Type, a, b Value) Value {
	requireFloat64(t)
	x, y := fpTerm(a), fpTerm(b)
	switch op {
	case token.ADD:
		return symFloat(mkFPArith(OFPAdd, x, y))
	case token.SUB:
		return symFloat(mkFPArith(OFPSub, x, y))
	case token.MUL:
		return symFloat(mkFPArith(OFPMul, x, y))
	case token.QUO:
		return symFloat(mkFPArith(OFPDiv, x, y))
	case token.LSS:
		return symBool(mkFPCmp(OFPLt, x, y))
	case token.LEQ:
		return symBool(mkFPCmp(OFPLe, x, y))
	case token.GTR:
		return symBool(mkFPCmp(OFPLt, y, x))
	case token.GEQ:
		return symBool(mkFPCmp(OFPLe, y, x))
	}
	panic("sym float op " + op.String())
}

// eqTerm builds the Bool term for Go's == on two values of static type t.
func (in *Interp) eqTerm(a, b Value, t types.Type) *Term {
	switch x := a.(type) {
	case nil:
		return mkBool(b == nil)
	case bool, Sym, Int:
		if isBool(t) || (!isInt(t) && (isBoolVal(a) && isBoolVal(b))) {
			return mkEq(toTerm(a, 0), toTerm(b, 0))
		}
		w := 64
		if isInt(t) {
			w, _ = width(t)
		} else if s, ok := a.(Sym); ok {
			w = s.t.w
		} else if s, ok := b.(Sym); ok {
			w = s.t.w
		}
		return mkEq(toTerm(a, w), toTerm(b, w))
	case float64:
		if isSymF(b) {
			return mkFPCmp(OFPEq, fpTerm(a), fpTerm(b))
		}
		return mkBool(x == b.(float64))
	case SymF:
		return mkFPCmp(OFPEq, x.t, fpTerm(b))
	case complex128:
		return mkBool(x == b.(complex128))
	case string, *SStr, *FD:
		return strEq(a, b)
	case Pointer:
		y, ok := b.(Pointer)
		if !ok {
			return tFalse
		}
		return mkBool(ptrEq(x, y))
	case Iface:
		y := b.(Iface)
		if x.t == nil || y.t == nil {
			return mkBool(x.t == nil && y.t == nil)
		}
		if !types.Identical(x.t, y.t) {
			return tFalse
		}
		return in.eqTerm(x.v, y.v, x.t)
	case *Struct:
		y := b.(*Struct)
		st, _ := t.Underlying().(*types.Struct)
		conj := make([]*Term, 0, len(x.f))
		for i := range x.f {
			var ft types.Type = types.Typ[types.Int]
			if st != nil {
				ft = st.Field(i).Type()
			}
			conj = append(conj, in.eqTerm(x.f[i], y.f[i], ft))
		}
		return mkAnd(conj...)
	case *Array:
		y := b.(*Array)
		var et types.Type = types.Typ[types.Int]
		if at, ok := t.Underlying().(*types.Array); ok {
			et = at.Elem()
		}
		conj := make([]*Term, 0, len(x.e))
		for i := range x.e {
			conj = append(conj, in.eqTerm(x.e[i], y.e[i], et))
		}
		return mkAnd(conj...)
	case *Closure:
		y, _ := b.(*Closure)
		return mkBool(x == nil && y == nil)
	case *MapObj:
		y, _ := b.(*MapObj)
		return mkBool(x == y)
	case Slice:
		y, _ := b.(Slice)
		return mkBool(x.isNil && y.isNil)
	case Opaque:
		y, ok := b.(Opaque)
		return mkBool(ok && x == y)
	case *rangeIter:
		return mkBool(a == b)
	}
	panic(fmt.Sprintf("eqTerm %T", a))
}

func isBoolVal(v Value) bool {
	switch x := v.(type) {
	case bool:
		return true
	case Sym:
		return x.t.w == 0
	}
	return false
}

func (in *Interp) binop(op token.Token, t types.Type, a, b Value, tb types.Type, site ssa.Instruction) Value {
	if op == token.EQL {
		return symBool(in.eqTerm(a, b, t))
	}
	if op == token.NEQ {
		return symBool(mkNot(in.eqTerm(a, b, t)))
	}
	if isString(t) {
		return in.strBinop(op, a, b)
	}
	if isSym(a) || isSym(b) {
		return in.symBinop(op, t, a, b, tb, site)
	}
	if isSymF(a) || isSymF(b) {
		return in.floatBinop(op, t, a, b)
	}
	switch x := a.(type) {
	case Int:
		y := b.(Int)
		bits, signed := width(t)
		switch op {
		case token.ADD:
			return norm(t, x.v+y.v)
		case token.SUB:
			return norm(t, x.v-y.v)
		case token.MUL:
			return norm(t, x.v*y.v)
		case token.QUO:
			if y.v == 0 {
				panic(goPanic{val: "runtime error: integer divide by zero", where: in.where(site)})
			}
			if signed {
				if int64(y.v) == -1 {
					return norm(t, -x.v)
				}
				return norm(t, uint64(int64(x.v)/int64(y.v)))
			}
			return norm(t, x.v/y.v)
		case token.REM:
			if y.v == 0 {
				panic(goPanic{val: "runtime error: integer divide by zero", where: in.where(site)})
			}
			if signed {
				if int64(y.v) == -1 {
					return norm(t, 0)
				}
				return norm(t, uint64(int64(x.v)%int64(y.v)))
			}
			return norm(t, x.v%y.v)
		case token.AND:
			return norm(t, x.v&y.v)
		case token.OR:
			return norm(t, x.v|y.v)
		case token.XOR:
			return norm(t, x.v^y.v)
		case token.AND_NOT:
			return norm(t, x.v&^y.v)
		case token.SHL:
			sh := y.v
			if _, ys := width(tb); ys && int64(sh) < 0 {
				panic(goPanic{val: "runtime error: negative shift amount", where: in.where(site)})
			}
			if sh >= 64 {
				return norm(t, 0)
			}
			return norm(t, x.v<<sh)
		case token.SHR:
			sh := y.v
			if _, ys := width(tb); ys && int64(sh) < 0 {
				panic(goPanic{val: "runtime error: negative shift amount", where: in.where(site)})
			}
			if signed {
				if sh >= 64 {
					sh = 63
				}
				return norm(t, uint64(int64(x.v)>>sh))
			}
			if sh >= 64 {
				return norm(t, 0)
			}
			m := x.v
			if bits < 64 {
				m &= uint64(1)<<uint(bits) - 1
			}
			return norm(t, m>>sh)
		case token.LSS:
			if signed {
				return int64(x.v) < int64(y.v)
			}
			return x.v < y.v
		case token.LEQ:
			if signed {
				return int64(x.v) <= int64(y.v)
			}
			return x.v <= y.v
		case token.GTR:
			if signed {
				return int64(x.v) > int64(y.v)
			}
			return x.v > y.v
		case token.GEQ:
			if signed {
				return int64(x.v) >= int64(y.v)
			}
			return x.v >= y.v
		}
	case float64:
		y := b.(float64)
		f32 := t.Underlying().(*types.Basic).Kind() == types.Float32
		r := func(v float64) Value {
			if f32 {
				return float64(float32(v))
			}
			return v
		}
		switch op {
		case token.ADD:
			return r(x + y)
		case token.SUB:
			return r(x - y)
		case token.MUL:
			return r(x * y)
		case token.QUO:
			return r(x / y)
		case token.LSS:
			return x < y
		case token.LEQ:
			return x <= y
		case token.GTR:
			return x > y
		case token.GEQ:
			return x >= y
		}
	case bool:
		y := b.(bool)
		switch op {
		case token.AND, token.LAND:
			return x && y
		case token.OR, token.LOR:
			return x || y
		case token.XOR:
			return x != y
		}
	case complex128:
		y := b.(complex128)
		switch op {
		case token.ADD:
			return x + y
		case token.SUB:
			return x - y
		case token.MUL:
			return x * y
		case token.QUO:
			return x / y
		}
	}
	panic(fmt.Sprintf("binop %v on %T", op, a))
}

func (in *Interp) strBinop(op token.Token, a, b Value) Value {
	switch op {
	case token.ADD:
		if fa, ok := a.(*FD); ok && isSymStrRope(b) {
			a = in.concretizeFD(fa)
		}
		if fb, ok := b.(*FD); ok && isSymStrRope(a) {
			b = in.concretizeFD(fb)
		}
		if fa, ok := a.(*FD); ok {
			if fb, ok := b.(*FD); ok {
				_ = fb
				a = in.concretizeFD(fa)
			}
		}
		return strConcat(a, b)
	case token.LSS:
		return symBool(strLess(a, b))
	case token.GTR:
		return symBool(strLess(b, a))
	case token.LEQ:
		return symBool(mkNot(strLess(b, a)))
	case token.GEQ:
		return symBool(mkNot(strLess(a, b)))
	}
	panic("string binop " + op.String())
}

func isSymStrRope(v Value) bool {
	_, ok := v.(*SStr)
	return ok
}

func (in *Interp) symBinop(op token.Token, t types.Type, a, b Value, tb types.Type, site ssa.Instruction) Value {
	if isBool(t) {
		ta, tb := toTerm(a, 0), toTerm(b, 0)
		switch op {
		case token.AND, token.LAND:
			return symBool(mkAnd(ta, tb))
		case token.OR, token.LOR:
			return symBool(mkOr(ta, tb))
		case token.XOR:
			return symBool(mkNot(mkEq(ta, tb)))
		}
		panic("sym bool op " + op.String())
	}
	if isFloat(t) {
		unsup("symbolic float arithmetic")
	}
	w, signed := width(t)
	ta := toTerm(a, w)
	var tbm *Term
	if op == token.SHL || op == token.SHR {
		wb, sb := width(tb)
		y := toTerm(b, wb)
		if sb {
			if in.decide(mkBin(OSLt, y, mkConst(0, wb))) {
				panic(goPanic{val: "runtime error: negative shift amount", where: in.where(site)})
			}
		}
		// bring shift amount to width w, saturating
		if wb > w {
			big := mkNot(mkBin(OULt, y, mkConst(uint64(w), wb)))
			tbm = mkIte(big, mkConst(uint64(w), w), mkExtract(y, w-1, 0))
		} else {
			tbm = mkZExt(y, w)
		}
	} else {
		tbm = toTerm(b, w)
	}
	pick := func(s, u Op) Op {
		if signed {
			return s
		}
		return u
	}
	switch op {
	case token.ADD:
		return symInt(mkBin(OAdd, ta, tbm), signed)
	case token.SUB:
		return symInt(mkBin(OSub, ta, tbm), signed)
	case token.MUL:
		return symInt(mkBin(OMul, ta, tbm), signed)
	case token.QUO, token.REM:
		if in.decide(mkEq(tbm, mkConst(0, w))) {
			panic(goPanic{val: "runtime error: integer divide by zero", where: in.where(site)})
		}
		if op == token.QUO {
			return symInt(mkBin(pick(OSDiv, OUDiv), ta, tbm), signed)
		}
		return symInt(mkBin(pick(OSRem, OURem), ta, tbm), signed)
	case token.AND:
		return symInt(mkBin(OBAnd, ta, tbm), signed)
	case token.OR:
		return symInt(mkBin(OBOr, ta, tbm), signed)
	case token.XOR:
		return symInt(mkBin(OBXor, ta, tbm), signed)
	case token.AND_NOT:
		return symInt(mkBin(OBAnd, ta, mkBin(OBXor, tbm, mkConst(^uint64(0), w))), signed)
	case token.SHL:
		return symInt(mkBin(OShl, ta, tbm), signed)
	case token.SHR:
		return symInt(mkBin(pick(OAShr, OLShr), ta, tbm), signed)
	case token.LSS:
		return symBool(mkBin(pick(OSLt, OULt), ta, tbm))
	case token.LEQ:
		return symBool(mkBin(pick(OSLe, OULe), ta, tbm))
	case token.GTR:
		return symBool(mkBin(pick(OSLt, OULt), tbm, ta))
	case token.GEQ:
		return symBool(mkBin(pick(OSLe, OULe), tbm, ta))
	}
	panic("sym int op " + op.String())
}

func (in *Interp) convert(from, to types.Type, v Value, site ssa.Instruction) Value {
	if sv, ok := v.(Sym); ok {
		if isInt(to) && isInt(from) {
			_, sf := width(from)
			wt, st := width(to)
			return symInt(mkResize(sv.t, wt, sf), st)
		}
		if isString(to) && isInt(from) {
			// string(rune) / string(byte): the integer is a code point (a byte is an unsigned one)
			_, sf := width(from)
			in.assumeASCIIRune(mkResize(sv.t, 32, sf))
			return strFromBytes([]*Term{mkExtract(sv.t, 7, 0)})
		}
		if isFloat(to) && isInt(from) {
			requireFloat64(to)
			_, sf := width(from)
			return symFloat(mkFPOfInt(sv.t, sf))
		}
		if isBool(to) {
			return v
		}
		unsup("conversion of symbolic %v to %v", from, to)
	}
	if fv, ok := v.(SymF); ok {
		switch {
		case isFloat(to):
			requireFloat64(to)
			return v
		case isInt(to):
			// Go leaves out-of-range conversions implementation-defined; amd64 (the platform the repository is built and
			// replayed on) yields MinInt64. Only int64/int are modelled.
			if w, signed := width(to); w == 64 && signed {
				return symInt(mkFPToInt64(fv.t), true)
			}
			unsup("conversion of symbolic float to %v", to)
		}
		unsup("conversion of symbolic float to %v", to)
	}
	switch {
	case isInt(to):
		switch x := v.(type) {
		case Int:
			return norm(to, x.v)
		case float64:
			_, signed := width(to)
			if signed {
				return norm(to, uint64(int64(x)))
			}
			return norm(to, uint64(x))
		}
	case isFloat(to):
		f32 := to.Underlying().(*types.Basic).Kind() == types.Float32
		switch x := v.(type) {
		case Int:
			var f float64
			if _, signed := width(from); signed {
				f = float64(int64(x.v))
			} else {
				f = float64(x.v)
			}
			if f32 {
				return float64(float32(f))
			}
			return f
		case float64:
			if f32 {
				return float64(float32(x))
			}
			return x
		}
	case isComplex(to):
		return v
	case isString(to):
		switch x := v.(type) {
		case Int:
			return string(rune(int64(x.v)))
		case string, *SStr, *FD:
			return x
		case Slice: // []byte or []rune
			et := from.Underlying().(*types.Slice).Elem()
			bits, _ := width(et)
			vals := sliceVals(x)
			allConc := true
			for _, e := range vals {
				if _, ok := e.(Int); !ok {
					allConc = false
				}
			}
			_ = allConc
			if bits == 8 {
				if allConc {
					b := make([]byte, len(vals))
					for i, e := range vals {
						b[i] = byte(e.(Int).v)
					}
					return string(b)
				}
				parts := make([]SPart, 0, len(vals))
				for _, e := range vals {
					if at, ok := e.(*Atom); ok {
						parts = append(parts, SPart{atom: at})
					} else {
						parts = append(parts, SPart{b: toTerm(e, 8)})
					}
				}
				return normParts(parts)
			}
			if allConc {
				r := make([]rune, len(vals))
				for i, e := range vals {
					r[i] = rune(int64(e.(Int).v))
				}
				return string(r)
			}
			var res Value = ""
			for _, e := range vals {
				switch y := e.(type) {
				case Int:
					res = strConcat(res, string(rune(int64(y.v))))
				case Sym:
					in.assumeASCIIRune(y.t)
					res = strConcat(res, strFromBytes([]*Term{mkExtract(y.t, 7, 0)}))
				}
			}
			return res
		}
	}
	if st, ok := to.Underlying().(*types.Slice); ok {
		if fd, ok := v.(*FD); ok {
			v = in.concretizeFD(fd)
		}
		if isStrVal(v) {
			bits, _ := width(st.Elem())
			bs, ok := strBytes(v)
			if !ok && bits == 8 {
				// an integer/opaque atom occupies one opaque slot of the byte slice: it can be moved and
				// turned back into a string, but any inspection of it is reported (toTerm fails)
				var vals []Value
				for _, p := range partsOf(v) {
					switch {
					case p.atom != nil:
						vals = append(vals, p.atom)
					case p.b != nil:
						vals = append(vals, symInt(p.b, false))
					default:
						for i := 0; i < len(p.lit); i++ {
							vals = append(vals, Int{uint64(p.lit[i])})
						}
					}
				}
				return in.sliceOf(st.Elem(), vals)
			}
			if !ok {
				unsup("[]rune of string with atoms: %s", show(v))
			}
			if bits == 8 {
				vals := make([]Value, len(bs))
				for i, b := range bs {
					vals[i] = symInt(b, false)
				}
				return in.sliceOf(st.Elem(), vals)
			}
			// []rune
			if s, ok := v.(string); ok {
				rs := []rune(s)
				vals := make([]Value, len(rs))
				for i, r := range rs {
					vals[i] = Int{uint64(int64(r))}
				}
				return in.sliceOf(st.Elem(), vals)
			}
			var vals []Value
			for i := 0; i < len(bs); i++ {
				b := bs[i]
				if b.isConst() {
					if b.c < 0x80 {
						vals = append(vals, Int{b.c})
						continue
					}
					var raw []byte
					for q := i; q < len(bs) && q < i+4 && bs[q].isConst(); q++ {
						raw = append(raw, byte(bs[q].c))
					}
					r, n := decodeRune(raw)
					vals = append(vals, Int{uint64(int64(r))})
					i += n - 1
					continue
				}
				in.requireASCII(b)
				vals = append(vals, Sym{mkZExt(b, 32)})
			}
			return in.sliceOf(st.Elem(), vals)
		}
		if s, ok := v.(Slice); ok {
			return s
		}
	}
	if _, ok := to.Underlying().(*types.Pointer); ok {
		return v // unsafe.Pointer conversions: pass through
	}
	if b, ok := to.Underlying().(*types.Basic); ok && b.Kind() == types.UnsafePointer {
		return v
	}
	panic(fmt.Sprintf("convert %v -> %v (%T)", from, to, v))
}

func (in *Interp) assumeASCIIRune(t *Term) {
	w := t.w
	ok := mkAnd(mkBin(OSLe, mkConst(0, w), t), mkBin(OSLt, t, mkConst(0x80, w)))
	if !in.decide(ok) {
		unsup("symbolic non-ASCII rune converted to string")
	}
}

// strIndex implements s[i].
func (in *Interp) strIndex(s Value, idx Value, it types.Type, site ssa.Instruction) Value {
	if fd, ok := s.(*FD); ok {
		if n, ok := strLenConcrete(fd); ok {
			if i, ok := idx.(Int); ok && int(i.v) < n {
				k := int(i.v)
				return symInt(fdMapInt(fd, 8, func(a string) uint64 { return uint64(a[k]) }), false)
			}
		}
		s = in.concretizeFD(fd)
	}
	bs, ok := strBytes(s)
	if !ok {
		unsup("index into string with atoms: %s", show(s))
	}
	fr := in.curFrame
	if sx, ok := idx.(Sym); ok && len(bs) > 1 && len(bs) <= 64 {
		// a small string indexed by a symbolic integer ("0123456789ABCDEF"[c>>4], lookup tables): no fork per
		// index value; the bounds check stays a proof obligation, the byte read is an if-then-else chain
		w, signed := width(it)
		var inRange *Term
		if signed {
			inRange = mkAnd(mkBin(OSLe, mkConst(0, w), sx.t), mkBin(OSLt, sx.t, mkConst(uint64(len(bs)), w)))
		} else {
			inRange = mkBin(OULt, sx.t, mkConst(uint64(len(bs)), w))
		}
		if !in.decide(inRange) {
			panic(goPanic{val: fmt.Sprintf("runtime error: index out of range [symbolic] with length %d (string)", len(bs)), where: in.where(site)})
		}
		t := bs[len(bs)-1]
		for k := len(bs) - 2; k >= 0; k-- {
			t = mkIte(mkEq(sx.t, mkConst(uint64(k), w)), bs[k], t)
		}
		return symInt(t, false)
	}
	i := fr.concreteIndex(idx, it, len(bs), site, "string")
	return symInt(bs[i], false)
}

// ---- maps ----

func (in *Interp) mapFind(m *MapObj, k Value) *MapEntry {
	for _, e := range m.entries {
		t := in.eqTerm(e.k, k, m.kt)
		if in.decide(t) {
			return e
		}
	}
	return nil
}

func (in *Interp) mapGet(m *MapObj, k Value) (Value, bool) {
	if e := in.mapFind(m, k); e != nil {
		return e.v, true
	}
	return nil, false
}

func (in *Interp) mapSet(m *MapObj, k, v Value) {
	if e := in.mapFind(m, k); e != nil {
		e.v = copyVal(v)
		return
	}
	m.entries = append(m.entries, &MapEntry{k, copyVal(v)})
}

func (in *Interp) mapDel(m *MapObj, k Value) {
	if m == nil {
		return
	}
	for i, e := range m.entries {
		if in.decide(in.eqTerm(e.k, k, m.kt)) {
			m.entries = append(m.entries[:i:i], m.entries[i+1:]...)
			return
		}
	}
}

// ---- builtins ----

func (fr *frame) builtin(b *ssa.Builtin, call *ssa.Call, args []Value) Value {
	in := fr.in
	switch b.Name() {
	case "len":
		switch x := args[0].(type) {
		case string:
			return Int{uint64(len(x))}
		case *SStr:
			n, ok := strLenConcrete(x)
			if !ok {
				unsup("len of string with atoms: %s", x.debug())
			}
			return Int{uint64(n)}
		case *FD:
			return symInt(fdMapInt(x, 64, func(a string) uint64 { return uint64(len(a)) }), true)
		case Slice:
			return Int{uint64(x.len)}
		case *MapObj:
			if x == nil {
				return Int{0}
			}
			return Int{uint64(len(x.entries))}
		case *Array:
			return Int{uint64(len(x.e))}
		case Pointer:
			if x.isNil() {
				return Int{uint64(call.Call.Args[0].Type().Underlying().(*types.Pointer).Elem().Underlying().(*types.Array).Len())}
			}
			return Int{uint64(len((*x.slot()).(*Array).e))}
		case Opaque:
			return Int{0}
		}
	case "cap":
		switch x := args[0].(type) {
		case Slice:
			return Int{uint64(x.cap)}
		case *Array:
			return Int{uint64(len(x.e))}
		case Pointer:
			return Int{uint64(len((*x.slot()).(*Array).e))}
		}
	case "append":
		s := args[0].(Slice)
		var add []Value
		a1 := args[1]
		if fd, ok := a1.(*FD); ok {
			a1 = in.concretizeFD(fd)
		}
		switch t := a1.(type) {
		case Slice:
			add = sliceVals(t)
		default:
			if isStrVal(t) {
				bs, ok := strBytes(t)
				if !ok {
					unsup("append of string with atoms")
				}
				for _, b := range bs {
					add = append(add, symInt(b, false))
				}
			}
		}
		if len(add) == 0 {
			return s
		}
		et := call.Type().Underlying().(*types.Slice).Elem()
		if s.len+len(add) <= s.cap {
			if in.watchShared > 0 && s.arr.obj != nil && s.arr.obj.id <= in.sharedLimit {
				in.noteSharedWrite(call.Type(), fr) // append within the capacity writes the shared backing array
			}
			for i, v := range add {
				s.at(s.len + i).store(v)
			}
			s.len += len(add)
			return s
		}
		nc := 2*s.cap + len(add)
		ns := in.makeSlice(et, s.len+len(add), nc)
		for i := 0; i < s.len; i++ {
			ns.at(i).store(s.at(i).load())
		}
		for i, v := range add {
			ns.at(s.len + i).store(v)
		}
		return ns
	case "copy":
		d := args[0].(Slice)
		if in.watchShared > 0 && d.len > 0 && d.arr.obj != nil && d.arr.obj.id <= in.sharedLimit {
			in.noteSharedWrite(call.Call.Args[0].Type(), fr)
		}
		n := 0
		a1 := args[1]
		if fd, ok := a1.(*FD); ok {
			a1 = in.concretizeFD(fd)
		}
		switch s := a1.(type) {
		case Slice:
			n = min(d.len, s.len)
			tmp := make([]Value, n)
			for i := 0; i < n; i++ {
				tmp[i] = s.at(i).load()
			}
			for i := 0; i < n; i++ {
				d.at(i).store(tmp[i])
			}
		default:
			bs, ok := strBytes(s)
			if !ok {
				unsup("copy from string with atoms")
			}
			n = min(d.len, len(bs))
			for i := 0; i < n; i++ {
				d.at(i).store(symInt(bs[i], false))
			}
		}
		return Int{uint64(n)}
	case "delete":
		m, _ := args[0].(*MapObj)
		if in.watchShared > 0 && m != nil && m.id <= in.sharedLimit {
			in.noteSharedWrite(call.Call.Args[0].Type(), fr)
		}
		in.mapDel(m, args[1])
		return nil
	case "clear":
		switch x := args[0].(type) {
		case *MapObj:
			if x != nil {
				x.entries = nil
			}
		case Slice:
			et := call.Call.Args[0].Type().Underlying().(*types.Slice).Elem()
			for i := 0; i < x.len; i++ {
				x.at(i).store(zero(et))
			}
		}
		return nil
	case "recover":
		// recover() is effective only when called directly by a deferred function while its caller panics
		c := fr.caller
		if c != nil && c.panicking {
			c.panicking = false
			gp := c.panicVal.(goPanic)
			return in.panicValueToIface(gp)
		}
		return Iface{}
	case "print", "println":
		return nil
	case "min", "max":
		r := args[0]
		for _, a := range args[1:] {
			lt := in.decideVal(in.binop(token.LSS, call.Type(), a, r, call.Type(), call))
			if (b.Name() == "min") == lt {
				r = a
			}
		}
		return r
	case "ssa:wrapnilchk":
		if p, ok := args[0].(Pointer); ok && p.isNil() {
			panic(goPanic{val: "value method called using nil pointer", where: in.where(call)})
		}
		return args[0]
	case "String": // unsafe.String(ptr, len)
		p := args[0].(Pointer)
		n := in.concreteInt(args[1], "unsafe.String len")
		if n == 0 {
			return ""
		}
		if p.isNil() || len(p.path) == 0 {
			unsup("unsafe.String on a pointer that is not an array element")
		}
		base := Pointer{obj: p.obj, path: p.path[:len(p.path)-1]}
		start := p.path[len(p.path)-1]
		arr := (*base.slot()).(*Array)
		bs := make([]*Term, n)
		for i := 0; i < n; i++ {
			bs[i] = toTerm(arr.e[start+i], 8)
		}
		return strFromBytes(bs)
	case "SliceData":
		s := args[0].(Slice)
		if s.isNil || s.cap == 0 {
			return Pointer{}
		}
		return s.at(0)
	case "StringData":
		unsup("unsafe.StringData")
	case "Slice": // unsafe.Slice(ptr, len)
		p := args[0].(Pointer)
		n := in.concreteInt(args[1], "unsafe.Slice len")
		if p.isNil() || len(p.path) == 0 {
			if n == 0 {
				return Slice{isNil: true}
			}
			unsup("unsafe.Slice on a pointer that is not an array element")
		}
		base := Pointer{obj: p.obj, path: p.path[:len(p.path)-1]}
		start := p.path[len(p.path)-1]
		total := len((*base.slot()).(*Array).e)
		return Slice{arr: base, off: start, len: n, cap: total - start}
	case "real":
		return real(args[0].(complex128))
	case "imag":
		return imag(args[0].(complex128))
	case "complex":
		return complex(args[0].(float64), args[1].(float64))
	case "panic":
		panic(goPanic{val: args[0], where: in.where(call)})
	}
	_ = math.Pi
	panic("builtin " + b.Name())
}

func (in *Interp) panicValueToIface(gp goPanic) Value {
	switch v := gp.val.(type) {
	case Iface:
		return v
	case string:
		// runtime error → an error value
		return in.mkErrVal(v, nil)
	}
	return Iface{t: types.Typ[types.String], v: fmt.Sprint(gp.val)}
}
