package main

import (
	"path/filepath"
	"encoding/json"
	"flag"
	"fmt"
	"os"
	"runtime"
	"sort"
	"strings"
)

func main() {
	if len(os.Args) < 2 {
		fmt.Fprintln(os.Stderr, "usage: gosym run|check ...")
		os.Exit(2)
	}
	switch os.Args[1] {
	case "run":
		cmdRun(os.Args[2:])
	case "check":
		os.Exit(cmdCheck(os.Args[2:]))
	default:
		fmt.Fprintln(os.Stderr, "unknown subcommand", os.Args[1])
		os.Exit(2)
	}
}

func baseFlags(fs *flag.FlagSet, cfg *Config) {
	fs.StringVar(&cfg.Repo, "repo", "/repo", "repository root")
	fs.StringVar(&cfg.HarnessDir, "harness", "/verif/harness", "harness directory")
	fs.StringVar(&cfg.Tier, "tier", "quick", "quick|thorough")
	fs.Int64Var(&cfg.Seed, "seed", 0, "seed")
	fs.StringVar(&cfg.Solver, "solver", os.Getenv("VERIF_SOLVER"), "z3|z3-new|cvc5")
	fs.IntVar(&cfg.TimeoutMs, "timeout-ms", 10000, "per-query solver timeout")
	fs.IntVar(&cfg.MaxSteps, "max-steps", 3_000_000, "per-path SSA instruction budget")
	fs.IntVar(&cfg.MaxBack, "max-back", 20000, "per-frame loop back-edge budget")
	fs.IntVar(&cfg.Workers, "workers", runtime.NumCPU(), "parallel workers")
	fs.IntVar(&cfg.MaxPaths, "max-paths", 0, "path budget per harness (0 = none)")
	fs.IntVar(&cfg.Samples, "samples", 5, "sampled paths for witness replay")
	fs.StringVar(&cfg.Logic, "logic", "", "SMT logic (default QF_BV; QF_FPBV for harnesses with symbolic floats)")
	fs.BoolVar(&cfg.Trace, "trace", false, "trace SSA instructions")
	fs.BoolVar(&cfg.Verbose, "v", false, "verbose")
}

// cmdRun: developer entry point — explore named harness functions and print a summary.
func cmdRun(args []string) {
	fs := flag.NewFlagSet("run", flag.ExitOnError)
	var cfg Config
	baseFlags(fs, &cfg)
	pkgName := fs.String("pkg", "yqlib", "yqlib|cmd")
	params := fs.String("params", "", "k=v,k=v harness parameters")
	prop := fs.String("prop", "", "take source rewrites from this property's checks.json entry")
	fs.Parse(args)
	cfg.Params = parseParams(*params)
	if *prop != "" {
		var specs map[string]*PropertySpec
		if err := loadJSON(filepath.Join(filepath.Dir(cfg.HarnessDir), "checks.json"), &specs); err == nil && specs[*prop] != nil {
			cfg.Rewrites = specs[*prop].Rewrites
		}
	}
	e, _, err := loadEngine(cfg)
	if err != nil {
		fmt.Fprintln(os.Stderr, "load:", err)
		os.Exit(2)
	}
	fmt.Printf("loaded+built SSA in %v\n", e.loadTime)
	if err := e.runInit(*pkgName == "cmd"); err != nil {
		fmt.Fprintln(os.Stderr, err)
		os.Exit(2)
	}
	fmt.Printf("init: %d steps, %d globals\n", e.initSteps, len(e.snapGlobals))
	pkg := e.yq
	if *pkgName == "cmd" {
		pkg = e.cmd
	}
	for _, h := range fs.Args() {
		st, err := e.explore(h, pkg)
		if err != nil {
			fmt.Fprintln(os.Stderr, err)
			os.Exit(2)
		}
		fmt.Printf("%s: paths=%d infeasible=%d panics=%d failedAssert=%d unsupported=%d unwind=%d unknown=%d faults=%d forks=%d steps=%d wall=%.2fs\n",
			h, st.Paths, st.Infeasible, st.Panics, st.Failed, st.Unsupported, st.Unwind, st.Unknown, st.Faults, st.Forks, st.Steps, st.Wall)
		var ks []string
		for k := range st.Covers {
			ks = append(ks, k)
		}
		sort.Strings(ks)
		for _, k := range ks {
			fmt.Printf("  cover %-40s %d\n", k, st.Covers[k])
		}
		for m, n := range st.Messages {
			fmt.Printf("  msg x%d: %s\n", n, m)
		}
		seen := map[string]int{}
		for _, f := range st.failures {
			seen[f.Kind+" "+f.Label]++
			if seen[f.Kind+" "+f.Label] == 1 {
				fmt.Printf("  FAILURE %s %s %s\n    trace=%s\n", f.Kind, f.Label, f.Msg, traceString(f.Trace))
				for _, ev := range f.Events {
					fmt.Printf("    %s\n", ev)
				}
			}
		}
		for k, n := range seen {
			fmt.Printf("  failure-count %s: %d\n", k, n)
		}
		for _, s := range st.samples {
			fmt.Printf("  sample trace=%s\n", traceString(s.Trace))
			for _, ev := range s.Events {
				fmt.Printf("    %s\n", ev)
			}
		}
	}
	fmt.Printf("solver: %d queries (%d sat, %d unsat, %d unknown, %d errors) %.2fs\n", solverTotals.Queries, solverTotals.Sat, solverTotals.Unsat, solverTotals.Unknown, solverTotals.Errors, solverTotals.Time.Seconds())
}

func traceString(tr []TraceEntry) string {
	var parts []string
	for _, e := range tr {
		switch v := e.Val.(type) {
		case []int:
			b := make([]byte, len(v))
			for i, c := range v {
				b[i] = byte(c)
			}
			parts = append(parts, fmt.Sprintf("%s=%q", e.Name, string(b)))
		case json.RawMessage:
			var xs []int
			if json.Unmarshal(v, &xs) == nil && len(v) > 0 && v[0] == '[' {
				b := make([]byte, len(xs))
				for i, c := range xs {
					b[i] = byte(c)
				}
				parts = append(parts, fmt.Sprintf("%s=%q", e.Name, string(b)))
			} else {
				parts = append(parts, fmt.Sprintf("%s=%s", e.Name, string(v)))
			}
		default:
			parts = append(parts, fmt.Sprintf("%s=%v", e.Name, v))
		}
	}
	return strings.Join(parts, " ")
}

func parseParams(s string) map[string]int {
	out := map[string]int{}
	for _, kv := range strings.Split(s, ",") {
		if kv == "" {
			continue
		}
		var k string
		var v int
		if i := strings.IndexByte(kv, '='); i > 0 {
			k = kv[:i]
			fmt.Sscanf(kv[i+1:], "%d", &v)
			out[k] = v
		}
	}
	return out
}

