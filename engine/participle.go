package main

import (
	"go/token"
	"go/types"
	"regexp"
	"unicode"
	"unicode/utf8"

	"golang.org/x/tools/go/ssa"
)

type tokenT = token.Token

// Model of participle's "simple" stateful lexer (v2.1.4 lexer/stateful.go, single Root state):
// at each position the rules are tried in order and the first whose pattern `^(?:p)` matches wins
// (no longest-match); rules whose name starts with a lower-case letter are elided. The rule
// patterns come from the interpreted program (yqlib's participleYqRules), so edits to them are seen.

type plexRule struct {
	name   string
	re     *regexp.Regexp
	ignore bool
	typ    int64
}

type plexDef struct{ rules []plexRule }

type plexState struct {
	def  *plexDef
	data string
	off  int
	line int
	col  int
}

func participleIntrinsic(in *Interp, fn *ssa.Function, args []Value, caller *frame, site ssa.Instruction) (Value, bool) {
	lexPkg := in.eng.prog.ImportedPackage("github.com/alecthomas/participle/v2/lexer")
	switch fn.Name() {
	case "MustSimple", "NewSimple":
		rules := args[0].(Slice)
		def := &plexDef{}
		for i := 0; i < rules.len; i++ {
			st := (*rules.at(i).slot()).(*Struct)
			name, pat := st.f[0].(string), st.f[1].(string)
			re, err := regexp.Compile("^(?:" + pat + ")")
			if err != nil {
				panic(goPanic{val: "lexer: " + err.Error(), where: in.where(site)})
			}
			r, _ := utf8.DecodeRuneInString(name)
			def.rules = append(def.rules, plexRule{name: name, re: re, ignore: len(name) > 0 && unicode.IsLower(r), typ: -int64(i + 2)})
		}
		dt := lexPkg.Type("StatefulDefinition").Type()
		o := in.newObject(dt, &Native{def})
		if fn.Name() == "MustSimple" {
			return Pointer{obj: o}, true
		}
		return Tuple{Pointer{obj: o}, Iface{}}, true
	case "Symbols":
		def := args[0].(Pointer).obj.val.(*Native).v.(*plexDef)
		in.nextID++
		m := &MapObj{id: in.nextID, kt: types.Typ[types.String]}
		m.entries = append(m.entries, &MapEntry{k: "EOF", v: Int{^uint64(0)}})
		for _, r := range def.rules {
			m.entries = append(m.entries, &MapEntry{k: r.name, v: Int{uint64(r.typ)}})
		}
		return m, true
	case "LexString":
		def := args[0].(Pointer).obj.val.(*Native).v.(*plexDef)
		s, ok := args[2].(string)
		if !ok {
			unsup("lexing a symbolic expression string")
		}
		lt := lexPkg.Type("StatefulLexer").Type()
		o := in.newObject(lt, &Native{&plexState{def: def, data: s, line: 1, col: 1}})
		return Tuple{Iface{t: types.NewPointer(lt), v: Pointer{obj: o}}, Iface{}}, true
	case "Next":
		st := args[0].(Pointer).obj.val.(*Native).v.(*plexState)
		tokT := lexPkg.Type("Token").Type()
		mkTok := func(typ int64, val string, off, line, col int) Value {
			tok := zero(tokT).(*Struct)
			tok.f[structFieldIndex(tokT, "Type")] = normW(32, true, uint64(typ))
			tok.f[structFieldIndex(tokT, "Value")] = val
			pos := tok.f[structFieldIndex(tokT, "Pos")].(*Struct)
			posT := tokT.Underlying().(*types.Struct).Field(structFieldIndex(tokT, "Pos")).Type()
			pos.f[structFieldIndex(posT, "Offset")] = Int{uint64(off)}
			pos.f[structFieldIndex(posT, "Line")] = Int{uint64(line)}
			pos.f[structFieldIndex(posT, "Column")] = Int{uint64(col)}
			return tok
		}
		for len(st.data) > 0 {
			var rule *plexRule
			var m []int
			for i := range st.def.rules {
				if mm := st.def.rules[i].re.FindStringSubmatchIndex(st.data); mm != nil {
					rule, m = &st.def.rules[i], mm
					break
				}
			}
			if rule == nil {
				sample := []rune(st.data)
				if len(sample) > 16 {
					sample = append(sample[:16], []rune("...")...)
				}
				return Tuple{zero(tokT), in.mkErrVal("lexer: invalid input text \""+string(sample)+"\"", nil)}, true
			}
			if m[0] == m[1] {
				return Tuple{zero(tokT), in.mkErrVal("lexer: rule \""+rule.name+"\" did not match any input", nil)}, true
			}
			span := st.data[m[0]:m[1]]
			off, line, col := st.off, st.line, st.col
			st.data = st.data[m[1]:]
			st.off += len(span)
			for _, r := range span {
				if r == '\n' {
					st.line++
					st.col = 1
				} else {
					st.col++
				}
			}
			if rule.ignore {
				continue
			}
			return Tuple{mkTok(rule.typ, span, off, line, col), Iface{}}, true
		}
		return Tuple{mkTok(-1, "", st.off, st.line, st.col), Iface{}}, true
	}
	return nil, false
}
