package main

import (
	"fmt"
	"go/constant"
	"go/token"
	"go/types"
	"os"
	"strings"

	"golang.org/x/tools/go/ssa"
)

type fnInfo struct {
	idx       map[ssa.Value]int
	n         int
	intrinsic intrinsicFn
	resolved  bool
	bodyOK    bool
	name      string
	pkg       string
	steps     int
}

type Interp struct {
	eng      *Engine
	globals  map[*ssa.Global]*Object
	nextID   int
	steps    int
	maxSteps int
	maxBack  int
	fninfo   map[*ssa.Function]*fnInfo
	ps       *PathState
	solver   *Solver
	trace    bool
	inited   map[*ssa.Package]bool
	natives  map[string]*Object // native singletons
	curFrame *frame
	// watchShared > 0: stores into objects that existed before the harness started (package-level state and what it
	// reaches: allocated during package initialisation) are recorded as findings (verifShared)
	watchShared  int
	sharedLimit  int // objects with an id up to this one existed when verifShared was entered
	sharedSeen   map[string]bool
}

type deferred struct {
	fn   Value
	args []Value
}

type frame struct {
	in        *Interp
	fn        *ssa.Function
	info      *fnInfo
	env       []Value
	block     *ssa.BasicBlock
	prev      *ssa.BasicBlock
	defers    []deferred
	result    Value
	depth     int
	caller    *frame
	panicking bool
	panicVal  Value
	backEdges int
	site      ssa.Instruction
}

// goPanic is a Go-level panic of the interpreted program.
type goPanic struct {
	val   Value
	where string
}

// pathEnd aborts the current path (engine-level).
type pathEnd struct {
	status string // infeasible | unsupported | unwind | unknown | fault
	msg    string
}

func (in *Interp) info(fn *ssa.Function) *fnInfo {
	if fi, ok := in.fninfo[fn]; ok {
		return fi
	}
	fi := &fnInfo{idx: map[ssa.Value]int{}, name: fn.String(), pkg: pkgOf(fn)}
	add := func(v ssa.Value) {
		fi.idx[v] = fi.n
		fi.n++
	}
	for _, p := range fn.Params {
		add(p)
	}
	for _, fv := range fn.FreeVars {
		add(fv)
	}
	for _, b := range fn.Blocks {
		for _, ins := range b.Instrs {
			if v, ok := ins.(ssa.Value); ok {
				add(v)
			}
		}
	}
	if fn.Recover != nil {
		for _, ins := range fn.Recover.Instrs {
			if v, ok := ins.(ssa.Value); ok {
				if _, dup := fi.idx[v]; !dup {
					add(v)
				}
			}
		}
	}
	in.fninfo[fn] = fi
	return fi
}

func pkgOf(fn *ssa.Function) string {
	if fn.Pkg != nil {
		return fn.Pkg.Pkg.Path()
	}
	if o := fn.Origin(); o != nil && o.Pkg != nil {
		return o.Pkg.Pkg.Path()
	}
	if fn.Signature.Recv() != nil {
		t := fn.Signature.Recv().Type()
		if p, ok := t.(*types.Pointer); ok {
			t = p.Elem()
		}
		if n, ok := t.(*types.Named); ok && n.Obj().Pkg() != nil {
			return n.Obj().Pkg().Path()
		}
	}
	if fn.Parent() != nil {
		return pkgOf(fn.Parent())
	}
	return ""
}

func (in *Interp) global(g *ssa.Global) *Object {
	if o, ok := in.globals[g]; ok {
		return o
	}
	t := g.Type().(*types.Pointer).Elem()
	o := in.newObject(t, zero(t))
	if g.Pkg != nil && !in.eng.interpPkg(g.Pkg.Pkg.Path()) {
		// foreign (native-only) package: pointer-typed globals point at an opaque zero object
		if pt, ok := t.Underlying().(*types.Pointer); ok {
			if _, isStruct := pt.Elem().Underlying().(*types.Struct); isStruct {
				o.val = Pointer{obj: in.newObject(pt.Elem(), zero(pt.Elem()))}
			}
		}
		if _, ok := t.Underlying().(*types.Interface); ok {
			// e.g. io.EOF style sentinel errors in native-only packages: distinct opaque error values
			if types.Implements(t, errIface) || types.Identical(t.Underlying(), errIface) {
				o.val = in.mkErrVal(g.Pkg.Pkg.Path()+"."+g.Name(), nil)
			}
		}
	}
	in.globals[g] = o
	return o
}

func width(t types.Type) (bits int, signed bool) {
	b, ok := t.Underlying().(*types.Basic)
	if !ok {
		panic("width of " + t.String())
	}
	switch b.Kind() {
	case types.Int8:
		return 8, true
	case types.Int16:
		return 16, true
	case types.Int32, types.UntypedRune:
		return 32, true
	case types.Int64, types.Int, types.UntypedInt:
		return 64, true
	case types.Uint8:
		return 8, false
	case types.Uint16:
		return 16, false
	case types.Uint32:
		return 32, false
	case types.Uint64, types.Uint, types.Uintptr:
		return 64, false
	}
	panic("width kind " + b.String())
}

func norm(t types.Type, u uint64) Int {
	bits, signed := width(t)
	return normW(bits, signed, u)
}

func normW(bits int, signed bool, u uint64) Int {
	if bits == 64 {
		return Int{u}
	}
	m := uint64(1)<<uint(bits) - 1
	u &= m
	if signed && u&(1<<uint(bits-1)) != 0 {
		u |= ^m
	}
	return Int{u}
}

func basicInfo(t types.Type) types.BasicInfo {
	if b, ok := t.Underlying().(*types.Basic); ok {
		return b.Info()
	}
	return 0
}
func isInt(t types.Type) bool     { return basicInfo(t)&types.IsInteger != 0 }
func isFloat(t types.Type) bool   { return basicInfo(t)&types.IsFloat != 0 }
func isString(t types.Type) bool  { return basicInfo(t)&types.IsString != 0 }
func isBool(t types.Type) bool    { return basicInfo(t)&types.IsBoolean != 0 }
func isComplex(t types.Type) bool { return basicInfo(t)&types.IsComplex != 0 }

func constVal(c *ssa.Const) Value {
	t := c.Type()
	if c.Value == nil {
		return zero(t)
	}
	switch {
	case isBool(t):
		return constant.BoolVal(c.Value)
	case isInt(t):
		if i, ok := constant.Int64Val(constant.ToInt(c.Value)); ok {
			return norm(t, uint64(i))
		}
		u, _ := constant.Uint64Val(constant.ToInt(c.Value))
		return norm(t, u)
	case isFloat(t):
		f, _ := constant.Float64Val(c.Value)
		if t.Underlying().(*types.Basic).Kind() == types.Float32 {
			return float64(float32(f))
		}
		return f
	case isString(t):
		if c.Value.Kind() == constant.String {
			return constant.StringVal(c.Value)
		}
		i, _ := constant.Int64Val(c.Value)
		return string(rune(i))
	case isComplex(t):
		re, _ := constant.Float64Val(constant.Real(c.Value))
		im, _ := constant.Float64Val(constant.Imag(c.Value))
		return complex(re, im)
	}
	// generic const of type parameter etc.
	panic("const " + c.String())
}

func (fr *frame) get(v ssa.Value) Value {
	switch x := v.(type) {
	case *ssa.Const:
		return constVal(x)
	case *ssa.Global:
		return Pointer{obj: fr.in.global(x)}
	case *ssa.Function:
		return &Closure{fn: x}
	case *ssa.Builtin:
		return x
	}
	i, ok := fr.info.idx[v]
	if !ok {
		panic(fmt.Sprintf("no slot for %s (%T) in %s", v.Name(), v, fr.fn))
	}
	return fr.env[i]
}

func (fr *frame) set(v ssa.Value, val Value) { fr.env[fr.info.idx[v]] = val }

func (in *Interp) call(fnv Value, args []Value, caller *frame, site ssa.Instruction) Value {
	switch f := fnv.(type) {
	case *Closure:
		if f == nil {
			panic(goPanic{val: "invalid memory address or nil pointer dereference (nil func call)", where: in.where(site)})
		}
		return in.callFn(f.fn, args, f.bind, caller, site)
	case *NativeFn:
		return f.f(in, args)
	}
	panic(fmt.Sprintf("call of %T", fnv))
}

func (in *Interp) where(site ssa.Instruction) string {
	if site == nil {
		return "?"
	}
	pos := in.eng.prog.Fset.Position(site.Pos())
	fn := ""
	if site.Parent() != nil {
		fn = site.Parent().String()
	}
	if !pos.IsValid() {
		return fn
	}
	return fmt.Sprintf("%s %s:%d", fn, shortFile(pos.Filename), pos.Line)
}

func shortFile(f string) string {
	if i := strings.Index(f, "/pkg/mod/"); i >= 0 {
		return f[i+9:]
	}
	return strings.TrimPrefix(f, "/repo/")
}

func (in *Interp) callFn(fn *ssa.Function, args []Value, bind []Value, caller *frame, site ssa.Instruction) (result Value) {
	fi := in.info(fn)
	if fn.Name() == "init" && fn.Pkg != nil && fn.Signature.Recv() == nil && fn.Parent() == nil && fn.Synthetic != "" {
		if !in.eng.interpPkg(fn.Pkg.Pkg.Path()) {
			return nil
		}
	}
	if !fi.resolved {
		fi.resolved = true
		fi.intrinsic = in.eng.resolveIntrinsic(fn, fi)
		fi.bodyOK = in.eng.interpSet[fi.pkg] || in.eng.bodyOKSet[fi.pkg] || fi.pkg == ""
	}
	if fi.intrinsic != nil {
		if r, ok := fi.intrinsic(in, fn, args, caller, site); ok {
			return r
		}
	}
	if len(fn.Blocks) == 0 {
		unsup("external function without intrinsic: %s", fi.name)
	}
	if !fi.bodyOK {
		unsup("function of a package outside the interpreted set: %s", fi.name)
	}
	depth := 0
	if caller != nil {
		depth = caller.depth + 1
	}
	if depth > 1500 {
		panic(pathEnd{"unwind", "call depth > 1500 in " + fi.name})
	}
	fr := &frame{in: in, fn: fn, info: fi, env: make([]Value, fi.n), depth: depth, caller: caller, site: site}
	for i := range fn.Params {
		fr.env[i] = args[i]
	}
	np := len(fn.Params)
	for i := range fn.FreeVars {
		fr.env[np+i] = bind[i]
	}
	fr.block = fn.Blocks[0]
	prevFrame := in.curFrame
	in.curFrame = fr
	fr.run()
	in.curFrame = prevFrame
	return fr.result
}

// run executes blocks until return; Go-level panics run the deferred calls and may be recovered.
func (fr *frame) run() {
	defer func() {
		if fr.block == nil {
			return // normal return
		}
		r := recover()
		gp, ok := r.(goPanic)
		if !ok {
			panic(r) // engine-level abort: propagate untouched
		}
		fr.panicking = true
		fr.panicVal = gp
		fr.runDefers()
		if fr.panicking {
			panic(gp)
		}
		// recovered
		fr.block = fr.fn.Recover
		if fr.block == nil {
			fr.result = zeroResult(fr.fn)
			return
		}
		for fr.block != nil {
			fr.runBlock()
		}
	}()
	for fr.block != nil {
		fr.runBlock()
	}
}

func zeroResult(fn *ssa.Function) Value {
	res := fn.Signature.Results()
	switch res.Len() {
	case 0:
		return nil
	case 1:
		return zero(res.At(0).Type())
	}
	return zero(res)
}

func (fr *frame) runDefers() {
	for len(fr.defers) > 0 {
		d := fr.defers[len(fr.defers)-1]
		fr.defers = fr.defers[:len(fr.defers)-1]
		fr.in.call(d.fn, d.args, fr, nil)
	}
}

func (fr *frame) runBlock() {
	b := fr.block
	in := fr.in
	// φ-nodes of a block read their operands simultaneously (a φ may name another φ of the same block, e.g.
	// `px, nextPx = nextPx, px` around a loop): evaluate all of them against the old environment first
	nphi := 0
	for nphi < len(b.Instrs) {
		if _, ok := b.Instrs[nphi].(*ssa.Phi); !ok {
			break
		}
		nphi++
	}
	if nphi > 1 {
		vals := make([]Value, nphi)
		for i := 0; i < nphi; i++ {
			vals[i] = fr.evalInstr(b.Instrs[i].(*ssa.Phi), b.Instrs[i])
		}
		for i := 0; i < nphi; i++ {
			fr.env[fr.info.idx[b.Instrs[i].(*ssa.Phi)]] = vals[i]
		}
		in.steps += nphi
		fr.info.steps += nphi
	} else {
		nphi = 0
	}
	for _, ins := range b.Instrs[nphi:] {
		in.steps++
		fr.info.steps++
		if in.steps > in.maxSteps {
			panic(pathEnd{"unwind", fmt.Sprintf("instruction budget %d exhausted in %s", in.maxSteps, fr.info.name)})
		}
		if in.trace {
			fmt.Fprintf(os.Stderr, "%s%s: %s\n", strings.Repeat(" ", fr.depth%60), fr.fn.Name(), ins)
		}
		switch x := ins.(type) {
		case *ssa.Jump:
			fr.jump(b, b.Succs[0])
			return
		case *ssa.If:
			c := in.decideVal(fr.get(x.Cond))
			if c {
				fr.jump(b, b.Succs[0])
			} else {
				fr.jump(b, b.Succs[1])
			}
			return
		case *ssa.Return:
			switch len(x.Results) {
			case 0:
				fr.result = nil
			case 1:
				fr.result = fr.get(x.Results[0])
			default:
				t := make(Tuple, len(x.Results))
				for i, r := range x.Results {
					t[i] = fr.get(r)
				}
				fr.result = t
			}
			fr.block = nil
			return
		case *ssa.Panic:
			panic(goPanic{val: fr.get(x.X), where: in.where(ins)})
		case *ssa.RunDefers:
			fr.runDefers()
		case *ssa.Defer:
			fnv, args := fr.prepareCall(&x.Call, ins)
			fr.defers = append(fr.defers, deferred{fn: fnv, args: args})
		case *ssa.Store:
			p := fr.get(x.Addr).(Pointer)
			if p.isNil() {
				panic(goPanic{val: "invalid memory address or nil pointer dereference (store)", where: in.where(ins)})
			}
			if in.watchShared > 0 && p.obj.id <= in.sharedLimit {
				in.noteSharedWrite(p.obj.typ, fr)
			}
			p.store(fr.get(x.Val))
		case *ssa.MapUpdate:
			m := fr.get(x.Map).(*MapObj)
			if m == nil {
				panic(goPanic{val: "assignment to entry in nil map", where: in.where(ins)})
			}
			if in.watchShared > 0 && m.id <= in.sharedLimit {
				in.noteSharedWrite(x.Map.Type(), fr)
			}
			in.mapSet(m, fr.get(x.Key), fr.get(x.Value))
		case *ssa.DebugRef:
		case *ssa.Go, *ssa.Send, *ssa.Select:
			unsup("concurrency instruction %T in %s", ins, fr.info.name)
		case ssa.Value:
			fr.env[fr.info.idx[x]] = fr.evalInstr(x, ins)
		default:
			panic(fmt.Sprintf("instr %T", ins))
		}
	}
	panic("block fell through")
}

func (fr *frame) jump(from, to *ssa.BasicBlock) {
	if to.Index <= from.Index {
		fr.backEdges++
		if fr.backEdges > fr.in.maxBack {
			panic(pathEnd{"unwind", fmt.Sprintf("loop unwinding bound %d exceeded in %s", fr.in.maxBack, fr.info.name)})
		}
	}
	fr.prev, fr.block = from, to
}

func (fr *frame) prepareCall(c *ssa.CallCommon, site ssa.Instruction) (Value, []Value) {
	var args []Value
	if c.IsInvoke() {
		recv := fr.get(c.Value).(Iface)
		if recv.t == nil {
			if fr.in.eng.inInit && c.Method.Pkg() != nil && c.Method.Pkg().Path() == "reflect" {
				// package-level `var t = reflect.TypeOf(x).Elem()` of an interpreted library: reflect calls are no-ops
				// during package initialisation (the reflection-based paths that read these stay unsupported)
				return &NativeFn{f: func(in *Interp, _ []Value) Value { return zero(c.Signature().Results()) }}, nil
			}
			panic(goPanic{val: "invalid memory address or nil pointer dereference (nil interface method call " + c.Method.Name() + ")", where: fr.in.where(site)})
		}
		m := fr.in.eng.lookupMethod(recv.t, c.Method)
		if m == nil {
			panic(fmt.Sprintf("no method %s on %v", c.Method.Name(), recv.t))
		}
		args = append(args, recv.v)
		for _, a := range c.Args {
			args = append(args, fr.get(a))
		}
		return &Closure{fn: m}, args
	}
	fnv := fr.get(c.Value)
	for _, a := range c.Args {
		args = append(args, fr.get(a))
	}
	return fnv, args
}

func (fr *frame) intOf(v ssa.Value) Value { return fr.get(v) }

// concreteIndex turns an index value into a concrete int within [0,n) (forking over feasible values when
// symbolic) or raises the Go index panic on the out-of-range branch.
func (fr *frame) concreteIndex(v Value, t types.Type, n int, site ssa.Instruction, what string) int {
	in := fr.in
	switch x := v.(type) {
	case Int:
		idx := int(int64(x.v))
		if _, signed := width(t); !signed && x.v > uint64(1<<62) {
			idx = -1
		}
		if idx < 0 || idx >= n {
			panic(goPanic{val: fmt.Sprintf("runtime error: index out of range [%d] with length %d", idx, n), where: in.where(site)})
		}
		return idx
	case Sym:
		fr.requireInRange(x, t, n, site, what)
		return in.concretize(x.t, 0, n-1)
	}
	panic(fmt.Sprintf("index of %T", v))
}

// requireInRange: the bounds check of an index expression with a symbolic index (forks; the failing side panics).
func (fr *frame) requireInRange(x Sym, t types.Type, n int, site ssa.Instruction, what string) {
	in := fr.in
	w, signed := width(t)
	var inRange *Term
	switch {
	case w < 64 && uint64(n) > mask(w)>>b2u(signed):
		// the index type cannot exceed the length
		if signed {
			inRange = mkBin(OSLe, mkConst(0, w), x.t)
		} else {
			inRange = tTrue
		}
	case signed:
		inRange = mkAnd(mkBin(OSLe, mkConst(0, w), x.t), mkBin(OSLt, x.t, mkConst(uint64(n), w)))
	default:
		inRange = mkBin(OULt, x.t, mkConst(uint64(n), w))
	}
	if !in.decide(inRange) {
		panic(goPanic{val: fmt.Sprintf("runtime error: index out of range [symbolic] with length %d (%s)", n, what), where: in.where(site)})
	}
}

// tableLoad is what &table[i] evaluates to when i is symbolic, the table holds scalars only and the address is used
// for nothing but loads: the loaded value as one term (a chain of if-then-else over the index) instead of one path
// per index value. Table-driven code (base64 alphabets, character classes) stays one path.
type tableLoad struct{ v Value }

func onlyLoaded(x *ssa.IndexAddr) bool {
	refs := x.Referrers()
	if refs == nil || len(*refs) == 0 {
		return false
	}
	pending := map[ssa.Instruction]bool{}
	for _, r := range *refs {
		u, ok := r.(*ssa.UnOp)
		if !ok || u.Op != token.MUL || u.Block() != x.Block() {
			return false
		}
		pending[u] = true
	}
	// the value is read when the address is taken: nothing between the two may write memory
	started := false
	for _, ins := range x.Block().Instrs {
		if ins == ssa.Instruction(x) {
			started = true
			continue
		}
		if !started {
			continue
		}
		if pending[ins] {
			delete(pending, ins)
			if len(pending) == 0 {
				return true
			}
			continue
		}
		switch ins.(type) {
		case *ssa.Store, *ssa.Call, *ssa.MapUpdate, *ssa.Go, *ssa.Defer, *ssa.Send, *ssa.Select, *ssa.RunDefers:
			return false
		}
	}
	return false
}

func (fr *frame) tableSelect(x *ssa.IndexAddr, base Pointer, off, n int, idx Sym, ins ssa.Instruction, what string) (Value, bool) {
	if n < 2 || n > 256 || !onlyLoaded(x) {
		return nil, false
	}
	et := x.Type().(*types.Pointer).Elem()
	if b, ok := et.Underlying().(*types.Basic); !ok || b.Info()&types.IsInteger == 0 {
		return nil, false
	}
	ew, _ := width(et)
	elems := make([]*Term, n)
	for i := 0; i < n; i++ {
		switch e := base.sub(off + i).load().(type) {
		case Int:
			elems[i] = mkConst(e.v, ew)
		case Sym:
			elems[i] = e.t
		default:
			return nil, false
		}
	}
	fr.requireInRange(idx, x.Index.Type(), n, ins, what)
	iw, _ := width(x.Index.Type())
	acc := elems[n-1]
	def := acc
	for i := n - 2; i >= 0; i-- {
		if elems[i].isConst() && def.isConst() && elems[i].c == def.c {
			continue // the default already yields this value
		}
		acc = mkIte(mkEq(idx.t, mkConst(uint64(i), iw)), elems[i], acc)
	}
	if acc.isConst() {
		return Int{acc.c}, true
	}
	return Sym{acc}, true
}

func (fr *frame) evalInstr(v ssa.Value, ins ssa.Instruction) Value {
	in := fr.in
	switch x := v.(type) {
	case *ssa.Alloc:
		t := x.Type().(*types.Pointer).Elem()
		return Pointer{obj: in.newObject(t, zero(t))}
	case *ssa.Phi:
		for i, p := range fr.block.Preds {
			if p == fr.prev {
				return fr.get(x.Edges[i])
			}
		}
		panic("phi: no pred")
	case *ssa.Call:
		if b, ok := x.Call.Value.(*ssa.Builtin); ok && !x.Call.IsInvoke() {
			args := make([]Value, len(x.Call.Args))
			for i, a := range x.Call.Args {
				args[i] = fr.get(a)
			}
			return fr.builtin(b, x, args)
		}
		fnv, args := fr.prepareCall(&x.Call, ins)
		return in.call(fnv, args, fr, ins)
	case *ssa.BinOp:
		return in.binop(x.Op, x.X.Type(), fr.get(x.X), fr.get(x.Y), x.Y.Type(), ins)
	case *ssa.UnOp:
		return fr.unop(x)
	case *ssa.FieldAddr:
		p := fr.get(x.X).(Pointer)
		if p.isNil() {
			panic(goPanic{val: "invalid memory address or nil pointer dereference (field access)", where: in.where(ins)})
		}
		return p.sub(x.Field)
	case *ssa.Field:
		return copyVal(fr.get(x.X).(*Struct).f[x.Field])
	case *ssa.IndexAddr:
		switch c := fr.get(x.X).(type) {
		case Slice:
			if sym, ok := fr.get(x.Index).(Sym); ok && !c.isNil {
				if v, ok := fr.tableSelect(x, c.arr, c.off, c.len, sym, ins, "slice"); ok {
					return tableLoad{v}
				}
			}
			idx := fr.concreteIndex(fr.get(x.Index), x.Index.Type(), c.len, ins, "slice")
			return c.at(idx)
		case Pointer:
			if c.isNil() {
				panic(goPanic{val: "invalid memory address or nil pointer dereference (array index)", where: in.where(ins)})
			}
			n := len((*c.slot()).(*Array).e)
			if sym, ok := fr.get(x.Index).(Sym); ok {
				if v, ok := fr.tableSelect(x, c, 0, n, sym, ins, "array"); ok {
					return tableLoad{v}
				}
			}
			idx := fr.concreteIndex(fr.get(x.Index), x.Index.Type(), n, ins, "array")
			return c.sub(idx)
		}
		panic("indexaddr")
	case *ssa.Index:
		switch c := fr.get(x.X).(type) {
		case *Array:
			idx := fr.concreteIndex(fr.get(x.Index), x.Index.Type(), len(c.e), ins, "array")
			return copyVal(c.e[idx])
		default:
			if isStrVal(c) {
				return in.strIndex(c, fr.get(x.Index), x.Index.Type(), ins)
			}
		}
		panic(fmt.Sprintf("index on %T", fr.get(x.X)))
	case *ssa.Slice:
		return fr.slice(x, ins)
	case *ssa.MakeSlice:
		n := in.concreteInt(fr.get(x.Len), "make len")
		c := in.concreteInt(fr.get(x.Cap), "make cap")
		if n < 0 || c < n {
			panic(goPanic{val: "runtime error: makeslice: len out of range", where: in.where(ins)})
		}
		et := x.Type().Underlying().(*types.Slice).Elem()
		return in.makeSlice(et, n, c)
	case *ssa.MakeMap:
		in.nextID++
		return &MapObj{id: in.nextID, kt: x.Type().Underlying().(*types.Map).Key()}
	case *ssa.MakeClosure:
		bind := make([]Value, len(x.Bindings))
		for i, b := range x.Bindings {
			bind[i] = fr.get(b)
		}
		return &Closure{fn: x.Fn.(*ssa.Function), bind: bind}
	case *ssa.MakeInterface:
		return Iface{t: x.X.Type(), v: fr.get(x.X)}
	case *ssa.ChangeInterface:
		return fr.get(x.X)
	case *ssa.ChangeType:
		return fr.get(x.X)
	case *ssa.Convert:
		return in.convert(x.X.Type(), x.Type(), fr.get(x.X), ins)
	case *ssa.MultiConvert:
		return in.convert(x.X.Type(), x.Type(), fr.get(x.X), ins)
	case *ssa.Extract:
		return fr.get(x.Tuple).(Tuple)[x.Index]
	case *ssa.TypeAssert:
		return fr.typeAssert(x, ins)
	case *ssa.Lookup:
		c := fr.get(x.X)
		if isStrVal(c) {
			return in.strIndex(c, fr.get(x.Index), x.Index.Type(), ins)
		}
		m := c.(*MapObj)
		var val Value
		ok := false
		if m != nil {
			val, ok = in.mapGet(m, fr.get(x.Index))
		}
		if !ok {
			val = zero(x.X.Type().Underlying().(*types.Map).Elem())
		}
		if x.CommaOk {
			return Tuple{copyVal(val), ok}
		}
		return copyVal(val)
	case *ssa.Range:
		c := fr.get(x.X)
		if isStrVal(c) {
			return in.newStrIter(c)
		}
		m := c.(*MapObj)
		it := &rangeIter{isMap: true}
		if m != nil {
			it.entries = append(it.entries, m.entries...)
			it.m = m
		}
		return it
	case *ssa.Next:
		return in.iterNext(fr.get(x.Iter).(*rangeIter), x.IsString)
	case *ssa.SliceToArrayPointer:
		s := fr.get(x.X).(Slice)
		n := int(x.Type().(*types.Pointer).Elem().Underlying().(*types.Array).Len())
		if s.len < n {
			panic(goPanic{val: "runtime error: cannot convert slice to array pointer", where: in.where(ins)})
		}
		if s.off != 0 {
			unsup("slice-to-array-pointer at non-zero offset")
		}
		return s.arr
	case *ssa.MakeChan:
		return Opaque{"chan"}
	}
	unsup("unsupported SSA instruction %T: %s", v, ins)
	return nil
}

type rangeIter struct {
	bytes   []*Term
	pos     int
	isMap   bool
	entries []*MapEntry
	m       *MapObj
}

func (in *Interp) newStrIter(s Value) *rangeIter {
	if fd, ok := s.(*FD); ok {
		s = in.concretizeFD(fd)
	}
	bs, ok := strBytes(s)
	if !ok {
		unsup("range over string with atoms: %s", show(s))
	}
	return &rangeIter{bytes: bs}
}

func (in *Interp) iterNext(it *rangeIter, isString bool) Value {
	if isString {
		if it.pos >= len(it.bytes) {
			return Tuple{false, Int{0}, Int{0}}
		}
		p := it.pos
		b := it.bytes[p]
		if b.isConst() {
			// decode a full (possibly multi-byte) rune if all its bytes are concrete
			if b.c < 0x80 {
				it.pos++
				return Tuple{true, Int{uint64(p)}, Int{b.c}}
			}
			var raw []byte
			for q := p; q < len(it.bytes) && q < p+4 && it.bytes[q].isConst(); q++ {
				raw = append(raw, byte(it.bytes[q].c))
			}
			r, n := decodeRune(raw)
			it.pos += n
			return Tuple{true, Int{uint64(p)}, Int{uint64(int64(r))}}
		}
		in.requireASCII(b)
		it.pos++
		return Tuple{true, Int{uint64(p)}, Sym{mkZExt(b, 32)}}
	}
	for it.pos < len(it.entries) {
		e := it.entries[it.pos]
		it.pos++
		// skip entries deleted during iteration
		live := false
		for _, c := range it.m.entries {
			if c == e {
				live = true
				break
			}
		}
		if live {
			return Tuple{true, e.k, copyVal(e.v)}
		}
	}
	return Tuple{false, nil, nil}
}

// requireASCII forks: symbolic bytes >= 0x80 in rune context are outside the engine's string model.
func (in *Interp) requireASCII(b *Term) {
	if !in.decide(mkBin(OULt, b, mkConst(0x80, 8))) {
		unsup("symbolic non-ASCII byte in rune context")
	}
}

func (fr *frame) slice(x *ssa.Slice, ins ssa.Instruction) Value {
	in := fr.in
	geti := func(v ssa.Value, def int) int {
		if v == nil {
			return def
		}
		return in.concreteIntBounded(fr.get(v), v.Type(), -1, 1<<20, "slice bound")
	}
	c := fr.get(x.X)
	if fd, ok := c.(*FD); ok {
		c = in.concretizeFD(fd)
	}
	if isStrVal(c) {
		n, ok := strLenConcrete(c)
		if !ok {
			// allow s[k:] style on ropes with atoms only when bounds cover everything
			unsup("slice of string of unknown length %s", show(c))
		}
		lo, hi := geti(x.Low, 0), geti(x.High, n)
		if lo < 0 || hi > n || lo > hi {
			panic(goPanic{val: fmt.Sprintf("runtime error: slice bounds out of range [%d:%d] with length %d", lo, hi, n), where: in.where(ins)})
		}
		return strSlice(c, lo, hi)
	}
	switch c := c.(type) {
	case Slice:
		lo, hi, mx := geti(x.Low, 0), geti(x.High, c.len), geti(x.Max, c.cap)
		if lo < 0 || hi > c.cap || lo > hi || mx > c.cap || hi > mx {
			panic(goPanic{val: fmt.Sprintf("runtime error: slice bounds out of range [%d:%d:%d] with capacity %d", lo, hi, mx, c.cap), where: in.where(ins)})
		}
		if c.isNil && lo == 0 && hi == 0 {
			return c
		}
		return Slice{arr: c.arr, off: c.off + lo, len: hi - lo, cap: mx - lo}
	case Pointer: // *array
		if c.isNil() {
			panic(goPanic{val: "nil pointer dereference (slice of nil array pointer)", where: in.where(ins)})
		}
		n := len((*c.slot()).(*Array).e)
		lo, hi, mx := geti(x.Low, 0), geti(x.High, n), geti(x.Max, n)
		if lo < 0 || hi > n || lo > hi || mx > n {
			panic(goPanic{val: "runtime error: slice bounds out of range (array)", where: in.where(ins)})
		}
		return Slice{arr: c, off: lo, len: hi - lo, cap: mx - lo}
	}
	panic(fmt.Sprintf("slice of %T", c))
}

func (fr *frame) unop(x *ssa.UnOp) Value {
	v := fr.get(x.X)
	switch x.Op {
	case token.MUL:
		if tl, ok := v.(tableLoad); ok {
			return copyVal(tl.v)
		}
		p := v.(Pointer)
		if p.isNil() {
			panic(goPanic{val: "invalid memory address or nil pointer dereference (load)", where: fr.in.where(x)})
		}
		return p.load()
	case token.NOT:
		switch b := v.(type) {
		case bool:
			return !b
		case Sym:
			return symBool(mkNot(b.t))
		}
	case token.SUB:
		switch n := v.(type) {
		case Int:
			return norm(x.Type(), -n.v)
		case float64:
			return -n
		case SymF:
			return symFloat(mkFPNeg(n.t))
		case Sym:
			w, _ := width(x.Type())
			return Sym{mkBin(OSub, mkConst(0, w), n.t)}
		}
	case token.XOR:
		switch n := v.(type) {
		case Int:
			return norm(x.Type(), ^n.v)
		case Sym:
			w, _ := width(x.Type())
			return Sym{mkBin(OBXor, n.t, mkConst(^uint64(0), w))}
		}
	case token.ARROW:
		unsup("channel receive")
	}
	panic(fmt.Sprintf("unop %s on %T", x.Op, v))
}

func symBool(t *Term) Value {
	if t.isConst() {
		return t.c != 0
	}
	return Sym{t}
}

func symInt(t *Term, signed bool) Value {
	if t.isConst() {
		return normW(t.w, signed, t.c)
	}
	return Sym{t}
}

func (fr *frame) typeAssert(x *ssa.TypeAssert, ins ssa.Instruction) Value {
	i := fr.get(x.X).(Iface)
	ok := false
	var res Value
	if it, isIface := x.AssertedType.Underlying().(*types.Interface); isIface {
		if i.t != nil {
			ok = types.Implements(i.t, it)
		}
		res = i
		if !ok {
			res = Iface{}
		}
	} else {
		ok = i.t != nil && types.Identical(i.t, x.AssertedType)
		if ok {
			res = i.v
		} else {
			res = zero(x.AssertedType)
		}
	}
	if x.CommaOk {
		return Tuple{res, ok}
	}
	if !ok {
		panic(goPanic{val: fmt.Sprintf("interface conversion: interface is %v, not %v", typeStr(i.t), x.AssertedType), where: fr.in.where(ins)})
	}
	return res
}

func typeStr(t types.Type) string {
	if t == nil {
		return "nil"
	}
	return t.String()
}

// noteSharedWrite records a store into state that is shared between evaluations (it existed before the harness
// ran). Two evaluations running concurrently would both perform it: a data race.
func (in *Interp) noteSharedWrite(t types.Type, fr *frame) {
	label := "C18/write-to-state-shared-between-evaluations " + typeStr(t) + " in " + fr.info.name
	if in.sharedSeen == nil {
		in.sharedSeen = map[string]bool{}
	}
	if in.sharedSeen[label] {
		return
	}
	in.sharedSeen[label] = true
	m := in.finalModel()
	if m == nil {
		in.noteIncomplete("unknown", "no model for a shared-write finding")
		return
	}
	in.recordFailure("race", label, "", m)
}
