module verif/engine

go 1.23.0

require (
	golang.org/x/text v0.23.0
	golang.org/x/tools v0.29.0
	gopkg.in/yaml.v3 v3.0.1
)

require (
	golang.org/x/mod v0.22.0 // indirect
	golang.org/x/sync v0.12.0 // indirect
)

// x/text v0.23.0 lists x/sync v0.12.0 for its own tooling; that version is not in the offline module cache and
// nothing linked here uses it
replace golang.org/x/sync v0.12.0 => golang.org/x/sync v0.10.0
