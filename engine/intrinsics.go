package main

import (
	"math/bits"
	textnorm "golang.org/x/text/unicode/norm"
	"encoding/base64"
	"fmt"
	"go/types"
	"html"
	"math"
	"net/url"
	"path/filepath"
	"reflect"
	"regexp"
	"strconv"
	"strings"
	"unicode"
	"unicode/utf8"

	"golang.org/x/tools/go/ssa"
)

type intrinsicFn func(in *Interp, fn *ssa.Function, args []Value, caller *frame, site ssa.Instruction) (Value, bool)

var errIface = types.Universe.Lookup("error").Type().Underlying().(*types.Interface)

// natives: pure library functions executed natively when every argument is concrete.
var natives = map[string]any{
	"strings.HasPrefix": strings.HasPrefix, "strings.HasSuffix": strings.HasSuffix,
	"strings.Contains": strings.Contains, "strings.ReplaceAll": strings.ReplaceAll,
	"strings.Replace": strings.Replace, "strings.Repeat": strings.Repeat,
	"strings.ToUpper": strings.ToUpper, "strings.ToLower": strings.ToLower,
	"strings.TrimSpace": strings.TrimSpace, "strings.Compare": strings.Compare,
	"strings.Index": strings.Index, "strings.Split": strings.Split, "strings.Join": strings.Join,
	"strings.ContainsRune": strings.ContainsRune, "strings.EqualFold": strings.EqualFold,
	"strings.TrimSuffix": strings.TrimSuffix, "strings.TrimPrefix": strings.TrimPrefix,
	"strings.TrimRight": strings.TrimRight, "strings.TrimLeft": strings.TrimLeft, "strings.Trim": strings.Trim,
	"strings.Fields": strings.Fields, "strings.LastIndex": strings.LastIndex, "strings.IndexByte": strings.IndexByte,
	"strings.Count": strings.Count, "strings.SplitN": strings.SplitN, "strings.IndexRune": strings.IndexRune,
	"strings.IndexAny": strings.IndexAny, "strings.ContainsAny": strings.ContainsAny, "strings.Title": strings.Title,
	"strings.CutPrefix": strings.CutPrefix, "strings.Cut": strings.Cut, "strings.CutSuffix": strings.CutSuffix,
	"strings.LastIndexByte": strings.LastIndexByte, "strings.ToValidUTF8": strings.ToValidUTF8,
	"strconv.ParseInt": strconv.ParseInt, "strconv.ParseFloat": strconv.ParseFloat, "strconv.ParseUint": strconv.ParseUint,
	"strconv.Itoa": strconv.Itoa, "strconv.FormatInt": strconv.FormatInt, "strconv.Atoi": strconv.Atoi,
	"strconv.Quote": strconv.Quote, "strconv.ParseBool": strconv.ParseBool, "strconv.FormatFloat": strconv.FormatFloat,
	"strconv.Unquote": strconv.Unquote, "strconv.FormatBool": strconv.FormatBool, "strconv.FormatUint": strconv.FormatUint,
	"strconv.QuoteToASCII": strconv.QuoteToASCII, "strconv.AppendInt": strconv.AppendInt,
	"unicode.IsSpace": unicode.IsSpace, "unicode.IsLetter": unicode.IsLetter, "unicode.IsDigit": unicode.IsDigit,
	"unicode.IsUpper": unicode.IsUpper, "unicode.IsLower": unicode.IsLower, "unicode.ToUpper": unicode.ToUpper,
	"unicode.ToLower": unicode.ToLower, "unicode.IsPrint": unicode.IsPrint, "unicode.IsGraphic": unicode.IsGraphic,
	"unicode.IsControl": unicode.IsControl, "unicode.IsPunct": unicode.IsPunct, "unicode.IsNumber": unicode.IsNumber,
	"unicode.IsSymbol": unicode.IsSymbol, "unicode.IsMark": unicode.IsMark, "unicode.IsTitle": unicode.IsTitle, "unicode.ToTitle": unicode.ToTitle,
	"unicode/utf8.RuneLen": utf8.RuneLen, "unicode/utf8.RuneCountInString": utf8.RuneCountInString,
	"unicode/utf8.ValidString": utf8.ValidString, "unicode/utf8.RuneCount": utf8.RuneCount, "unicode/utf8.Valid": utf8.Valid,
	"unicode/utf8.ValidRune": utf8.ValidRune, "unicode/utf8.DecodeRuneInString": utf8.DecodeRuneInString,
	"unicode/utf8.DecodeLastRuneInString": utf8.DecodeLastRuneInString, "unicode/utf8.DecodeRune": utf8.DecodeRune,
	"unicode/utf8.AppendRune": utf8.AppendRune, "unicode/utf8.FullRune": utf8.FullRune,
	"math.Mod": math.Mod, "math.IsInf": math.IsInf, "math.IsNaN": math.IsNaN, "math.Floor": math.Floor, "math.Inf": math.Inf,
	"math.Abs": math.Abs, "math.Pow": math.Pow, "math.Trunc": math.Trunc, "math.NaN": math.NaN, "math.Ceil": math.Ceil,
	"math.Float64bits": math.Float64bits, "math.Float64frombits": math.Float64frombits, "math.Log": math.Log, "math.Sqrt": math.Sqrt,
	"math.Round": math.Round, "math.Signbit": math.Signbit, "math.Float32bits": math.Float32bits, "math.Float32frombits": math.Float32frombits,
	"path/filepath.Ext": filepath.Ext, "path/filepath.Dir": filepath.Dir, "path/filepath.Base": filepath.Base,
	"net/url.QueryEscape": url.QueryEscape, "net/url.QueryUnescape": url.QueryUnescape,
	"html.EscapeString": html.EscapeString, "html.UnescapeString": html.UnescapeString,
	"regexp.QuoteMeta": regexp.QuoteMeta, "regexp.MatchString": regexp.MatchString,
}

func allConcrete(args []Value) bool {
	for _, a := range args {
		switch x := a.(type) {
		case Sym, *SStr, *FD:
			return false
		case Slice:
			for i := 0; i < x.len; i++ {
				switch (*x.at(i).slot()).(type) {
				case Sym, *SStr, *FD:
					return false
				}
			}
		}
	}
	return true
}

func (in *Interp) toNative(v Value, t reflect.Type) reflect.Value {
	switch t.Kind() {
	case reflect.String:
		return reflect.ValueOf(v.(string)).Convert(t)
	case reflect.Bool:
		return reflect.ValueOf(v.(bool))
	case reflect.Int, reflect.Int64, reflect.Int32, reflect.Int8, reflect.Int16:
		return reflect.ValueOf(int64(v.(Int).v)).Convert(t)
	case reflect.Uint8, reflect.Uint, reflect.Uint64, reflect.Uint32, reflect.Uint16:
		return reflect.ValueOf(v.(Int).v).Convert(t)
	case reflect.Float64, reflect.Float32:
		f, ok := v.(float64)
		if !ok {
			unsup("a symbolic float reaches a native library function")
		}
		return reflect.ValueOf(f).Convert(t)
	case reflect.Slice:
		s := v.(Slice)
		out := reflect.MakeSlice(t, s.len, s.len)
		for i := 0; i < s.len; i++ {
			out.Index(i).Set(in.toNative(s.at(i).load(), t.Elem()))
		}
		if s.isNil {
			return reflect.Zero(t)
		}
		return out
	case reflect.Func:
		// callbacks (e.g. strings.Map) are not supported natively
	}
	panic(unsupported{"toNative " + t.String()})
}

func (in *Interp) fromNative(rv reflect.Value, st types.Type) Value {
	switch rv.Kind() {
	case reflect.String:
		return rv.String()
	case reflect.Bool:
		return rv.Bool()
	case reflect.Int, reflect.Int64, reflect.Int32, reflect.Int8, reflect.Int16:
		return Int{uint64(rv.Int())}
	case reflect.Uint8, reflect.Uint64, reflect.Uint, reflect.Uint32, reflect.Uint16:
		return Int{rv.Uint()}
	case reflect.Float64, reflect.Float32:
		return rv.Float()
	case reflect.Slice:
		if rv.IsNil() {
			return Slice{isNil: true}
		}
		et := st.Underlying().(*types.Slice).Elem()
		vals := make([]Value, rv.Len())
		for i := range vals {
			vals[i] = in.fromNative(rv.Index(i), et)
		}
		return in.sliceOf(et, vals)
	case reflect.Interface:
		if rv.IsNil() {
			return Iface{}
		}
		if e, ok := rv.Interface().(error); ok {
			if ne, ok := e.(*strconv.NumError); ok {
				// interpreted callers (strconv.ParseInt around a natively run ParseUint) inspect the concrete type and
				// compare Err with the package's sentinel values: rebuild the *NumError on the engine heap
				if pkg := in.eng.prog.ImportedPackage("strconv"); pkg != nil {
					var sentinel Value
					switch ne.Err {
					case strconv.ErrRange:
						sentinel = Pointer{obj: in.global(pkg.Var("ErrRange"))}.load()
					case strconv.ErrSyntax:
						sentinel = Pointer{obj: in.global(pkg.Var("ErrSyntax"))}.load()
					default:
						sentinel = in.mkErrVal(ne.Err.Error(), nil)
					}
					nt := pkg.Type("NumError").Type()
					o := in.newObject(nt, &Struct{f: []Value{ne.Func, ne.Num, sentinel}})
					return Iface{t: types.NewPointer(nt), v: Pointer{obj: o}}
				}
			}
			return in.mkErrVal(e.Error(), nil)
		}
	}
	panic(unsupported{"fromNative " + rv.Kind().String()})
}

func (in *Interp) nativeCall(rf reflect.Value, args []Value, res *types.Tuple) Value {
	rt := rf.Type()
	in_ := make([]reflect.Value, len(args))
	for i, a := range args {
		var pt reflect.Type
		if rt.IsVariadic() && i >= rt.NumIn()-1 {
			pt = rt.In(rt.NumIn() - 1)
			if i == rt.NumIn()-1 && len(args) == rt.NumIn() {
				// variadic passed as slice
				sl := in.toNative(a, pt)
				out := rf.CallSlice(append(in_[:i], sl))
				return in.nativeResults(out, res)
			}
		} else {
			pt = rt.In(i)
		}
		in_[i] = in.toNative(a, pt)
	}
	out := in.callNativeGuarded(rf, in_)
	return in.nativeResults(out, res)
}

// callNativeGuarded runs a library function natively on concrete arguments. A panic it raises (strings.Repeat with a
// negative count, a slice bound inside the library) is a panic of the program under test at this call, not a fault
// of the engine.
func (in *Interp) callNativeGuarded(rf reflect.Value, args []reflect.Value) (out []reflect.Value) {
	defer func() {
		if r := recover(); r != nil {
			if _, own := r.(goPanic); own {
				panic(r)
			}
			if _, own := r.(pathEnd); own {
				panic(r)
			}
			panic(goPanic{val: fmt.Sprint(r), where: in.whereNow()})
		}
	}()
	return rf.Call(args)
}

func (in *Interp) nativeResults(out []reflect.Value, res *types.Tuple) Value {
	switch len(out) {
	case 0:
		return nil
	case 1:
		return in.fromNative(out[0], res.At(0).Type())
	}
	t := make(Tuple, len(out))
	for i, o := range out {
		t[i] = in.fromNative(o, res.At(i).Type())
	}
	return t
}

// mkErrVal builds an error value: *errors.errorString{msg} or *fmt.wrapError{msg, wrapped}.
func (in *Interp) mkErrVal(msg Value, wrapped Value) Value {
	e := in.eng
	if w, ok := wrapped.(Iface); ok && w.t != nil {
		st := &Struct{f: []Value{msg, w}}
		o := in.newObject(e.wrapErrorT, st)
		return Iface{t: types.NewPointer(e.wrapErrorT), v: Pointer{obj: o}}
	}
	st := &Struct{f: []Value{msg}}
	o := in.newObject(e.errorStringT, st)
	return Iface{t: types.NewPointer(e.errorStringT), v: Pointer{obj: o}}
}

func (in *Interp) errorText(err Value) Value {
	i, ok := err.(Iface)
	if !ok || i.t == nil {
		return "<nil>"
	}
	m := in.hasMethod(i.t, "Error")
	if m == nil {
		return "<non-error>"
	}
	return in.callFn(m, []Value{i.v}, nil, in.curFrame, nil)
}

func (in *Interp) unwrapErr(err Iface) (Iface, bool) {
	m := in.hasMethod(err.t, "Unwrap")
	if m == nil || m.Signature.Results().Len() != 1 {
		return Iface{}, false
	}
	r := in.callFn(m, []Value{err.v}, nil, in.curFrame, nil)
	ri, ok := r.(Iface)
	if !ok || ri.t == nil {
		return Iface{}, false
	}
	return ri, true
}

func (in *Interp) errorsIs(err, target Value) bool {
	e := err.(Iface)
	tg := target.(Iface)
	for {
		if e.t == nil {
			return tg.t == nil
		}
		if tg.t != nil && types.Identical(e.t, tg.t) {
			if p, ok := e.v.(Pointer); ok {
				if q, ok := tg.v.(Pointer); ok && ptrEq(p, q) {
					return true
				}
			} else if in.decide(in.eqTerm(e.v, tg.v, e.t)) {
				return true
			}
		}
		if m := in.hasMethod(e.t, "Is"); m != nil {
			if in.decideVal(in.callFn(m, []Value{e.v, tg}, nil, in.curFrame, nil)) {
				return true
			}
		}
		n, ok := in.unwrapErr(e)
		if !ok {
			return false
		}
		e = n
	}
}

func (in *Interp) errorsAs(err, target Value) bool {
	e := err.(Iface)
	tp := target.(Iface)
	ptr := tp.v.(Pointer)
	elemT := tp.t.(*types.Pointer).Elem()
	for e.t != nil {
		if it, ok := elemT.Underlying().(*types.Interface); ok {
			if types.Implements(e.t, it) {
				ptr.store(e)
				return true
			}
		} else if types.Identical(e.t, elemT) {
			ptr.store(e.v)
			return true
		}
		n, ok := in.unwrapErr(e)
		if !ok {
			return false
		}
		e = n
	}
	return false
}

func structFieldIndex(t types.Type, name string) int {
	st := t.Underlying().(*types.Struct)
	for i := 0; i < st.NumFields(); i++ {
		if st.Field(i).Name() == name {
			return i
		}
	}
	panic("no field " + name + " in " + t.String())
}

func recvElem(fn *ssa.Function) types.Type {
	t := fn.Signature.Recv().Type()
	if p, ok := t.(*types.Pointer); ok {
		return p.Elem()
	}
	return t
}

// strings.Builder: the buf field holds an engine string value instead of a byte slice.
func builderIntrinsic(in *Interp, fn *ssa.Function, args []Value, caller *frame, site ssa.Instruction) (Value, bool) {
	p := args[0].(Pointer)
	if p.isNil() {
		panic(goPanic{val: "nil pointer dereference (strings.Builder)", where: in.where(site)})
	}
	st := (*p.slot()).(*Struct)
	bi := structFieldIndex(recvElem(fn), "buf")
	cur := st.f[bi]
	if !isStrVal(cur) {
		cur = ""
	}
	strArg := func(v Value) Value {
		if fd, ok := v.(*FD); ok {
			return in.concretizeFD(fd)
		}
		return v
	}
	switch fn.Name() {
	case "WriteString":
		s := strArg(args[1])
		st.f[bi] = strConcat(cur, s)
		n, ok := strLenConcrete(s)
		if !ok {
			n = 0
		}
		return Tuple{Int{uint64(n)}, Iface{}}, true
	case "Write":
		s := in.convert(types.NewSlice(types.Typ[types.Byte]), types.Typ[types.String], args[1], site)
		st.f[bi] = strConcat(cur, s)
		n, _ := strLenConcrete(s)
		return Tuple{Int{uint64(n)}, Iface{}}, true
	case "WriteRune":
		s := in.convert(types.Typ[types.Rune], types.Typ[types.String], args[1], site)
		st.f[bi] = strConcat(cur, s)
		n, _ := strLenConcrete(s)
		return Tuple{Int{uint64(n)}, Iface{}}, true
	case "WriteByte":
		st.f[bi] = strConcat(cur, strFromBytes([]*Term{toTerm(args[1], 8)}))
		return Iface{}, true
	case "String":
		return cur, true
	case "Len", "Cap":
		n, ok := strLenConcrete(cur)
		if !ok {
			unsup("Builder.Len with atoms")
		}
		return Int{uint64(n)}, true
	case "Grow":
		st.f[bi] = cur
		return nil, true
	case "Reset":
		st.f[bi] = ""
		return nil, true
	case "copyCheck", "grow":
		return nil, true
	}
	return nil, false
}

func noopIntrinsic(in *Interp, fn *ssa.Function, args []Value, caller *frame, site ssa.Instruction) (Value, bool) {
	return zeroResult(fn), true
}

func atomicField(in *Interp, fn *ssa.Function, p Pointer) Pointer {
	return p.sub(structFieldIndex(recvElem(fn), "v"))
}

func atomicIntrinsic(in *Interp, fn *ssa.Function, args []Value, caller *frame, site ssa.Instruction) (Value, bool) {
	if fn.Signature.Recv() != nil {
		f := atomicField(in, fn, args[0].(Pointer))
		switch fn.Name() {
		case "Load":
			return f.load(), true
		case "Store":
			f.store(args[1])
			return nil, true
		case "Swap":
			old := f.load()
			f.store(args[1])
			return old, true
		case "Add":
			ft := recvElem(fn).Underlying().(*types.Struct).Field(structFieldIndex(recvElem(fn), "v")).Type()
			nv := in.binop(tokenADD, ft, f.load(), args[1], ft, site)
			f.store(nv)
			return nv, true
		case "CompareAndSwap":
			ft := recvElem(fn).Underlying().(*types.Struct).Field(structFieldIndex(recvElem(fn), "v")).Type()
			if in.decide(in.eqTerm(f.load(), args[1], ft)) {
				f.store(args[2])
				return true, true
			}
			return false, true
		}
		return nil, false
	}
	name := fn.Name()
	p := args[0].(Pointer)
	et := fn.Signature.Params().At(0).Type().(*types.Pointer).Elem()
	switch {
	case strings.HasPrefix(name, "Load"):
		return p.load(), true
	case strings.HasPrefix(name, "Store"):
		p.store(args[1])
		return nil, true
	case strings.HasPrefix(name, "Add"):
		nv := in.binop(tokenADD, et, p.load(), args[1], et, site)
		p.store(nv)
		return nv, true
	case strings.HasPrefix(name, "CompareAndSwap"):
		if in.decide(in.eqTerm(p.load(), args[1], et)) {
			p.store(args[2])
			return true, true
		}
		return false, true
	case strings.HasPrefix(name, "Swap"):
		old := p.load()
		p.store(args[1])
		return old, true
	}
	return nil, false
}

func (e *Engine) resolveIntrinsic(fn *ssa.Function, fi *fnInfo) intrinsicFn {
	name := fi.name
	if r, ok := e.replacements[name]; ok {
		return func(in *Interp, _ *ssa.Function, args []Value, caller *frame, site ssa.Instruction) (Value, bool) {
			return in.callFn(r, args, nil, caller, site), true
		}
	}
	pkg := fi.pkg
	if (pkg == e.yqPath || pkg == e.cmdPath) && strings.HasPrefix(fn.Name(), "verif") && len(fn.Blocks) == 0 {
		return verifIntrinsic
	}
	if f, ok := intrinsicTable[name]; ok {
		return f
	}
	switch pkg {
	case "gopkg.in/op/go-logging.v1":
		return loggingIntrinsic
	case "github.com/spf13/cobra", "github.com/spf13/pflag":
		// cobra is not interpreted: its functions are no-ops returning zero values (only reached from cmd's
		// package initialisation; harnesses do not go through cobra)
		return noopIntrinsic
	case "sync/atomic":
		return atomicIntrinsic
	case "sync":
		switch fn.Name() {
		case "Lock", "Unlock", "RLock", "RUnlock", "TryLock":
			return noopIntrinsic
		}
		if strings.Contains(name, "sync.Pool") {
			return poolIntrinsic
		}
	case "strings":
		if fn.Signature.Recv() != nil && strings.Contains(fn.Signature.Recv().Type().String(), "strings.Builder") {
			return builderIntrinsic
		}
	case "regexp":
		return regexpIntrinsic
	case "github.com/alecthomas/participle/v2/lexer":
		return participleIntrinsic
	case "internal/bytealg":
		return bytealgIntrinsic
	case "fmt":
		return fmtIntrinsic
	case "unicode":
		if fn.Signature.Recv() == nil {
			if nf, ok := natives[name]; ok {
				return unicodeIntrinsic(nf, fn.Name())
			}
		}
	case "os":
		if f := osIntrinsic(fn); f != nil {
			return f
		}
	case "time":
		if f, ok := intrinsicTable[name]; ok {
			return f
		}
		fallthrough
	case "math/rand", "reflect", "internal/reflectlite", "runtime", "syscall", "internal/poll", "net":
		if pkg == "runtime" && (fn.Name() == "KeepAlive" || fn.Name() == "SetFinalizer" || fn.Name() == "GC") {
			return noopIntrinsic
		}
		return func(in *Interp, fn *ssa.Function, args []Value, caller *frame, site ssa.Instruction) (Value, bool) {
			if pkg == "time" && in.eng.inInit && fn.Name() == "Now" && fn.Signature.Recv() == nil {
				// package-level `var started = time.Now()` of an interpreted library (gopher-lua's os library): the value
				// is only read by code the harnesses do not reach
				return zero(fn.Signature.Results().At(0).Type()), true
			}
			if pkg == "reflect" && in.eng.inInit {
				// package-level `var t = reflect.TypeFor[T]()` of interpreted libraries (encoding/xml): the value is only
				// used by the reflection-based Marshal/Unmarshal paths, which stay unsupported when reached
				return noopIntrinsic(in, fn, args, caller, site)
			}
			unsup("call into native-only package: %s", name)
			return nil, false
		}
	}
	if nf, ok := natives[name]; ok && fn.Signature.Recv() == nil {
		rf := reflect.ValueOf(nf)
		hasBody := len(fn.Blocks) > 0 && e.interpPkg(pkg)
		return func(in *Interp, fn *ssa.Function, args []Value, caller *frame, site ssa.Instruction) (Value, bool) {
			if allConcrete(args) {
				return in.nativeCall(rf, args, fn.Signature.Results()), true
			}
			if r, ok := in.symbolicLib(name, fn, args, site); ok {
				return r, true
			}
			if hasBody {
				return nil, false // interpret the real SSA on symbolic data
			}
			unsup("native-only function %s called with symbolic arguments", name)
			return nil, false
		}
	}
	// library functions that have a symbolic model but no native entry
	if symbolicLibNames[name] {
		return func(in *Interp, fn *ssa.Function, args []Value, caller *frame, site ssa.Instruction) (Value, bool) {
			if allConcrete(args) {
				return nil, false
			}
			return in.symbolicLib(name, fn, args, site)
		}
	}
	return nil
}

var tokenADD = tokenOf("+")

func loggingIntrinsic(in *Interp, fn *ssa.Function, args []Value, caller *frame, site ssa.Instruction) (Value, bool) {
	switch fn.Name() {
	case "MustGetLogger", "GetLogger":
		lt := fn.Signature.Results().At(0).Type().(*types.Pointer).Elem()
		o, ok := in.natives["logger"]
		if !ok {
			o = in.newObject(lt, zero(lt))
			in.natives["logger"] = o
		}
		if fn.Name() == "GetLogger" {
			return Tuple{Pointer{obj: o}, Iface{}}, true
		}
		return Pointer{obj: o}, true
	case "IsEnabledFor":
		return false, true
	}
	return zeroResult(fn), true
}

func poolIntrinsic(in *Interp, fn *ssa.Function, args []Value, caller *frame, site ssa.Instruction) (Value, bool) {
	switch fn.Name() {
	case "Get":
		p := args[0].(Pointer)
		nf := p.sub(structFieldIndex(recvElem(fn), "New")).load()
		if c, ok := nf.(*Closure); ok && c != nil {
			return in.call(c, nil, caller, site), true
		}
		return Iface{}, true
	case "Put":
		return nil, true
	}
	return nil, false
}

// ---- fmt ----

func ifaceArgs(s Slice) []Value { return sliceVals(s) }

func fmtIntrinsic(in *Interp, fn *ssa.Function, args []Value, caller *frame, site ssa.Instruction) (Value, bool) {
	if fn.Signature.Recv() != nil {
		return nil, false
	}
	fmtStr := func(v Value) string {
		s, ok := v.(string)
		if !ok {
			unsup("symbolic format string")
		}
		return s
	}
	switch fn.Name() {
	case "Sprintf":
		return in.sprintf(fmtStr(args[0]), ifaceArgs(args[1].(Slice))), true
	case "Errorf":
		as := ifaceArgs(args[1].(Slice))
		f := fmtStr(args[0])
		msg := in.sprintf(f, as)
		var wrapped Value
		if strings.Contains(f, "%w") {
			for _, a := range as {
				if ia, ok := a.(Iface); ok && ia.t != nil && types.Implements(ia.t, errIface) {
					wrapped = a
				}
			}
		}
		return in.mkErrVal(msg, wrapped), true
	case "Sprint":
		return in.sprint(ifaceArgs(args[0].(Slice)), false, false), true
	case "Sprintln":
		return in.sprint(ifaceArgs(args[0].(Slice)), true, true), true
	case "Fprintf", "Fprint", "Fprintln":
		var s Value
		switch fn.Name() {
		case "Fprintf":
			s = in.sprintf(fmtStr(args[1]), ifaceArgs(args[2].(Slice)))
		case "Fprint":
			s = in.sprint(ifaceArgs(args[1].(Slice)), false, false)
		default:
			s = in.sprint(ifaceArgs(args[1].(Slice)), true, true)
		}
		w := args[0].(Iface)
		if w.t == nil {
			panic(goPanic{val: "nil pointer dereference (Fprintf to nil writer)", where: in.where(site)})
		}
		bs := in.convert(types.Typ[types.String], types.NewSlice(types.Typ[types.Byte]), s, site)
		m := in.hasMethod(w.t, "Write")
		return in.callFn(m, []Value{w.v, bs}, nil, caller, site), true
	case "Printf", "Print", "Println":
		return Tuple{Int{0}, Iface{}}, true
	}
	unsup("fmt.%s", fn.Name())
	return nil, false
}

// ---- regexp ----

func regexpObj(in *Interp, v Value) *regexp.Regexp {
	p := v.(Pointer)
	if p.isNil() {
		panic(goPanic{val: "nil pointer dereference (*regexp.Regexp)"})
	}
	n, ok := p.obj.val.(*Native)
	if !ok {
		unsup("regexp object not created through regexp.Compile")
	}
	return n.v.(*regexp.Regexp)
}

func regexpIntrinsic(in *Interp, fn *ssa.Function, args []Value, caller *frame, site ssa.Instruction) (Value, bool) {
	if fn.Signature.Recv() == nil {
		switch fn.Name() {
		case "MustCompile", "Compile":
			pat, ok := args[0].(string)
			if !ok {
				unsup("regexp.Compile of symbolic pattern")
			}
			re, err := regexp.Compile(pat)
			rt := in.eng.prog.ImportedPackage("regexp").Type("Regexp").Type()
			if err != nil {
				if fn.Name() == "MustCompile" {
					panic(goPanic{val: "regexp: Compile(" + strconv.Quote(pat) + "): " + err.Error(), where: in.where(site)})
				}
				return Tuple{Pointer{}, in.mkErrVal(err.Error(), nil)}, true
			}
			o := in.newObject(rt, &Native{re})
			if fn.Name() == "MustCompile" {
				return Pointer{obj: o}, true
			}
			return Tuple{Pointer{obj: o}, Iface{}}, true
		case "QuoteMeta", "MatchString":
			if allConcrete(args) {
				return in.nativeCall(reflect.ValueOf(natives["regexp."+fn.Name()]), args, fn.Signature.Results()), true
			}
		}
		unsup("regexp.%s", fn.Name())
	}
	re := regexpObj(in, args[0])
	if !allConcrete(args[1:]) {
		if fn.Name() == "MatchString" {
			return in.regexMatchSym(re, args[1]), true
		}
		unsup("(*regexp.Regexp).%s on symbolic input", fn.Name())
	}
	m := reflect.ValueOf(re).MethodByName(fn.Name())
	if !m.IsValid() {
		unsup("(*regexp.Regexp).%s", fn.Name())
	}
	return in.nativeCall(m, args[1:], fn.Signature.Results()), true
}

// ---- unicode on symbolic (ASCII) runes ----

func unicodeIntrinsic(nf any, name string) intrinsicFn {
	rf := reflect.ValueOf(nf)
	return func(in *Interp, fn *ssa.Function, args []Value, caller *frame, site ssa.Instruction) (Value, bool) {
		if allConcrete(args) {
			return in.nativeCall(rf, args, fn.Signature.Results()), true
		}
		r := args[0].(Sym).t
		in.assumeASCIIRune(r)
		// evaluate the predicate on all 128 ASCII code points and build a membership term
		if fn.Signature.Results().At(0).Type().Underlying().(*types.Basic).Kind() == types.Bool {
			var ors []*Term
			for c := 0; c < 128; c++ {
				out := rf.Call([]reflect.Value{reflect.ValueOf(rune(c))})
				if out[0].Bool() {
					ors = append(ors, mkEq(r, mkConst(uint64(c), r.w)))
				}
			}
			return symBool(rangesTerm(r, func(c int) bool {
				return rf.Call([]reflect.Value{reflect.ValueOf(rune(c))})[0].Bool()
			})), true
		}
		// rune -> rune mapping (ToUpper/ToLower/ToTitle)
		res := r
		for c := 127; c >= 0; c-- {
			out := rune(rf.Call([]reflect.Value{reflect.ValueOf(rune(c))})[0].Int())
			if out != rune(c) {
				res = mkIte(mkEq(r, mkConst(uint64(c), r.w)), mkConst(uint64(out), r.w), res)
			}
		}
		return symInt(res, true), true
	}
}

// rangesTerm builds a compact membership term over [0,128) from a predicate.
func rangesTerm(r *Term, pred func(int) bool) *Term {
	var ors []*Term
	c := 0
	for c < 128 {
		if !pred(c) {
			c++
			continue
		}
		lo := c
		for c < 128 && pred(c) {
			c++
		}
		hi := c - 1
		if lo == hi {
			ors = append(ors, mkEq(r, mkConst(uint64(lo), r.w)))
		} else {
			ors = append(ors, mkAnd(mkBin(OULe, mkConst(uint64(lo), r.w), r), mkBin(OULe, r, mkConst(uint64(hi), r.w))))
		}
	}
	return mkOr(ors...)
}

// ---- internal/bytealg leaves (assembly in the real runtime) ----

func bytesOfArg(in *Interp, v Value) []*Term {
	switch x := v.(type) {
	case Slice:
		out := make([]*Term, x.len)
		for i := range out {
			out[i] = toTerm(*x.at(i).slot(), 8)
		}
		return out
	case *FD:
		v = in.concretizeFD(x)
	}
	bs, ok := strBytes(v)
	if !ok {
		unsup("byte-level operation on string with atoms: %s", show(v))
	}
	return bs
}

func bytealgIntrinsic(in *Interp, fn *ssa.Function, args []Value, caller *frame, site ssa.Instruction) (Value, bool) {
	switch fn.Name() {
	case "IndexByteString", "IndexByte":
		bs := bytesOfArg(in, args[0])
		c := toTerm(args[1], 8)
		for i, b := range bs {
			if in.decide(mkEq(b, c)) {
				return Int{uint64(i)}, true
			}
		}
		return Int{^uint64(0)}, true
	case "LastIndexByteString", "LastIndexByte":
		bs := bytesOfArg(in, args[0])
		c := toTerm(args[1], 8)
		for i := len(bs) - 1; i >= 0; i-- {
			if in.decide(mkEq(bs[i], c)) {
				return Int{uint64(i)}, true
			}
		}
		return Int{^uint64(0)}, true
	case "CountString", "Count":
		bs := bytesOfArg(in, args[0])
		c := toTerm(args[1], 8)
		n := mkConst(0, 64)
		for _, b := range bs {
			n = mkBin(OAdd, n, mkIte(mkEq(b, c), mkConst(1, 64), mkConst(0, 64)))
		}
		return symInt(n, true), true
	case "Equal":
		a, b := bytesOfArg(in, args[0]), bytesOfArg(in, args[1])
		if len(a) != len(b) {
			return false, true
		}
		conj := []*Term{}
		for i := range a {
			conj = append(conj, mkEq(a[i], b[i]))
		}
		return symBool(mkAnd(conj...)), true
	case "Compare":
		a, b := bytesOfArg(in, args[0]), bytesOfArg(in, args[1])
		sa, sb := strFromBytes(a), strFromBytes(b)
		lt, gt := strLess(sa, sb), strLess(sb, sa)
		return symInt(mkIte(lt, mkConst(^uint64(0), 64), mkIte(gt, mkConst(1, 64), mkConst(0, 64))), true), true
	case "IndexString", "Index":
		a, b := bytesOfArg(in, args[0]), bytesOfArg(in, args[1])
		return Int{uint64(int64(in.indexBytes(a, b)))}, true
	case "Cutover":
		return Int{4}, true
	case "MakeNoZero":
		n := in.concreteInt(args[0], "MakeNoZero")
		return in.makeSlice(types.Typ[types.Byte], n, n), true
	}
	unsup("internal/bytealg.%s", fn.Name())
	return nil, false
}

// indexBytes finds the first occurrence of b in a, forking per candidate position.
func (in *Interp) indexBytes(a, b []*Term) int {
	if len(b) == 0 {
		return 0
	}
	for i := 0; i+len(b) <= len(a); i++ {
		conj := make([]*Term, len(b))
		for j := range b {
			conj[j] = mkEq(a[i+j], b[j])
		}
		if in.decide(mkAnd(conj...)) {
			return i
		}
	}
	return -1
}

// ---- symbolic models of frequently used string library functions ----

var symbolicLibNames = map[string]bool{}

func init() {
	for _, n := range []string{"strings.Clone", "strings.Map", "slices.Contains[[]string,string]"} {
		symbolicLibNames[n] = true
	}
}

func strArgVal(in *Interp, v Value) Value {
	if fd, ok := v.(*FD); ok {
		return in.concretizeFD(fd)
	}
	return v
}

// symbolicLib handles library calls with symbolic arguments without forking where possible.
func (in *Interp) symbolicLib(name string, fn *ssa.Function, args []Value, site ssa.Instruction) (Value, bool) {
	// finite-domain first argument with concrete rest: pointwise native evaluation
	if fd, ok := args[0].(*FD); ok && allConcrete(args[1:]) {
		if nf, ok := natives[name]; ok {
			rf := reflect.ValueOf(nf)
			res := fn.Signature.Results()
			if res.Len() == 1 {
				call := func(s string) Value {
					as := append([]Value{s}, args[1:]...)
					return in.nativeCall(rf, as, res)
				}
				switch {
				case isBool(res.At(0).Type()):
					return symBool(fdMapBool(fd, func(s string) bool { return call(s).(bool) })), true
				case isString(res.At(0).Type()):
					return fdMapStr(fd, func(s string) string { return call(s).(string) }), true
				case isInt(res.At(0).Type()):
					w, sg := width(res.At(0).Type())
					return symInt(fdMapInt(fd, w, func(s string) uint64 { return call(s).(Int).v }), sg), true
				}
			}
		}
	}
	// float-format atoms (the shortest round-trip text of a finite float64 term)
	if at := singleFmtFloat(args[0]); at != nil {
		switch name {
		case "strconv.ParseFloat":
			if in.concreteInt(args[1], "bitSize") == 64 {
				// strconv contract: ParseFloat(FormatFloat(f, 'g', -1, 64), 64) == f for every finite f
				return Tuple{symFloat(mkFPOfBits(at.t)), Iface{}}, true
			}
		case "strings.ToLower", "strings.TrimSpace":
			// the text of a finite float consists of [-+0-9.e] only
			return args[0], true
		case "strings.Contains", "strings.HasPrefix", "strings.HasSuffix":
			if pat, ok := args[1].(string); ok && pat != "" && !strings.ContainsAny(pat, "-+0123456789.e") {
				return false, true
			}
		case "strings.ReplaceAll", "strings.Replace":
			if old, ok := args[1].(string); ok && old != "" && !strings.ContainsAny(old, "-+0123456789.e") {
				return args[0], true
			}
		}
		unsup("%s on the text of a symbolic float", name)
	}
	// integer-format atoms
	if at := singleFmtInt(args[0]); at != nil {
		switch name {
		case "strings.Contains", "strings.HasPrefix", "strings.HasSuffix", "strings.ContainsRune":
			pat := ""
			switch p := args[1].(type) {
			case string:
				pat = p
			case Int:
				pat = string(rune(p.v))
			default:
				unsup("%s on integer atom with symbolic pattern", name)
			}
			if pat == "" {
				return true, true
			}
			digitsOnly := true
			for _, ch := range pat {
				if !(ch == '-' || ch >= '0' && ch <= '9' || (at.base == 16 && ch >= 'a' && ch <= 'f') || (at.base == -16 && ch >= 'A' && ch <= 'F')) {
					digitsOnly = false
				}
			}
			if !digitsOnly {
				return false, true
			}
			if pat == "-" && name != "strings.HasSuffix" {
				return symBool(mkBin(OSLt, at.t, mkConst(0, 64))), true
			}
			unsup("%s(%q) on integer atom needs digits", name, pat)
		case "strings.ReplaceAll", "strings.Replace":
			if old, ok := args[1].(string); ok && old != "" {
				digit := false
				for _, ch := range old {
					if ch == '-' || ch >= '0' && ch <= '9' {
						digit = true
					}
				}
				if !digit {
					return args[0], true
				}
			}
		case "strings.ToLower", "strings.TrimSpace":
			if at.base != -16 {
				return args[0], true
			}
		case "strconv.ParseInt":
			base := in.concreteInt(args[1], "base")
			bits := in.concreteInt(args[2], "bitSize")
			if (base == at.base || (base == 0 && at.base == 10)) && bits == 64 {
				return Tuple{symInt(at.t, true), Iface{}}, true
			}
		case "strconv.Atoi":
			if at.base == 10 {
				return Tuple{symInt(at.t, true), Iface{}}, true
			}
		case "strconv.ParseFloat":
			if at.base == 10 && in.concreteInt(args[1], "bitSize") == 64 {
				// strconv contract: a decimal integer text is parsed to the nearest float64 (ties to even), which is what
				// the conversion of the integer itself gives
				return Tuple{symFloat(mkFPOfInt(at.t, true)), Iface{}}, true
			}
			unsup("ParseFloat of symbolic integer atom")
		}
	}
	switch name {
	case "strconv.Itoa":
		if s, ok := args[0].(Sym); ok {
			return fmtIntStr(s.t, 10), true
		}
	case "strconv.FormatInt":
		if s, ok := args[0].(Sym); ok {
			return fmtIntStr(s.t, in.concreteInt(args[1], "base")), true
		}
	case "strings.HasPrefix", "strings.HasSuffix":
		a, b := strArgVal(in, args[0]), strArgVal(in, args[1])
		ba, ok1 := strBytes(a)
		bb, ok2 := strBytes(b)
		if ok1 && ok2 {
			if len(bb) > len(ba) {
				return false, true
			}
			off := 0
			if name == "strings.HasSuffix" {
				off = len(ba) - len(bb)
			}
			conj := make([]*Term, len(bb))
			for i := range bb {
				conj[i] = mkEq(ba[off+i], bb[i])
			}
			return symBool(mkAnd(conj...)), true
		}
		// rope with atoms: decide on literal prefix if possible
		if pa := partsOf(a); len(pa) > 0 && ok2 {
			if p0 := pa[0]; name == "strings.HasPrefix" && p0.atom == nil && p0.b == nil {
				if pb, ok := b.(string); ok && len(p0.lit) >= len(pb) {
					return strings.HasPrefix(p0.lit, pb), true
				}
			}
		}
	case "strings.Contains":
		a, b := strArgVal(in, args[0]), strArgVal(in, args[1])
		ba, ok1 := strBytes(a)
		bb, ok2 := strBytes(b)
		if ok1 && ok2 {
			if len(bb) == 0 {
				return true, true
			}
			var ors []*Term
			for i := 0; i+len(bb) <= len(ba); i++ {
				conj := make([]*Term, len(bb))
				for j := range bb {
					conj[j] = mkEq(ba[i+j], bb[j])
				}
				ors = append(ors, mkAnd(conj...))
			}
			return symBool(mkOr(ors...)), true
		}
	case "strings.ContainsRune":
		a := strArgVal(in, args[0])
		ba, ok1 := strBytes(a)
		if ok1 {
			r := toTerm(args[1], 32)
			var ors []*Term
			for _, b := range ba {
				ors = append(ors, mkEq(mkZExt(b, 32), r))
			}
			return symBool(mkOr(ors...)), true
		}
	case "strings.Index":
		a, b := strArgVal(in, args[0]), strArgVal(in, args[1])
		ba, ok1 := strBytes(a)
		bb, ok2 := strBytes(b)
		if ok1 && ok2 {
			return Int{uint64(int64(in.indexBytes(ba, bb)))}, true
		}
	case "strings.IndexByte":
		a := strArgVal(in, args[0])
		if ba, ok := strBytes(a); ok {
			return Int{uint64(int64(in.indexBytes(ba, []*Term{toTerm(args[1], 8)})))}, true
		}
	case "strings.ToLower", "strings.ToUpper":
		a := strArgVal(in, args[0])
		if ba, ok := strBytes(a); ok {
			out := make([]*Term, len(ba))
			for i, b := range ba {
				if !b.isConst() {
					in.requireASCII(b)
				}
				if name == "strings.ToLower" {
					isU := mkAnd(mkBin(OULe, mkConst('A', 8), b), mkBin(OULe, b, mkConst('Z', 8)))
					out[i] = mkIte(isU, mkBin(OAdd, b, mkConst(32, 8)), b)
				} else {
					isL := mkAnd(mkBin(OULe, mkConst('a', 8), b), mkBin(OULe, b, mkConst('z', 8)))
					out[i] = mkIte(isL, mkBin(OSub, b, mkConst(32, 8)), b)
				}
			}
			return strFromBytes(out), true
		}
	case "strings.Compare":
		a, b := strArgVal(in, args[0]), strArgVal(in, args[1])
		lt, gt := strLess(a, b), strLess(b, a)
		return symInt(mkIte(lt, mkConst(^uint64(0), 64), mkIte(gt, mkConst(1, 64), mkConst(0, 64))), true), true
	case "strings.Clone":
		return args[0], true
	case "strings.Repeat":
		if n, ok := args[1].(Int); ok {
			var res Value = ""
			for i := 0; i < int(n.v); i++ {
				res = strConcat(res, strArgVal(in, args[0]))
			}
			return res, true
		}
	case "unicode/utf8.RuneCountInString":
		a := strArgVal(in, args[0])
		if ba, ok := strBytes(a); ok {
			for _, b := range ba {
				if !b.isConst() {
					in.requireASCII(b)
				} else if b.c >= 0x80 {
					return nil, false
				}
			}
			return Int{uint64(len(ba))}, true
		}
	case "unicode/utf8.DecodeRuneInString", "unicode/utf8.DecodeRune":
		var bs []*Term
		if name == "unicode/utf8.DecodeRune" {
			bs = bytesOfArg(in, args[0])
		} else {
			a := strArgVal(in, args[0])
			b2, ok := strBytes(a)
			if !ok {
				return nil, false
			}
			bs = b2
		}
		if len(bs) == 0 {
			return Tuple{Int{0xFFFD}, Int{0}}, true
		}
		if bs[0].isConst() {
			if bs[0].c < 0x80 {
				return Tuple{Int{bs[0].c}, Int{1}}, true
			}
			return nil, false
		}
		in.requireASCII(bs[0])
		return Tuple{symInt(mkZExt(bs[0], 32), true), Int{1}}, true
	case "unicode/utf8.ValidString":
		a := strArgVal(in, args[0])
		if ba, ok := strBytes(a); ok {
			for _, b := range ba {
				if !b.isConst() {
					in.requireASCII(b)
				} else if b.c >= 0x80 {
					return nil, false
				}
			}
			return true, true
		}
	}
	// fall back: concretise finite-domain arguments and retry natively
	changed := false
	for i, a := range args {
		if fd, ok := a.(*FD); ok {
			args[i] = in.concretizeFD(fd)
			changed = true
		}
	}
	if changed && allConcrete(args) {
		if nf, ok := natives[name]; ok {
			return in.nativeCall(reflect.ValueOf(nf), args, fn.Signature.Results()), true
		}
	}
	return nil, false
}

// ---- table of exact-name intrinsics ----

var intrinsicTable = map[string]intrinsicFn{}

func reg(name string, f intrinsicFn) { intrinsicTable[name] = f }

func init() {
	reg("errors.Is", func(in *Interp, fn *ssa.Function, a []Value, c *frame, s ssa.Instruction) (Value, bool) {
		return in.errorsIs(a[0], a[1]), true
	})
	reg("errors.As", func(in *Interp, fn *ssa.Function, a []Value, c *frame, s ssa.Instruction) (Value, bool) {
		return in.errorsAs(a[0], a[1]), true
	})
	reg("github.com/jinzhu/copier.Copy", func(in *Interp, fn *ssa.Function, a []Value, c *frame, s ssa.Instruction) (Value, bool) {
		to := a[0].(Iface).v.(Pointer)
		from := a[1].(Iface).v
		if p, ok := from.(Pointer); ok {
			from = p.load()
		}
		to.store(from)
		return Iface{}, true
	})
	// deepMatch(name, pattern) (pkg/yqlib/matchKeyString.go) is interpreted from its real SSA whenever both strings
	// are byte ropes. When an integer-format atom is involved (the text of a computed number), the glob walk cannot
	// index it; then the summary "a pattern without * and ? matches exactly the equal name" is used. The summary
	// is itself proved against the real deepMatch by the lemma harness VerifC01DeepMatchLemma (C01).
	reg("github.com/mikefarah/yq/v4/pkg/yqlib.deepMatch", func(in *Interp, fn *ssa.Function, a []Value, c *frame, s ssa.Instruction) (Value, bool) {
		name, pat := strArgVal(in, a[0]), strArgVal(in, a[1])
		if !hasAtoms(name) && !hasAtoms(pat) {
			return nil, false
		}
		if _, ok := pat.(*FD); ok {
			return nil, false
		}
		for _, p := range partsOf(pat) {
			switch {
			case p.atom != nil:
				if p.atom.kind != 0 {
					unsup("deepMatch with an opaque pattern")
				}
			case p.b != nil:
				// a symbolic byte of the pattern: the summary applies on the paths where it is no wildcard
				if in.decide(mkOr(mkEq(p.b, mkConst('*', 8)), mkEq(p.b, mkConst('?', 8)))) {
					unsup("deepMatch of a number text against a wildcard pattern")
				}
			default:
				if strings.ContainsAny(p.lit, "*?") {
					unsup("deepMatch of a number text against a wildcard pattern")
				}
			}
		}
		return symBool(strEq(name, pat)), true
	})
	reg("internal/stringslite.Clone", func(in *Interp, fn *ssa.Function, a []Value, c *frame, s ssa.Instruction) (Value, bool) {
		return a[0], true
	})
	reg("strings.Clone", func(in *Interp, fn *ssa.Function, a []Value, c *frame, s ssa.Instruction) (Value, bool) {
		return a[0], true
	})
	reg("(golang.org/x/text/unicode/norm.Form).String", func(in *Interp, fn *ssa.Function, a []Value, c *frame, s ssa.Instruction) (Value, bool) {
		// Unicode normalisation is the identity on ASCII (Unicode standard, UAX #15); non-ASCII input is outside the model
		str := strArgVal(in, a[1])
		if cs, ok := str.(string); ok {
			// concrete text: the real library (linked into the engine at the version /repo requires)
			if f, ok := a[0].(Int); ok {
				return textnorm.Form(f.v).String(cs), true
			}
			for i := 0; i < len(cs); i++ {
				if cs[i] >= 0x80 {
					unsup("norm.Form.String on non-ASCII text")
				}
			}
			return cs, true
		}
		bs, ok := strBytes(str)
		if !ok {
			// integer-format atoms are ASCII digits
			return str, true
		}
		for _, b := range bs {
			if !b.isConst() {
				in.requireASCII(b)
			} else if b.c >= 0x80 {
				unsup("norm.Form.String on non-ASCII text")
			}
		}
		return str, true
	})
	b64 := func(in *Interp, fn *ssa.Function, a []Value, c *frame, s ssa.Instruction) (Value, bool) {
		// yq only uses base64.StdEncoding (contract: the opaque Encoding object is the standard one)
		if !allConcrete(a[1:]) {
			return nil, false // symbolic data: the package's own SSA runs (encoding/base64 is in the interpreted set)
		}
		m := reflect.ValueOf(base64.StdEncoding).MethodByName(fn.Name())
		if !m.IsValid() {
			unsup("base64.Encoding.%s", fn.Name())
		}
		return in.nativeCall(m, a[1:], fn.Signature.Results()), true
	}
	for _, n := range []string{"EncodeToString", "DecodeString", "EncodedLen", "DecodedLen"} {
		reg("(*encoding/base64.Encoding)."+n, b64)
		reg("(encoding/base64.Encoding)."+n, b64)
	}
	reg("internal/abi.NoEscape", func(in *Interp, fn *ssa.Function, a []Value, c *frame, s ssa.Instruction) (Value, bool) {
		return a[0], true
	})
	reg("internal/abi.Escape", func(in *Interp, fn *ssa.Function, a []Value, c *frame, s ssa.Instruction) (Value, bool) {
		return a[0], true
	})
	reg("(*sync.Once).Do", func(in *Interp, fn *ssa.Function, a []Value, c *frame, s ssa.Instruction) (Value, bool) {
		p := a[0].(Pointer)
		key := fmt.Sprintf("once:%d:%v", p.obj.id, p.path)
		if _, done := in.natives[key]; done {
			return nil, true
		}
		in.natives[key] = p.obj
		in.call(a[1], nil, c, s)
		return nil, true
	})
	reg("strings.Map", func(in *Interp, fn *ssa.Function, a []Value, c *frame, s ssa.Instruction) (Value, bool) {
		// strings.Map(mapping, s): apply per rune; real semantics drops negative results.
		str := strArgVal(in, a[1])
		it := in.newStrIter(str)
		var res Value = ""
		for {
			t := in.iterNext(it, true).(Tuple)
			if !in.decideVal(t[0]) {
				break
			}
			r := in.call(a[0], []Value{t[2]}, c, s)
			switch x := r.(type) {
			case Int:
				if int64(x.v) >= 0 {
					res = strConcat(res, string(rune(int64(x.v))))
				}
			case Sym:
				if !in.decide(mkBin(OSLt, x.t, mkConst(0, x.t.w))) {
					res = strConcat(res, in.convert(types.Typ[types.Rune], types.Typ[types.String], x, s))
				}
			}
		}
		return res, true
	})
	reg("os.Getenv", func(in *Interp, fn *ssa.Function, a []Value, c *frame, s ssa.Instruction) (Value, bool) {
		return "", true
	})
	reg("os.Environ", func(in *Interp, fn *ssa.Function, a []Value, c *frame, s ssa.Instruction) (Value, bool) {
		// the environment is empty in the model (as os.Getenv answers "")
		return in.sliceOf(types.Typ[types.String], nil), true
	})
	// sort.Slice / sort.SliceStable / sort.SliceIsSorted: the package obtains length and swap function through
	// internal/reflectlite; here the swap is an engine function over the slice's backing array and the package's
	// own sorting routines (pdqsort_func, stable_func: real SSA) run with the caller's less function.
	sortSlice := func(routine string) intrinsicFn {
		return func(in *Interp, fn *ssa.Function, a []Value, c *frame, s ssa.Instruction) (Value, bool) {
			ifc, ok := a[0].(Iface)
			if !ok {
				unsup("%s of a non-interface value", fn.Name())
			}
			sl, ok := ifc.v.(Slice)
			if !ok {
				unsup("%s of %T", fn.Name(), ifc.v)
			}
			swap := &NativeFn{f: func(in *Interp, args []Value) Value {
				i, iok := args[0].(Int)
				j, jok := args[1].(Int)
				if !iok || !jok {
					unsup("sort swap with symbolic indices")
				}
				pi, pj := sl.at(int(int64(i.v))), sl.at(int(int64(j.v)))
				vi, vj := pi.load(), pj.load()
				pi.store(vj)
				pj.store(vi)
				return nil
			}}
			ls := &Struct{f: []Value{a[1], swap}}
			pkg := fn.Pkg
			switch routine {
			case "stable_func":
				in.callFn(pkg.Func("stable_func"), []Value{ls, Int{uint64(sl.len)}}, nil, c, s)
			case "pdqsort_func":
				limit := bits.Len(uint(sl.len))
				in.callFn(pkg.Func("pdqsort_func"), []Value{ls, Int{0}, Int{uint64(sl.len)}, Int{uint64(limit)}}, nil, c, s)
			}
			return nil, true
		}
	}
	// ---- floating point (IEEE-754 binary64 fragment of the term language) ----
	reg("math.Float64frombits", func(in *Interp, fn *ssa.Function, a []Value, c *frame, s ssa.Instruction) (Value, bool) {
		switch x := a[0].(type) {
		case Int:
			return math.Float64frombits(x.v), true
		case Sym:
			return symFloat(mkFPOfBits(x.t)), true
		}
		return nil, false
	})
	reg("math.Float64bits", func(in *Interp, fn *ssa.Function, a []Value, c *frame, s ssa.Instruction) (Value, bool) {
		switch x := a[0].(type) {
		case float64:
			return Int{math.Float64bits(x)}, true
		case SymF:
			if b, ok := mkFPBits(x.t); ok {
				return symInt(b, false), true
			}
			unsup("math.Float64bits of a computed symbolic float")
		}
		return nil, false
	})
	reg("math.IsNaN", func(in *Interp, fn *ssa.Function, a []Value, c *frame, s ssa.Instruction) (Value, bool) {
		switch x := a[0].(type) {
		case float64:
			return math.IsNaN(x), true
		case SymF:
			return symBool(mkFPIsNaN(x.t)), true
		}
		return nil, false
	})
	reg("math.IsInf", func(in *Interp, fn *ssa.Function, a []Value, c *frame, s ssa.Instruction) (Value, bool) {
		sign, ok := a[1].(Int)
		if !ok {
			unsup("math.IsInf with a symbolic sign")
		}
		switch x := a[0].(type) {
		case float64:
			return math.IsInf(x, int(int64(sign.v))), true
		case SymF:
			pos := mkFPCmp(OFPEq, x.t, mkFPConst(math.Inf(1)))
			neg := mkFPCmp(OFPEq, x.t, mkFPConst(math.Inf(-1)))
			switch {
			case int64(sign.v) > 0:
				return symBool(pos), true
			case int64(sign.v) < 0:
				return symBool(neg), true
			}
			return symBool(mkOr(pos, neg)), true
		}
		return nil, false
	})
	for name, op := range map[string]Op{"math.Trunc": OFPTrunc, "math.Floor": OFPFloor, "math.Ceil": OFPCeil} {
		op := op
		nat := map[string]func(float64) float64{"math.Trunc": math.Trunc, "math.Floor": math.Floor, "math.Ceil": math.Ceil}[name]
		reg(name, func(in *Interp, fn *ssa.Function, a []Value, c *frame, s ssa.Instruction) (Value, bool) {
			switch x := a[0].(type) {
			case float64:
				return nat(x), true
			case SymF:
				return symFloat(mkFPRound(op, x.t)), true
			}
			return nil, false
		})
	}
	reg("math.Abs", func(in *Interp, fn *ssa.Function, a []Value, c *frame, s ssa.Instruction) (Value, bool) {
		switch x := a[0].(type) {
		case float64:
			return math.Abs(x), true
		case SymF:
			if b, ok := mkFPBits(x.t); ok {
				return symFloat(mkFPOfBits(mkBin(OBAnd, b, mkConst(^uint64(0)>>1, 64)))), true
			}
			unsup("math.Abs of a computed symbolic float")
		}
		return nil, false
	})
	reg("sort.SliceStable", sortSlice("stable_func"))
	reg("sort.Slice", sortSlice("pdqsort_func"))
	reg("sort.Strings", nil)
	delete(intrinsicTable, "sort.Strings")
}

func tokenOf(s string) (t tokenT) {
	for i := tokenT(0); i < 100; i++ {
		if i.String() == s {
			return i
		}
	}
	panic("token " + s)
}
