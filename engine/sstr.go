package main

import (
	"math"
	"fmt"
	"strconv"
	"strings"
)

// Symbolic strings: ropes. No SMT string theory is used; every operation reduces to QF_BV terms
// over the byte variables / integer atoms, or raises Unsupported.

type Atom struct {
	kind int // 0 = FmtInt (strconv formatting of a 64-bit signed term in base), 1 = opaque text, 2 = FmtFloat (shortest
	// round-trip formatting, strconv.FormatFloat(f, 'g', -1, 64), of the finite float64 whose bit pattern is t)
	t    *Term
	base int
	id   int
	desc string
}

type SPart struct {
	lit  string
	b    *Term
	atom *Atom
}

type SStr struct{ parts []SPart }

// FD is a finite-domain string: alts[sel].
type FD struct {
	sel  *Term // width 8
	alts []string
}

func (s *SStr) debug() string {
	var sb strings.Builder
	sb.WriteString("sstr[")
	for _, p := range s.parts {
		switch {
		case p.b != nil:
			sb.WriteString("<" + p.b.String() + ">")
		case p.atom != nil:
			if p.atom.kind == 0 {
				sb.WriteString("<fmtint>")
			} else {
				sb.WriteString("<opaque:" + p.atom.desc + ">")
			}
		default:
			sb.WriteString(strconv.Quote(p.lit))
		}
	}
	sb.WriteString("]")
	return sb.String()
}

func normParts(parts []SPart) Value {
	var out []SPart
	for _, p := range parts {
		if p.b != nil && p.b.isConst() {
			p = SPart{lit: string([]byte{byte(p.b.c)})}
		}
		if p.b == nil && p.atom == nil {
			if p.lit == "" {
				continue
			}
			if n := len(out); n > 0 && out[n-1].b == nil && out[n-1].atom == nil {
				out[n-1].lit += p.lit
				continue
			}
		}
		out = append(out, p)
	}
	if len(out) == 0 {
		return ""
	}
	if len(out) == 1 && out[0].b == nil && out[0].atom == nil {
		return out[0].lit
	}
	return &SStr{parts: out}
}

func partsOf(v Value) []SPart {
	switch x := v.(type) {
	case string:
		if x == "" {
			return nil
		}
		return []SPart{{lit: x}}
	case *SStr:
		return x.parts
	}
	panic(fmt.Sprintf("partsOf %T", v))
}

func isStrVal(v Value) bool {
	switch v.(type) {
	case string, *SStr, *FD:
		return true
	}
	return false
}

func isSymStr(v Value) bool {
	switch v.(type) {
	case *SStr, *FD:
		return true
	}
	return false
}

func hasAtoms(v Value) bool {
	if s, ok := v.(*SStr); ok {
		for _, p := range s.parts {
			if p.atom != nil {
				return true
			}
		}
	}
	return false
}

// strBytes returns the byte terms of an atom-free rope / concrete string.
func strBytes(v Value) ([]*Term, bool) {
	switch x := v.(type) {
	case string:
		out := make([]*Term, len(x))
		for i := 0; i < len(x); i++ {
			out[i] = mkConst(uint64(x[i]), 8)
		}
		return out, true
	case *SStr:
		var out []*Term
		for _, p := range x.parts {
			switch {
			case p.atom != nil:
				return nil, false
			case p.b != nil:
				out = append(out, p.b)
			default:
				for i := 0; i < len(p.lit); i++ {
					out = append(out, mkConst(uint64(p.lit[i]), 8))
				}
			}
		}
		return out, true
	}
	return nil, false
}

func strFromBytes(bs []*Term) Value {
	parts := make([]SPart, 0, len(bs))
	for _, b := range bs {
		parts = append(parts, SPart{b: b})
	}
	return normParts(parts)
}

func strLenConcrete(v Value) (int, bool) {
	switch x := v.(type) {
	case string:
		return len(x), true
	case *SStr:
		n := 0
		for _, p := range x.parts {
			switch {
			case p.atom != nil:
				return 0, false
			case p.b != nil:
				n++
			default:
				n += len(p.lit)
			}
		}
		return n, true
	case *FD:
		n := len(x.alts[0])
		for _, a := range x.alts {
			if len(a) != n {
				return 0, false
			}
		}
		return n, true
	}
	return 0, false
}

func fdMapBool(fd *FD, f func(string) bool) *Term {
	var ors []*Term
	all := true
	for k, a := range fd.alts {
		if f(a) {
			ors = append(ors, mkEq(fd.sel, mkConst(uint64(k), 8)))
		} else {
			all = false
		}
	}
	if all {
		return tTrue
	}
	return mkOr(ors...)
}

func fdMapInt(fd *FD, w int, f func(string) uint64) *Term {
	r := mkConst(f(fd.alts[len(fd.alts)-1]), w)
	for k := len(fd.alts) - 2; k >= 0; k-- {
		r = mkIte(mkEq(fd.sel, mkConst(uint64(k), 8)), mkConst(f(fd.alts[k]), w), r)
	}
	return r
}

func fdMapStr(fd *FD, f func(string) string) Value {
	alts := make([]string, len(fd.alts))
	same := true
	for i, a := range fd.alts {
		alts[i] = f(a)
		if alts[i] != alts[0] {
			same = false
		}
	}
	if same {
		return alts[0]
	}
	return &FD{sel: fd.sel, alts: alts}
}

type unsupported struct{ msg string }

func unsup(format string, a ...any) {
	panic(unsupported{fmt.Sprintf(format, a...)})
}

func canonicalInt(lit string, base int) (int64, bool) {
	n, err := strconv.ParseInt(lit, base, 64)
	if err != nil {
		return 0, false
	}
	return n, strconv.FormatInt(n, base) == lit
}

// strEq builds the Bool term "a == b" for any two string values.
func strEq(a, b Value) *Term {
	if x, ok := a.(string); ok {
		if y, ok := b.(string); ok {
			return mkBool(x == y)
		}
	}
	if fa, ok := a.(*FD); ok {
		switch y := b.(type) {
		case string:
			return fdMapBool(fa, func(s string) bool { return s == y })
		case *FD:
			var ors []*Term
			for i, x := range fa.alts {
				for j, z := range y.alts {
					if x == z {
						ors = append(ors, mkAnd(mkEq(fa.sel, mkConst(uint64(i), 8)), mkEq(y.sel, mkConst(uint64(j), 8))))
					}
				}
			}
			return mkOr(ors...)
		case *SStr:
			var ors []*Term
			for i, x := range fa.alts {
				ors = append(ors, mkAnd(mkEq(fa.sel, mkConst(uint64(i), 8)), strEq(x, y)))
			}
			return mkOr(ors...)
		}
	}
	if _, ok := b.(*FD); ok {
		return strEq(b, a)
	}
	ba, oka := strBytes(a)
	bb, okb := strBytes(b)
	if oka && okb {
		if len(ba) != len(bb) {
			return tFalse
		}
		conj := make([]*Term, 0, len(ba))
		for i := range ba {
			conj = append(conj, mkEq(ba[i], bb[i]))
		}
		return mkAnd(conj...)
	}
	// atoms involved
	pa, pb := partsOf(a), partsOf(b)
	if fa := singleFmtFloat(a); fa != nil {
		if fb := singleFmtFloat(b); fb != nil {
			// shortest round-trip formatting is injective on finite floats (+0 and -0 are spelt differently)
			return mkEq(fa.t, fb.t)
		}
		if y, ok := b.(string); ok {
			if f, err := strconv.ParseFloat(y, 64); err == nil && strconv.FormatFloat(f, 'g', -1, 64) == y {
				return mkEq(fa.t, mkConst(math.Float64bits(f), 64))
			}
			return tFalse
		}
		if at := singleFmtInt(b); at != nil && at.base == 10 {
			unsup("string equality between the text of a float and the text of an integer")
		}
	} else if singleFmtFloat(b) != nil {
		return strEq(b, a)
	}
	if len(pa) == 1 && pa[0].atom != nil && pa[0].atom.kind == 0 {
		at := pa[0].atom
		if len(pb) == 1 && pb[0].atom != nil && pb[0].atom.kind == 0 && pb[0].atom.base == at.base {
			return mkEq(at.t, pb[0].atom.t)
		}
		if okb {
			if y, ok := b.(string); ok {
				if n, ok := canonicalInt(y, at.base); ok {
					return mkEq(at.t, mkConst(uint64(n), 64))
				}
				return tFalse
			}
			if t := fmtIntEqBytes(at, bb); t != nil {
				return t
			}
		}
	}
	if len(pb) == 1 && pb[0].atom != nil && pb[0].atom.kind == 0 && !(len(pa) == 1 && pa[0].atom != nil) {
		return strEq(b, a)
	}
	if t := strEqAligned(pa, pb); t != nil {
		return t
	}
	if t := strEqWalk(pa, pb); t != nil {
		return t
	}
	// structural comparison of ropes with atoms: identical atom objects at the same positions
	if len(pa) == len(pb) {
		same := true
		var conj []*Term
		for i := range pa {
			x, y := pa[i], pb[i]
			switch {
			case x.atom != nil || y.atom != nil:
				if x.atom != y.atom {
					same = false
				}
			case x.b != nil || y.b != nil:
				if x.b != nil && y.b != nil {
					conj = append(conj, mkEq(x.b, y.b))
				} else {
					same = false
				}
			default:
				if x.lit != y.lit {
					same = false
				}
			}
		}
		if same {
			return mkAnd(conj...)
		}
	}
	unsup("string equality between %s and %s", show(a), show(b))
	return nil
}

// strLess builds the Bool term "a < b" (bytewise lexicographic) for atom-free ropes / FDs.
func strLess(a, b Value) *Term {
	if fa, ok := a.(*FD); ok {
		var ors []*Term
		for i, x := range fa.alts {
			ors = append(ors, mkAnd(mkEq(fa.sel, mkConst(uint64(i), 8)), strLess(x, b)))
		}
		return mkOr(ors...)
	}
	if fb, ok := b.(*FD); ok {
		var ors []*Term
		for i, x := range fb.alts {
			ors = append(ors, mkAnd(mkEq(fb.sel, mkConst(uint64(i), 8)), strLess(a, x)))
		}
		return mkOr(ors...)
	}
	ba, oka := strBytes(a)
	bb, okb := strBytes(b)
	if !oka || !okb {
		unsup("string ordering on %s / %s", show(a), show(b))
	}
	// a<b  <=>  exists i: prefix equal and (i==len(a)<len(b) or a[i]<b[i])
	n := len(ba)
	if len(bb) < n {
		n = len(bb)
	}
	res := mkBool(len(ba) < len(bb)) // all common bytes equal
	for i := n - 1; i >= 0; i-- {
		res = mkIte(mkEq(ba[i], bb[i]), res, mkBin(OULt, ba[i], bb[i]))
	}
	return res
}

func strConcat(a, b Value) Value {
	if x, ok := a.(string); ok {
		if y, ok := b.(string); ok {
			return x + y
		}
	}
	if fa, ok := a.(*FD); ok {
		if y, ok := b.(string); ok {
			return fdMapStr(fa, func(s string) string { return s + y })
		}
		unsup("concat FD with symbolic string")
	}
	if fb, ok := b.(*FD); ok {
		if x, ok := a.(string); ok {
			return fdMapStr(fb, func(s string) string { return x + s })
		}
		unsup("concat symbolic string with FD")
	}
	parts := append(append([]SPart{}, partsOf(a)...), partsOf(b)...)
	return normParts(parts)
}

func strSlice(v Value, lo, hi int) Value {
	switch x := v.(type) {
	case string:
		return x[lo:hi]
	case *SStr:
		// slicing is allowed across literal and byte parts; atoms may only be fully outside or fully inside
		if !hasAtoms(x) {
			bs, _ := strBytes(x)
			return strFromBytes(bs[lo:hi])
		}
		// rope with atoms: only support prefix part removal on literal boundaries
		unsup("slice of string with integer/opaque atom: %s[%d:%d]", x.debug(), lo, hi)
	}
	panic(fmt.Sprintf("strSlice %T", v))
}

// evalStr concretises a string value under a model.
func evalStr(v Value, m Model) string {
	switch x := v.(type) {
	case string:
		return x
	case *FD:
		k := evalTerm(x.sel, m)
		if int(k) >= len(x.alts) {
			k = 0
		}
		return x.alts[k]
	case *SStr:
		var sb strings.Builder
		for _, p := range x.parts {
			switch {
			case p.b != nil:
				sb.WriteByte(byte(evalTerm(p.b, m)))
			case p.atom != nil:
				if p.atom.kind == 0 {
					sb.WriteString(strconv.FormatInt(int64(evalTerm(p.atom.t, m)), p.atom.base))
				} else if p.atom.kind == 2 {
					sb.WriteString(strconv.FormatFloat(math.Float64frombits(evalTerm(p.atom.t, m)), 'g', -1, 64))
				} else {
					sb.WriteString("<" + p.atom.desc + ">")
				}
			default:
				sb.WriteString(p.lit)
			}
		}
		return sb.String()
	}
	panic(fmt.Sprintf("evalStr %T", v))
}

func fmtIntStr(t *Term, base int) Value {
	if t.isConst() {
		return strconv.FormatInt(int64(t.c), base)
	}
	return &SStr{parts: []SPart{{atom: &Atom{kind: 0, t: t, base: base}}}}
}

// fmtFloatStr is the text of the finite float64 with bit pattern bits.
func fmtFloatStr(bits *Term) Value {
	if bits.isConst() {
		return strconv.FormatFloat(math.Float64frombits(bits.c), 'g', -1, 64)
	}
	return &SStr{parts: []SPart{{atom: &Atom{kind: 2, t: bits}}}}
}

// singleFmtFloat returns the atom if v is exactly one FmtFloat atom.
func singleFmtFloat(v Value) *Atom {
	if s, ok := v.(*SStr); ok && len(s.parts) == 1 && s.parts[0].atom != nil && s.parts[0].atom.kind == 2 {
		return s.parts[0].atom
	}
	return nil
}

func opaqueStr(desc string) Value {
	return &SStr{parts: []SPart{{atom: &Atom{kind: 1, desc: desc}}}}
}

// singleFmtInt returns the atom if v is exactly one FmtInt atom.
func singleFmtInt(v Value) *Atom {
	if s, ok := v.(*SStr); ok && len(s.parts) == 1 && s.parts[0].atom != nil && s.parts[0].atom.kind == 0 {
		return s.parts[0].atom
	}
	return nil
}

type ropeSeg struct {
	bytes []*Term
	atom  *Atom // atom that follows the bytes (nil for the last segment)
}

func ropeSegments(parts []SPart) []ropeSeg {
	segs := []ropeSeg{{}}
	for _, p := range parts {
		cur := &segs[len(segs)-1]
		switch {
		case p.atom != nil:
			cur.atom = p.atom
			segs = append(segs, ropeSeg{})
		case p.b != nil:
			cur.bytes = append(cur.bytes, p.b)
		default:
			for i := 0; i < len(p.lit); i++ {
				cur.bytes = append(cur.bytes, mkConst(uint64(p.lit[i]), 8))
			}
		}
	}
	return segs
}

func isIntChar(b *Term) bool {
	if !b.isConst() {
		return true // unknown: could be a digit
	}
	c := byte(b.c)
	return c == '-' || (c >= '0' && c <= '9') || (c >= 'a' && c <= 'f') || (c >= 'A' && c <= 'F')
}

// strEqAligned decides equality of two ropes that contain integer-format atoms when the segmentation is
// forced: both ropes have the same number of atoms and every atom is delimited, in both ropes, by concrete
// bytes that cannot belong to the atom's text (or by the string boundary). Then the ropes are equal iff the
// byte segments are pairwise equal and the atoms pairwise equal. Returns nil when the condition does not hold.
func strEqAligned(pa, pb []SPart) *Term {
	sa, sb := ropeSegments(pa), ropeSegments(pb)
	if len(sa) != len(sb) || len(sa) < 2 {
		return nil
	}
	for _, segs := range [][]ropeSeg{sa, sb} {
		for i, sg := range segs {
			if sg.atom == nil {
				continue
			}
			if sg.atom.kind != 0 {
				return nil
			}
			// byte before the atom
			if len(sg.bytes) > 0 {
				if isIntChar(sg.bytes[len(sg.bytes)-1]) {
					return nil
				}
			} else if i > 0 {
				return nil // two atoms back to back
			}
			// byte after the atom
			next := segs[i+1]
			if len(next.bytes) > 0 {
				if isIntChar(next.bytes[0]) {
					return nil
				}
			} else if next.atom != nil {
				return nil
			}
		}
	}
	var conj []*Term
	for i := range sa {
		x, y := sa[i], sb[i]
		if len(x.bytes) != len(y.bytes) {
			return tFalse
		}
		for j := range x.bytes {
			conj = append(conj, mkEq(x.bytes[j], y.bytes[j]))
		}
		if (x.atom == nil) != (y.atom == nil) {
			return nil
		}
		if x.atom != nil {
			if x.atom.base != y.atom.base {
				return nil
			}
			conj = append(conj, mkEq(x.atom.t, y.atom.t))
		}
	}
	return mkAnd(conj...)
}

// strEqWalk generalises strEqAligned to ropes whose atoms face literal text: `<!!int <fmtint>>` against `<!!int 0>`.
// Both ropes are walked in lockstep. Every atom must be delimited in its own rope by concrete non-integer bytes
// (or the string boundary), so in an equal rope the atom's text is exactly the maximal run of integer characters at
// that position; when the other rope has concrete bytes there, the atom equals the run's value (or the ropes differ
// if the run is not a canonical integer). Symbolic bytes inside such a run: not decided here (nil).
type ropeElem struct {
	b    *Term
	atom *Atom
}

func ropeElems(parts []SPart) []ropeElem {
	var out []ropeElem
	for _, p := range parts {
		switch {
		case p.atom != nil:
			out = append(out, ropeElem{atom: p.atom})
		case p.b != nil:
			out = append(out, ropeElem{b: p.b})
		default:
			for i := 0; i < len(p.lit); i++ {
				out = append(out, ropeElem{b: mkConst(uint64(p.lit[i]), 8)})
			}
		}
	}
	return out
}

func atomsDelimited(es []ropeElem) bool {
	for i, e := range es {
		if e.atom == nil {
			continue
		}
		if e.atom.kind != 0 {
			return false
		}
		if i > 0 && (es[i-1].atom != nil || isIntChar(es[i-1].b)) {
			return false
		}
		if i+1 < len(es) && (es[i+1].atom != nil || isIntChar(es[i+1].b)) {
			return false
		}
	}
	return true
}

func strEqWalk(pa, pb []SPart) *Term {
	ea, eb := ropeElems(pa), ropeElems(pb)
	if !atomsDelimited(ea) || !atomsDelimited(eb) {
		return nil
	}
	var conj []*Term
	i, j := 0, 0
	for i < len(ea) && j < len(eb) {
		x, y := ea[i], eb[j]
		switch {
		case x.atom == nil && y.atom == nil:
			conj = append(conj, mkEq(x.b, y.b))
			i++
			j++
		case x.atom != nil && y.atom != nil:
			if x.atom.base != y.atom.base {
				return nil
			}
			conj = append(conj, mkEq(x.atom.t, y.atom.t))
			i++
			j++
		default:
			at, other, k := x.atom, eb, j
			if at == nil {
				at, other, k = y.atom, ea, i
			}
			run := []byte{}
			for k < len(other) && other[k].atom == nil && other[k].b.isConst() && isIntChar(other[k].b) {
				run = append(run, byte(other[k].b.c))
				k++
			}
			if k < len(other) && (other[k].atom != nil || !other[k].b.isConst()) {
				return nil // the run is followed by something symbolic: its extent is not forced
			}
			n, ok := canonicalInt(string(run), at.base)
			if !ok {
				return tFalse
			}
			conj = append(conj, mkEq(at.t, mkConst(uint64(n), 64)))
			if x.atom != nil {
				i++
				j = k
			} else {
				j++
				i = k
			}
		}
	}
	if i != len(ea) || j != len(eb) {
		return tFalse
	}
	return mkAnd(conj...)
}

// fmtIntEqBytes: FormatInt(t, 10) == b0…bn-1 for symbolic bytes, n <= 2: the canonical decimal text of t has
// exactly n characters and they are these bytes. Longer byte strings: not decided here (nil).
func fmtIntEqBytes(at *Atom, bs []*Term) *Term {
	if at.base != 10 || at.t.w != 64 {
		return nil
	}
	c8 := func(v int) *Term { return mkConst(uint64(v), 8) }
	c64 := func(v int64) *Term { return mkConst(uint64(v), 64) }
	low := mkExtract(at.t, 7, 0)
	switch len(bs) {
	case 0:
		return tFalse
	case 1:
		// 0 <= t <= 9 and b0 = '0'+t
		return mkAnd(mkBin(OULe, at.t, c64(9)), mkEq(bs[0], mkBin(OAdd, low, c8('0'))))
	case 2:
		// 10..99: b0 = '0'+t/10, b1 = '0'+t%10 (8-bit arithmetic on the low byte, valid in this range)
		pos := mkAnd(mkBin(OULe, c64(10), at.t), mkBin(OULe, at.t, c64(99)),
			mkEq(bs[0], mkBin(OAdd, mkBin(OUDiv, low, c8(10)), c8('0'))),
			mkEq(bs[1], mkBin(OAdd, mkBin(OURem, low, c8(10)), c8('0'))))
		// -9..-1: b0 = '-', b1 = '0'+(-t)
		neg := mkAnd(mkBin(OSLe, c64(-9), at.t), mkBin(OSLe, at.t, c64(-1)),
			mkEq(bs[0], c8('-')), mkEq(bs[1], mkBin(OSub, c8('0'), low)))
		return mkOr(pos, neg)
	}
	return nil
}
