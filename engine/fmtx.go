package main

import (
	"fmt"
	"go/types"
	"strconv"
	"strings"

	"golang.org/x/tools/go/ssa"
)

// Own implementation of the fmt verbs yq uses, over engine values (concrete or symbolic).

func (in *Interp) hasMethod(t types.Type, name string) *ssa.Function {
	if t == nil {
		return nil
	}
	ms := in.eng.prog.MethodSets.MethodSet(t)
	for i := 0; i < ms.Len(); i++ {
		if ms.At(i).Obj().Name() == name {
			return in.eng.prog.MethodValue(ms.At(i))
		}
	}
	return nil
}

func (in *Interp) nativeScalar(v Value, t types.Type) (any, bool) {
	switch x := v.(type) {
	case string:
		return x, true
	case bool:
		return x, true
	case float64:
		if t != nil {
			if b, ok := t.Underlying().(*types.Basic); ok && b.Kind() == types.Float32 {
				return float32(x), true
			}
		}
		return x, true
	case Int:
		if t == nil {
			return int64(x.v), true
		}
		b, ok := t.Underlying().(*types.Basic)
		if !ok {
			return int64(x.v), true
		}
		switch b.Kind() {
		case types.Int:
			return int(x.v), true
		case types.Int8:
			return int8(x.v), true
		case types.Int16:
			return int16(x.v), true
		case types.Int32:
			return int32(x.v), true
		case types.Int64:
			return int64(x.v), true
		case types.Uint:
			return uint(x.v), true
		case types.Uint8:
			return uint8(x.v), true
		case types.Uint16:
			return uint16(x.v), true
		case types.Uint32:
			return uint32(x.v), true
		case types.Uint64:
			return x.v, true
		case types.Uintptr:
			return uintptr(x.v), true
		}
		return int64(x.v), true
	}
	return nil, false
}

// fmtValue renders one operand for %v / %s.
func (in *Interp) fmtValue(a Value, verb byte, depth int) Value {
	var t types.Type
	v := a
	if i, ok := a.(Iface); ok {
		if i.t == nil {
			if verb == 's' {
				return "%!s(<nil>)"
			}
			return "<nil>"
		}
		t, v = i.t, i.v
	}
	if depth > 4 {
		return "…"
	}
	if t != nil && (verb == 'v' || verb == 's' || verb == 'q') {
		if p, ok := v.(Pointer); ok && p.isNil() {
			return "<nil>"
		}
		if m := in.hasMethod(t, "Error"); m != nil && m.Signature.Params().Len() == 0 {
			return in.callFn(m, []Value{v}, nil, in.curFrame, nil)
		}
		if m := in.hasMethod(t, "String"); m != nil && m.Signature.Params().Len() == 0 && m.Signature.Results().Len() == 1 && isString(m.Signature.Results().At(0).Type()) {
			return in.callFn(m, []Value{v}, nil, in.curFrame, nil)
		}
	}
	switch x := v.(type) {
	case string, *SStr, *FD:
		return x
	case bool:
		return strconv.FormatBool(x)
	case Sym:
		if x.t.w == 0 {
			if in.decide(x.t) {
				return "true"
			}
			return "false"
		}
		signed := true
		if t != nil && isInt(t) {
			_, signed = width(t)
		}
		return fmtIntStr(mkResize(x.t, 64, signed), 10)
	case Int, float64:
		n, _ := in.nativeScalar(x, t)
		return fmt.Sprint(n)
	case SymF:
		// %v of a float64 is strconv's shortest 'g' formatting; modelled for finite floats given by a bit pattern
		bits, ok := mkFPBits(x.t)
		if !ok {
			unsup("formatting of a computed symbolic float")
		}
		if in.decide(mkEq(mkExtract(bits, 62, 52), mkConst(0x7ff, 11))) {
			unsup("formatting of a symbolic float that is NaN or infinite")
		}
		return fmtFloatStr(bits)
	case nil:
		return "<nil>"
	case Pointer:
		if x.isNil() {
			return "<nil>"
		}
		if t != nil {
			if pt, ok := t.Underlying().(*types.Pointer); ok {
				if _, isStruct := pt.Elem().Underlying().(*types.Struct); isStruct {
					inner := in.fmtValue(Iface{t: pt.Elem(), v: x.load()}, 'v', depth+1)
					return strConcat("&", inner)
				}
			}
		}
		return fmt.Sprintf("0xc%07x", x.obj.id)
	case *Struct:
		var res Value = "{"
		st, _ := t.Underlying().(*types.Struct)
		for i, f := range x.f {
			if i > 0 {
				res = strConcat(res, " ")
			}
			var ft types.Type
			if st != nil {
				ft = st.Field(i).Type()
			}
			res = strConcat(res, in.fmtValue(wrapIface(f, ft), 'v', depth+1))
		}
		return strConcat(res, "}")
	case Slice:
		var et types.Type
		if t != nil {
			if st, ok := t.Underlying().(*types.Slice); ok {
				et = st.Elem()
			}
		}
		var res Value = "["
		for i := 0; i < x.len; i++ {
			if i > 0 {
				res = strConcat(res, " ")
			}
			res = strConcat(res, in.fmtValue(wrapIface(x.at(i).load(), et), 'v', depth+1))
		}
		return strConcat(res, "]")
	case *Array:
		var res Value = "["
		for i, e := range x.e {
			if i > 0 {
				res = strConcat(res, " ")
			}
			res = strConcat(res, in.fmtValue(e, 'v', depth+1))
		}
		return strConcat(res, "]")
	case *MapObj:
		return "map[…]"
	case *Closure:
		return "0xfunc"
	case Iface:
		return in.fmtValue(x, verb, depth+1)
	}
	return fmt.Sprintf("<%T>", v)
}

func wrapIface(v Value, t types.Type) Value {
	if _, ok := v.(Iface); ok {
		return v
	}
	if t == nil {
		return v
	}
	if _, ok := t.Underlying().(*types.Interface); ok {
		return v
	}
	return Iface{t: t, v: v}
}

func (in *Interp) sprintf(format string, args []Value) Value {
	var res Value = ""
	ai := 0
	lit := strings.Builder{}
	flush := func() {
		if lit.Len() > 0 {
			res = strConcat(res, lit.String())
			lit.Reset()
		}
	}
	for i := 0; i < len(format); i++ {
		c := format[i]
		if c != '%' {
			lit.WriteByte(c)
			continue
		}
		j := i + 1
		for j < len(format) && strings.IndexByte("+-# 0123456789.*", format[j]) >= 0 {
			j++
		}
		if j >= len(format) {
			lit.WriteString("%!(NOVERB)")
			break
		}
		verb := format[j]
		spec := format[i : j+1]
		i = j
		if verb == '%' {
			lit.WriteByte('%')
			continue
		}
		if ai >= len(args) {
			lit.WriteString("%!" + string(verb) + "(MISSING)")
			continue
		}
		a := args[ai]
		ai++
		flush()
		if verb == 'w' {
			verb = 'v'
			spec = spec[:len(spec)-1] + "v"
		}
		var t types.Type
		v := a
		if ifc, ok := a.(Iface); ok {
			t, v = ifc.t, ifc.v
		}
		if verb == 'T' {
			res = strConcat(res, typeStr(t))
			continue
		}
		// concrete scalars without Error/String methods: native formatting handles every flag
		if n, ok := in.nativeScalar(v, t); ok && (t == nil || (in.hasMethod(t, "Error") == nil && in.hasMethod(t, "String") == nil)) {
			res = strConcat(res, fmt.Sprintf(spec, n))
			continue
		}
		switch verb {
		case 'v', 's':
			res = strConcat(res, in.fmtValue(a, verb, 0))
		case 'd':
			res = strConcat(res, in.fmtValue(a, 'v', 0))
		case 'q':
			s := in.fmtValue(a, 'v', 0)
			if cs, ok := s.(string); ok {
				res = strConcat(res, strconv.Quote(cs))
			} else if bs, ok := strBytes(s); ok {
				// strconv.Quote byte by byte: `"` and `\` get a backslash, printable ASCII stands for itself;
				// other bytes (control characters, non-ASCII: escapes depend on UTF-8 validity) are not modelled
				var q Value = "\""
				for _, b := range bs {
					if b.isConst() {
						inner := strconv.Quote(string([]byte{byte(b.c)}))
						if b.c >= 0x80 {
							unsup("%%q of a string with non-ASCII bytes")
						}
						q = strConcat(q, inner[1:len(inner)-1])
						continue
					}
					if in.decide(mkOr(mkEq(b, mkConst('"', 8)), mkEq(b, mkConst('\\', 8)))) {
						q = strConcat(strConcat(q, "\\"), &SStr{parts: []SPart{{b: b}}})
					} else if in.decide(mkAnd(mkBin(OULe, mkConst(0x20, 8), b), mkBin(OULe, b, mkConst(0x7e, 8)))) {
						q = strConcat(q, &SStr{parts: []SPart{{b: b}}})
					} else {
						unsup("%%q of a symbolic control or non-ASCII byte")
					}
				}
				res = strConcat(res, strConcat(q, "\""))
			} else {
				res = strConcat(res, opaqueStr("fmt%q"))
			}
		case 'x', 'X', 'o', 'b':
			if sv, ok := v.(Sym); ok && sv.t.w > 0 && spec == "%"+string(verb) {
				base := map[byte]int{'x': 16, 'X': 16, 'o': 8, 'b': 2}[verb]
				signed := true
				if t != nil && isInt(t) {
					_, signed = width(t)
				}
				if verb == 'X' {
					res = strConcat(res, &SStr{parts: []SPart{{atom: &Atom{kind: 0, t: mkResize(sv.t, 64, signed), base: -16}}}})
				} else {
					res = strConcat(res, fmtIntStr(mkResize(sv.t, 64, signed), base))
				}
			} else {
				res = strConcat(res, opaqueStr("fmt"+spec))
			}
		default:
			res = strConcat(res, opaqueStr("fmt"+spec))
		}
	}
	flush()
	if ai < len(args) {
		res = strConcat(res, "%!(EXTRA)")
	}
	return res
}

func (in *Interp) sprint(args []Value, spaces bool, newline bool) Value {
	var res Value = ""
	for i, a := range args {
		if i > 0 && spaces {
			res = strConcat(res, " ")
		}
		res = strConcat(res, in.fmtValue(a, 'v', 0))
	}
	if newline {
		res = strConcat(res, "\n")
	}
	return res
}
