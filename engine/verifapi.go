package main

import (
	"math"
	"strconv"
	"strings"
	"fmt"
	"go/types"

	"golang.org/x/tools/go/ssa"
)

// Harness primitives (body-less functions named verif* in the overlay files).

func argStr(v Value, what string) string {
	s, ok := v.(string)
	if !ok {
		panic(pathEnd{"fault", "verif primitive needs a concrete " + what})
	}
	return s
}

func argInt(v Value, what string) int {
	i, ok := v.(Int)
	if !ok {
		panic(pathEnd{"fault", "verif primitive needs a concrete " + what})
	}
	return int(int64(i.v))
}

func (in *Interp) rangeConstraint(b *Term, ranges string) *Term {
	if ranges == "" {
		ranges = "\x20\x7e"
	}
	var ors []*Term
	for i := 0; i+1 < len(ranges); i += 2 {
		lo, hi := ranges[i], ranges[i+1]
		if lo == hi {
			ors = append(ors, mkEq(b, mkConst(uint64(lo), 8)))
		} else {
			ors = append(ors, mkAnd(mkBin(OULe, mkConst(uint64(lo), 8), b), mkBin(OULe, b, mkConst(uint64(hi), 8))))
		}
	}
	return mkOr(ors...)
}

func (in *Interp) symString(name string, n int, ranges string) (Value, []*Term) {
	bs := make([]*Term, n)
	for i := range bs {
		bs[i] = in.freshVar(fmt.Sprintf("%s_%d", name, i), 8)
		in.assume(in.rangeConstraint(bs[i], ranges))
	}
	return strFromBytes(bs), bs
}

func verifIntrinsic(in *Interp, fn *ssa.Function, args []Value, caller *frame, site ssa.Instruction) (Value, bool) {
	ps := in.ps
	switch fn.Name() {
	case "verifBool":
		name := argStr(args[0], "name")
		t := in.freshVar(name, 0)
		ps.trace = append(ps.trace, TraceEntry{Kind: "bool", Name: name, Terms: []*Term{t}})
		return Sym{t}, true
	case "verifInt64", "verifInt":
		name := argStr(args[0], "name")
		t := in.freshVar(name, 64)
		ps.trace = append(ps.trace, TraceEntry{Kind: "int", Name: name, Terms: []*Term{t}})
		return Sym{t}, true
	case "verifIntRange":
		name := argStr(args[0], "name")
		lo, hi := argInt(args[1], "lo"), argInt(args[2], "hi")
		t := in.freshVar(name, 64)
		in.assume(mkAnd(mkBin(OSLe, mkConst(uint64(int64(lo)), 64), t), mkBin(OSLe, t, mkConst(uint64(int64(hi)), 64))))
		ps.trace = append(ps.trace, TraceEntry{Kind: "int", Name: name, Terms: []*Term{t}})
		return Sym{t}, true
	case "verifByte":
		name := argStr(args[0], "name")
		t := in.freshVar(name, 8)
		ps.trace = append(ps.trace, TraceEntry{Kind: "int", Name: name, Terms: []*Term{t}})
		return Sym{t}, true
	case "verifStr":
		name := argStr(args[0], "name")
		maxLen := argInt(args[1], "maxLen")
		ranges := argStr(args[2], "ranges")
		n := in.choose(maxLen + 1)
		s, bs := in.symString(name, n, ranges)
		ps.trace = append(ps.trace, TraceEntry{Kind: "str", Name: name, Terms: bs})
		return s, true
	case "verifStrN":
		name := argStr(args[0], "name")
		n := argInt(args[1], "n")
		ranges := argStr(args[2], "ranges")
		s, bs := in.symString(name, n, ranges)
		ps.trace = append(ps.trace, TraceEntry{Kind: "str", Name: name, Terms: bs})
		return s, true
	case "verifPick":
		name := argStr(args[0], "name")
		sl := args[1].(Slice)
		alts := make([]string, sl.len)
		for i := range alts {
			alts[i] = argStr(*sl.at(i).slot(), "alternative")
		}
		if len(alts) == 0 {
			panic(pathEnd{"fault", "verifPick without alternatives"})
		}
		if len(alts) == 1 {
			ps.trace = append(ps.trace, TraceEntry{Kind: "pick", Name: name, Alts: alts, Terms: []*Term{mkConst(0, 8)}})
			return alts[0], true
		}
		sel := in.freshVar(name, 8)
		in.assume(mkBin(OULt, sel, mkConst(uint64(len(alts)), 8)))
		ps.trace = append(ps.trace, TraceEntry{Kind: "pick", Name: name, Alts: alts, Terms: []*Term{sel}})
		return &FD{sel: sel, alts: alts}, true
	case "verifChoice":
		name := argStr(args[0], "name")
		n := argInt(args[1], "n")
		k := in.choose(n)
		ps.trace = append(ps.trace, TraceEntry{Kind: "choice", Name: name, Val: k})
		return Int{uint64(k)}, true
	case "verifItoa":
		switch x := args[0].(type) {
		case Sym:
			return fmtIntStr(x.t, 10), true
		case Int:
			return fmt.Sprint(int64(x.v)), true
		}
	case "verifFtoa":
		// the shortest round-trip text of a float64 (strconv.FormatFloat(f, 'g', -1, 64)); the float must be given as
		// a bit pattern (math.Float64frombits of a solver variable) and be finite on this path
		switch x := args[0].(type) {
		case float64:
			return strconv.FormatFloat(x, 'g', -1, 64), true
		case SymF:
			bits, ok := mkFPBits(x.t)
			if !ok {
				unsup("verifFtoa of a computed float")
			}
			nonFinite := mkEq(mkExtract(bits, 62, 52), mkConst(0x7ff, 11))
			if in.decide(nonFinite) {
				unsup("verifFtoa of a float that may be NaN or infinite (assume it finite first)")
			}
			return fmtFloatStr(bits), true
		}
	case "verifShared":
		// run f watching for stores into state shared between evaluations (natively: f runs in two goroutines under the
		// race detector)
		in.watchShared++
		in.sharedSeen = nil
		if in.watchShared == 1 {
			in.sharedLimit = in.nextID // everything allocated so far is shared between the evaluations f stands for
		}
		func() {
			defer func() { in.watchShared-- }()
			in.call(args[0], nil, caller, site)
		}()
		return nil, true
	case "verifAssume":
		in.assume(toTerm(args[0], 0))
		return nil, true
	case "verifAssert":
		in.assertCond(toTerm(args[0], 0), argStr(args[1], "label"))
		return nil, true
	case "verifFail":
		in.assertCond(tFalse, argStr(args[0], "label"))
		return nil, true
	case "verifCover":
		ps.events = append(ps.events, Event{kind: "COVER", label: argStr(args[0], "label")})
		return nil, true
	case "verifObserve":
		ev := Event{kind: "OBS", label: argStr(args[0], "label")}
		if i, ok := args[1].(Iface); ok {
			ev.val, ev.typ = i.v, i.t
		} else {
			ev.val = args[1]
		}
		ps.events = append(ps.events, ev)
		return nil, true
	case "verifAnd":
		return symBool(mkAnd(toTerm(args[0], 0), toTerm(args[1], 0))), true
	case "verifOr":
		return symBool(mkOr(toTerm(args[0], 0), toTerm(args[1], 0))), true
	case "verifNot":
		return symBool(mkNot(toTerm(args[0], 0))), true
	case "verifImplies":
		return symBool(mkOr(mkNot(toTerm(args[0], 0)), toTerm(args[1], 0))), true
	case "verifIteInt":
		c := toTerm(args[0], 0)
		return symInt(mkIte(c, toTerm(args[1], 64), toTerm(args[2], 64)), true), true
	case "verifEqStr":
		return symBool(strEq(args[0], args[1])), true
	case "verifLessStr":
		return symBool(strLess(args[0], args[1])), true
	case "verifParam":
		name := argStr(args[0], "param name")
		def := argInt(args[1], "default")
		if v, ok := in.eng.cfg.Params[name]; ok {
			return Int{uint64(int64(v))}, true
		}
		return Int{uint64(int64(def))}, true
	case "verifConcreteInt":
		switch x := args[0].(type) {
		case Int:
			return x, true
		case Sym:
			lo, hi := argInt(args[1], "lo"), argInt(args[2], "hi")
			return Int{uint64(int64(in.concreteIntBounded(x, types.Typ[types.Int], lo, hi, "verifConcreteInt")))}, true
		}
	case "verifConcreteStr":
		switch x := args[0].(type) {
		case string:
			return x, true
		case *FD:
			return in.concretizeFD(x), true
		}
		unsup("verifConcreteStr on byte-symbolic string")
	case "verifConcreteBool":
		return in.decideVal(args[0]), true
	case "verifIsSymbolic":
		switch x := args[0].(type) {
		case Iface:
			switch x.v.(type) {
			case Sym, *SStr, *FD:
				return true, true
			}
			return false, true
		}
		return false, true
	case "verifSymbolicMode":
		return true, true
	}
	panic(pathEnd{"fault", "unknown verif primitive " + fn.Name()})
}

// assertCond checks pc ⇒ c; a feasible ¬c is recorded as a failure with its model.
func (in *Interp) assertCond(c *Term, label string) {
	ps := in.ps
	in.eng.countAssert(label)
	if c.isTrue() {
		return
	}
	neg := mkNot(c)
	var res string
	var m Model
	if c.isFalse() {
		res, m = "sat", in.finalModel()
		if m == nil {
			res = "unknown"
		}
	} else if len(ps.taken) >= len(ps.prefix) && ps.model != nil && evalTerm(neg, ps.model) != 0 {
		res, m = "sat", ps.model
	} else {
		res, m = in.check(neg)
	}
	switch res {
	case "sat":
		in.recordFailure("assert", label, "", m)
		if c.isFalse() {
			// false on every input of this path, so there is nothing to assume. When the failure is a recorded finding
			// execution goes on, as the native twin's does: the checks behind a recorded finding are still made. Any
			// other unconditional failure ends the path (it is reported anyway).
			if in.eng.knownLabel != nil && in.eng.knownLabel(in.eng.curHarness, label) && ps.unconditionalKnown < 20 {
				ps.unconditionalKnown++
				ps.events = append(ps.events, Event{kind: "ASSERTFAIL", label: label})
				return
			}
			panic(pathEnd{"failed", "assertion failed unconditionally: " + label})
		}
		// continue under the assumption that the assertion held
		in.assume(c)
	case "unknown":
		in.noteIncomplete("unknown", "solver returned unknown for assertion "+label)
		in.assume(c)
	default:
		// unsat: holds on this path; adding it to pc is sound and helps later queries stay small
	}
}

func (in *Interp) recordFailure(kind, label, msg string, m Model) {
	ps := in.ps
	f := Failure{Label: label, Kind: kind, Msg: msg, Model: m}
	f.Trace = in.concretizeTrace(m)
	f.Events = in.renderEvents(m)
	f.Prefix = append([]int32{}, ps.taken...)
	ps.failures = append(ps.failures, f)
}

func (in *Interp) concretizeTrace(m Model) []TraceEntry {
	out := make([]TraceEntry, len(in.ps.trace))
	for i, e := range in.ps.trace {
		c := TraceEntry{Kind: e.Kind, Name: e.Name}
		switch e.Kind {
		case "bool":
			c.Val = evalTerm(e.Terms[0], m) != 0
		case "int":
			c.Val = int64(sext64(evalTerm(e.Terms[0], m), e.Terms[0].w))
			if e.Terms[0].w == 8 {
				c.Val = int64(evalTerm(e.Terms[0], m))
			}
		case "str":
			b := make([]byte, len(e.Terms))
			for j, t := range e.Terms {
				b[j] = byte(evalTerm(t, m))
			}
			c.Val = bytesToJSON(b)
			c.Kind = "str"
		case "pick":
			k := int(evalTerm(e.Terms[0], m))
			if k >= len(e.Alts) {
				k = 0
			}
			c.Val = bytesToJSON([]byte(e.Alts[k]))
		case "choice":
			c.Val = e.Val
		}
		out[i] = c
	}
	return out
}

// bytesToJSON encodes arbitrary bytes as a list of ints so that traces survive JSON.
func bytesToJSON(b []byte) []int {
	out := make([]int, len(b))
	for i, c := range b {
		out[i] = int(c)
	}
	return out
}

func (in *Interp) renderEvents(m Model) []string {
	var out []string
	for _, e := range in.ps.events {
		switch e.kind {
		case "COVER":
			out = append(out, "COVER "+e.label)
		case "ASSERTFAIL":
			out = append(out, "ASSERTFAIL "+e.label)
		case "OBS":
			out = append(out, "OBS "+e.label+" "+in.renderValue(e.val, e.typ, m))
		}
	}
	return out
}

func (in *Interp) renderValue(v Value, t types.Type, m Model) string {
	switch x := v.(type) {
	case string, *SStr, *FD:
		return fmt.Sprintf("%q", evalStr(x, m))
	case bool:
		return fmt.Sprint(x)
	case Int:
		if t != nil && isInt(t) {
			if _, signed := width(t); !signed {
				return fmt.Sprint(x.v)
			}
		}
		return fmt.Sprint(int64(x.v))
	case Sym:
		u := evalTerm(x.t, m)
		if x.t.w == 0 {
			return fmt.Sprint(u != 0)
		}
		if t != nil && isInt(t) {
			if _, signed := width(t); !signed {
				return fmt.Sprint(u)
			}
		}
		return fmt.Sprint(sext64(u, x.t.w))
	case float64:
		return fmt.Sprint(x)
	case SymF:
		return fmt.Sprint(math.Float64frombits(evalTerm(x.t, m)))
	case nil:
		return "<nil>"
	case Iface:
		if x.t == nil {
			return "<nil>"
		}
		return in.renderValue(x.v, x.t, m)
	case Slice:
		// as fmt.Sprint renders a slice: elements separated by blanks, strings unquoted
		var et types.Type
		if t != nil {
			if st, ok := t.Underlying().(*types.Slice); ok {
				et = st.Elem()
			}
		}
		parts := make([]string, x.len)
		for i := 0; i < x.len; i++ {
			parts[i] = in.renderInner(x.at(i).load(), et, m)
		}
		return "[" + strings.Join(parts, " ") + "]"
	case *Array:
		var et types.Type
		if t != nil {
			if at, ok := t.Underlying().(*types.Array); ok {
				et = at.Elem()
			}
		}
		parts := make([]string, len(x.e))
		for i, e := range x.e {
			parts[i] = in.renderInner(e, et, m)
		}
		return "[" + strings.Join(parts, " ") + "]"
	case *Struct:
		st, _ := t.Underlying().(*types.Struct)
		parts := make([]string, len(x.f))
		for i, f := range x.f {
			var ft types.Type
			if st != nil {
				ft = st.Field(i).Type()
			}
			parts[i] = in.renderInner(f, ft, m)
		}
		return "{" + strings.Join(parts, " ") + "}"
	}
	return fmt.Sprintf("<%T>", v)
}

// renderInner: an element inside a composite (fmt prints strings there without quotes)
func (in *Interp) renderInner(v Value, t types.Type, m Model) string {
	if i, ok := v.(Iface); ok {
		if i.t == nil {
			return "<nil>"
		}
		v, t = i.v, i.t
	}
	switch x := v.(type) {
	case string, *SStr, *FD:
		return evalStr(x, m)
	}
	return in.renderValue(v, t, m)
}
