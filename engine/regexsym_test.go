package main

import (
	"math/rand"
	"regexp"
	"testing"
)

// The symbolic NFA must agree with package regexp on concrete ASCII inputs (all terms constant-fold).
func TestRegexSymAgreesWithRegexp(t *testing.T) {
	pats := []string{`[^\w@%+=:,./-]`, `^\s*#`, `^\$yqDocSeparator\$`, `(?i)^(y|yes|n|no|on|off)$`, `\.[a-zA-Z0-9]+$`, `.*\(([0-9]+)\)`,
		`^[ \t]*---`, `a*b+c?`, `(ab|cd)*e`, `\bfoo\b`, `^$`, `x{2,3}`, `[0-9]+(\.[0-9]+)?`, `(?m)^b`, `a.c`, `^---( |$)`}
	rng := rand.New(rand.NewSource(1))
	alpha := []byte("ab#$ \n\tyYeEsS-.()019_cdofx:/@'\\")
	in := &Interp{}
	for _, p := range pats {
		re := regexp.MustCompile(p)
		for i := 0; i < 3000; i++ {
			n := rng.Intn(7)
			b := make([]byte, n)
			for j := range b {
				b[j] = alpha[rng.Intn(len(alpha))]
			}
			s := string(b)
			got := in.regexMatchSym(re, s)
			gb, ok := got.(bool)
			if !ok {
				t.Fatalf("pattern %q input %q: result not constant: %v", p, s, got)
			}
			if gb != re.MatchString(s) {
				t.Fatalf("pattern %q input %q: symbolic NFA says %v, regexp says %v", p, s, gb, re.MatchString(s))
			}
		}
	}
}
