package main

import (
	"regexp"
	"regexp/syntax"
)

// Symbolic regular-expression matching: the real pattern is compiled with regexp/syntax and its
// Thompson NFA is simulated over the byte terms of the input (one Bool term per program counter and
// input position; no forking). Symbolic bytes must be ASCII (forked/required per byte).

func (in *Interp) regexMatchSym(reAny any, s Value) Value {
	re := reAny.(*regexp.Regexp)
	if fd, ok := s.(*FD); ok {
		return symBool(fdMapBool(fd, func(a string) bool { return re.MatchString(a) }))
	}
	bs, ok := strBytes(s)
	if !ok {
		unsup("regexp match on string with atoms")
	}
	for _, b := range bs {
		if !b.isConst() {
			in.requireASCII(b)
		} else if b.c >= 0x80 {
			unsup("regexp match on mixed symbolic / non-ASCII input")
		}
	}
	parsed, err := syntax.Parse(re.String(), syntax.Perl)
	if err != nil {
		unsup("regexp/syntax cannot parse %q", re.String())
	}
	prog, err := syntax.Compile(parsed.Simplify())
	if err != nil {
		unsup("regexp/syntax cannot compile %q", re.String())
	}
	n := len(bs)
	runeCond := func(inst *syntax.Inst, b *Term) *Term {
		return rangesTerm(b, func(c int) bool { return inst.MatchRune(rune(c)) })
	}
	isWord := func(b *Term) *Term {
		return rangesTerm(b, func(c int) bool {
			return c == '_' || (c >= '0' && c <= '9') || (c >= 'a' && c <= 'z') || (c >= 'A' && c <= 'Z')
		})
	}
	// emptyCond: condition under which the zero-width assertion op holds at position pos
	emptyCond := func(op syntax.EmptyOp, pos int) *Term {
		c := tTrue
		if op&syntax.EmptyBeginText != 0 && pos != 0 {
			return tFalse
		}
		if op&syntax.EmptyEndText != 0 && pos != n {
			return tFalse
		}
		if op&syntax.EmptyBeginLine != 0 && pos != 0 {
			c = mkAnd(c, mkEq(bs[pos-1], mkConst('\n', 8)))
		}
		if op&syntax.EmptyEndLine != 0 && pos != n {
			c = mkAnd(c, mkEq(bs[pos], mkConst('\n', 8)))
		}
		if op&(syntax.EmptyWordBoundary|syntax.EmptyNoWordBoundary) != 0 {
			before, after := tFalse, tFalse
			if pos > 0 {
				before = isWord(bs[pos-1])
			}
			if pos < n {
				after = isWord(bs[pos])
			}
			boundary := mkNot(mkEq(before, after))
			if op&syntax.EmptyWordBoundary != 0 {
				c = mkAnd(c, boundary)
			}
			if op&syntax.EmptyNoWordBoundary != 0 {
				c = mkAnd(c, mkNot(boundary))
			}
		}
		return c
	}
	np := len(prog.Inst)
	matched := tFalse
	// active[pc] at the current position, before epsilon closure
	active := make([]*Term, np)
	for i := range active {
		active[i] = tFalse
	}
	for pos := 0; pos <= n; pos++ {
		// unanchored search: a new thread may start at every position
		active[prog.Start] = tTrue
		// epsilon closure: closed_{k+1}[to] = active[to] OR OR_{pc -eps-> to}(closed_k[pc] AND cond);
		// recomputed per round so terms do not accumulate; np rounds cover every epsilon path
		closed := make([]*Term, np)
		copy(closed, active)
		for iter := 0; iter < np+1; iter++ {
			nxt := make([]*Term, np)
			copy(nxt, active)
			for pc := 0; pc < np; pc++ {
				a := closed[pc]
				if a.isFalse() {
					continue
				}
				inst := &prog.Inst[pc]
				switch inst.Op {
				case syntax.InstAlt, syntax.InstAltMatch:
					nxt[inst.Out] = mkOr(nxt[inst.Out], a)
					nxt[inst.Arg] = mkOr(nxt[inst.Arg], a)
				case syntax.InstCapture, syntax.InstNop:
					nxt[inst.Out] = mkOr(nxt[inst.Out], a)
				case syntax.InstEmptyWidth:
					nxt[inst.Out] = mkOr(nxt[inst.Out], mkAnd(a, emptyCond(syntax.EmptyOp(inst.Arg), pos)))
				}
			}
			same := true
			for pc := 0; pc < np; pc++ {
				if nxt[pc] != closed[pc] && !(nxt[pc].isConst() && closed[pc].isConst() && nxt[pc].c == closed[pc].c) {
					if k1, k2 := termKey(nxt[pc]), termKey(closed[pc]); k1 == "" || k1 != k2 {
						same = false
					}
				}
			}
			closed = nxt
			if same {
				break
			}
		}
		for pc := 0; pc < np; pc++ {
			if prog.Inst[pc].Op == syntax.InstMatch {
				matched = mkOr(matched, closed[pc])
			}
		}
		if pos == n {
			break
		}
		next := make([]*Term, np)
		for i := range next {
			next[i] = tFalse
		}
		for pc := 0; pc < np; pc++ {
			a := closed[pc]
			if a.isFalse() {
				continue
			}
			inst := &prog.Inst[pc]
			switch inst.Op {
			case syntax.InstRune, syntax.InstRune1, syntax.InstRuneAny, syntax.InstRuneAnyNotNL:
				next[inst.Out] = mkOr(next[inst.Out], mkAnd(a, runeCond(inst, bs[pos])))
			}
		}
		active = next
	}
	return symBool(matched)
}
