package main

import (
	"fmt"
	"math"
	"strings"
)

// Term is an SMT term over Bool (w==0) and fixed-width bit-vectors (w>0).
// Terms are immutable DAGs built by the constructor functions below, which
// constant-fold and apply a few local simplifications.
type Op uint8

const (
	OConst Op = iota
	OVar
	ONot
	OAnd
	OOr
	OEq
	OIte
	OAdd
	OSub
	OMul
	OUDiv
	OURem
	OSDiv
	OSRem
	OBAnd
	OBOr
	OBXor
	OShl
	OLShr
	OAShr
	OULt
	OULe
	OSLt
	OSLe
	OExtract // c=lo, hi
	OZExt    // c=extra bits
	OSExt
	OConcat
	// IEEE-754 binary64 fragment. Terms of floating-point sort have w == wFP; they only occur as operands of the
	// operators below (floats enter the encoding as 64-bit patterns or as converted integers, never as variables).
	OFPOfBits // BV64 -> FP (reinterpretation)
	OFPOfSInt // signed BV -> FP, round to nearest even (Go's float64(int64))
	OFPOfUInt // unsigned BV -> FP, round to nearest even
	OFPToSInt // FP -> signed BV64, round toward zero (defined by the caller's range guard)
	OFPAdd
	OFPSub
	OFPMul
	OFPDiv
	OFPNeg
	OFPLt // -> Bool
	OFPLe // -> Bool
	OFPEq // -> Bool (IEEE equality: NaN differs from everything, +0 == -0)
	OFPIsNaN
	OFPTrunc // FP -> FP, round to integral toward zero (math.Trunc)
	OFPFloor // toward negative infinity (math.Floor)
	OFPCeil  // toward positive infinity (math.Ceil)
)

// wFP marks a term of sort (_ FloatingPoint 11 53).
const wFP = -1

var opNames = [...]string{"const", "var", "not", "and", "or", "=", "ite", "bvadd", "bvsub", "bvmul",
	"bvudiv", "bvurem", "bvsdiv", "bvsrem", "bvand", "bvor", "bvxor", "bvshl", "bvlshr", "bvashr",
	"bvult", "bvule", "bvslt", "bvsle", "extract", "zero_extend", "sign_extend", "concat",
	"(_ to_fp 11 53)", "(_ to_fp 11 53) RNE", "(_ to_fp_unsigned 11 53) RNE", "(_ fp.to_sbv 64) RTZ",
	"fp.add RNE", "fp.sub RNE", "fp.mul RNE", "fp.div RNE", "fp.neg", "fp.lt", "fp.leq", "fp.eq", "fp.isNaN",
	"fp.roundToIntegral RTZ", "fp.roundToIntegral RTN", "fp.roundToIntegral RTP"}

type Term struct {
	op   Op
	w    int
	a    []*Term
	c    uint64
	hi   int
	name string
	// solver-session naming
	sess int
	id   int
}

var tTrue = &Term{op: OConst, w: 0, c: 1}
var tFalse = &Term{op: OConst, w: 0, c: 0}

func mask(w int) uint64 {
	if w >= 64 {
		return ^uint64(0)
	}
	return uint64(1)<<uint(w) - 1
}

func mkBool(b bool) *Term {
	if b {
		return tTrue
	}
	return tFalse
}

func mkConst(v uint64, w int) *Term {
	if w == 0 {
		return mkBool(v != 0)
	}
	return &Term{op: OConst, w: w, c: v & mask(w)}
}

func mkVar(name string, w int) *Term { return &Term{op: OVar, w: w, name: name} }

func (t *Term) isConst() bool { return t.op == OConst }
func (t *Term) isTrue() bool  { return t.op == OConst && t.w == 0 && t.c == 1 }
func (t *Term) isFalse() bool { return t.op == OConst && t.w == 0 && t.c == 0 }

func sext64(v uint64, w int) int64 {
	if w >= 64 {
		return int64(v)
	}
	if v&(1<<uint(w-1)) != 0 {
		return int64(v | ^mask(w))
	}
	return int64(v)
}

func mkNot(a *Term) *Term {
	if a.isConst() {
		return mkBool(a.c == 0)
	}
	if a.op == ONot {
		return a.a[0]
	}
	return &Term{op: ONot, a: []*Term{a}}
}

func mkAnd(xs ...*Term) *Term {
	var out []*Term
	for _, x := range xs {
		if x.isFalse() {
			return tFalse
		}
		if x.isTrue() {
			continue
		}
		if x.op == OAnd {
			out = append(out, x.a...)
			continue
		}
		out = append(out, x)
	}
	switch len(out) {
	case 0:
		return tTrue
	case 1:
		return out[0]
	}
	return &Term{op: OAnd, a: out}
}

func mkOr(xs ...*Term) *Term {
	var out []*Term
	for _, x := range xs {
		if x.isTrue() {
			return tTrue
		}
		if x.isFalse() {
			continue
		}
		if x.op == OOr {
			out = append(out, x.a...)
			continue
		}
		out = append(out, x)
	}
	switch len(out) {
	case 0:
		return tFalse
	case 1:
		return out[0]
	}
	return &Term{op: OOr, a: out}
}

func mkEq(a, b *Term) *Term {
	if a.w != b.w {
		panic(fmt.Sprintf("mkEq width mismatch %d vs %d", a.w, b.w))
	}
	if a == b {
		return tTrue
	}
	if a.isConst() && b.isConst() {
		return mkBool(a.c == b.c)
	}
	if a.w == 0 {
		if a.isConst() {
			a, b = b, a
		}
		if b.isTrue() {
			return a
		}
		if b.isFalse() {
			return mkNot(a)
		}
	}
	if a.op == OVar && b.op == OVar && a.name == b.name {
		return tTrue
	}
	// (ite c k1 k2) == k  with constants
	if b.isConst() && a.op == OIte && a.a[1].isConst() && a.a[2].isConst() {
		t1, t2 := a.a[1].c == b.c, a.a[2].c == b.c
		switch {
		case t1 && t2:
			return tTrue
		case t1:
			return a.a[0]
		case t2:
			return mkNot(a.a[0])
		default:
			return tFalse
		}
	}
	return &Term{op: OEq, a: []*Term{a, b}}
}

func mkIte(c, a, b *Term) *Term {
	if a.w != b.w {
		panic("mkIte width mismatch")
	}
	if c.isConst() {
		if c.c != 0 {
			return a
		}
		return b
	}
	if a == b {
		return a
	}
	if a.isConst() && b.isConst() && a.c == b.c {
		return a
	}
	if a.w == 0 {
		if a.isTrue() && b.isFalse() {
			return c
		}
		if a.isFalse() && b.isTrue() {
			return mkNot(c)
		}
		if a.isTrue() {
			return mkOr(c, b)
		}
		if b.isFalse() {
			return mkAnd(c, a)
		}
		if a.isFalse() {
			return mkAnd(mkNot(c), b)
		}
		if b.isTrue() {
			return mkOr(mkNot(c), a)
		}
	}
	return &Term{op: OIte, w: a.w, a: []*Term{c, a, b}}
}

func foldBin(op Op, w int, x, y uint64) (uint64, bool) {
	m := mask(w)
	switch op {
	case OAdd:
		return (x + y) & m, true
	case OSub:
		return (x - y) & m, true
	case OMul:
		return (x * y) & m, true
	case OUDiv:
		if y == 0 {
			return m, true
		}
		return x / y, true
	case OURem:
		if y == 0 {
			return x, true
		}
		return x % y, true
	case OSDiv:
		sx, sy := sext64(x, w), sext64(y, w)
		if sy == 0 {
			if sx < 0 {
				return 1, true
			}
			return m, true
		}
		if sy == -1 {
			return uint64(-sx) & m, true
		}
		return uint64(sx/sy) & m, true
	case OSRem:
		sx, sy := sext64(x, w), sext64(y, w)
		if sy == 0 {
			return x, true
		}
		if sy == -1 {
			return 0, true
		}
		return uint64(sx%sy) & m, true
	case OBAnd:
		return x & y, true
	case OBOr:
		return x | y, true
	case OBXor:
		return x ^ y, true
	case OShl:
		if y >= uint64(w) {
			return 0, true
		}
		return (x << y) & m, true
	case OLShr:
		if y >= uint64(w) {
			return 0, true
		}
		return x >> y, true
	case OAShr:
		sx := sext64(x, w)
		if y >= uint64(w) {
			y = uint64(w - 1)
		}
		return uint64(sx>>y) & m, true
	case OULt:
		return b2u(x < y), true
	case OULe:
		return b2u(x <= y), true
	case OSLt:
		return b2u(sext64(x, w) < sext64(y, w)), true
	case OSLe:
		return b2u(sext64(x, w) <= sext64(y, w)), true
	}
	return 0, false
}

func b2u(b bool) uint64 {
	if b {
		return 1
	}
	return 0
}

func mkBin(op Op, a, b *Term) *Term {
	if a.w != b.w || a.w == 0 {
		panic(fmt.Sprintf("mkBin %s widths %d %d", opNames[op], a.w, b.w))
	}
	rw := a.w
	if op >= OULt && op <= OSLe {
		rw = 0
	}
	if a.isConst() && b.isConst() {
		v, _ := foldBin(op, a.w, a.c, b.c)
		return mkConst(v, rw)
	}
	switch op {
	case OAdd:
		if a.isConst() && a.c == 0 {
			return b
		}
		if b.isConst() && b.c == 0 {
			return a
		}
	case OSub:
		if b.isConst() && b.c == 0 {
			return a
		}
		if a == b {
			return mkConst(0, rw)
		}
	case OMul:
		if a.isConst() && a.c == 1 {
			return b
		}
		if b.isConst() && b.c == 1 {
			return a
		}
		if (a.isConst() && a.c == 0) || (b.isConst() && b.c == 0) {
			return mkConst(0, rw)
		}
	case OBAnd:
		if (a.isConst() && a.c == 0) || (b.isConst() && b.c == 0) {
			return mkConst(0, rw)
		}
	case OBOr, OBXor:
		if a.isConst() && a.c == 0 {
			return b
		}
		if b.isConst() && b.c == 0 {
			return a
		}
	case OULt, OSLt:
		if a == b {
			return tFalse
		}
	case OULe, OSLe:
		if a == b {
			return tTrue
		}
	}
	return &Term{op: op, w: rw, a: []*Term{a, b}}
}

func mkExtract(a *Term, hi, lo int) *Term {
	if lo == 0 && hi == a.w-1 {
		return a
	}
	w := hi - lo + 1
	if a.isConst() {
		return mkConst(a.c>>uint(lo), w)
	}
	if (a.op == OZExt || a.op == OSExt) && lo == 0 && w <= a.a[0].w {
		return mkExtract(a.a[0], hi, 0)
	}
	return &Term{op: OExtract, w: w, a: []*Term{a}, c: uint64(lo), hi: hi}
}

func mkZExt(a *Term, to int) *Term {
	if to == a.w {
		return a
	}
	if a.isConst() {
		return mkConst(a.c, to)
	}
	return &Term{op: OZExt, w: to, a: []*Term{a}, c: uint64(to - a.w)}
}

func mkSExt(a *Term, to int) *Term {
	if to == a.w {
		return a
	}
	if a.isConst() {
		return mkConst(uint64(sext64(a.c, a.w)), to)
	}
	return &Term{op: OSExt, w: to, a: []*Term{a}, c: uint64(to - a.w)}
}

// resize converts a bit-vector term between widths with Go conversion semantics.
func mkResize(a *Term, to int, signedFrom bool) *Term {
	switch {
	case to == a.w:
		return a
	case to < a.w:
		return mkExtract(a, to-1, 0)
	case signedFrom:
		return mkSExt(a, to)
	default:
		return mkZExt(a, to)
	}
}

// ---- evaluation under a model ----

type Model map[string]uint64

func (t *Term) eval(m Model, memo map[*Term]uint64) uint64 {
	switch t.op {
	case OConst:
		return t.c
	case OVar:
		return m[t.name] & mask1(t.w)
	}
	if v, ok := memo[t]; ok {
		return v
	}
	var r uint64
	switch t.op {
	case ONot:
		r = 1 - t.a[0].eval(m, memo)
	case OAnd:
		r = 1
		for _, x := range t.a {
			if x.eval(m, memo) == 0 {
				r = 0
				break
			}
		}
	case OOr:
		r = 0
		for _, x := range t.a {
			if x.eval(m, memo) != 0 {
				r = 1
				break
			}
		}
	case OEq:
		r = b2u(t.a[0].eval(m, memo) == t.a[1].eval(m, memo))
	case OIte:
		if t.a[0].eval(m, memo) != 0 {
			r = t.a[1].eval(m, memo)
		} else {
			r = t.a[2].eval(m, memo)
		}
	case OExtract:
		r = (t.a[0].eval(m, memo) >> t.c) & mask(t.w)
	case OZExt:
		r = t.a[0].eval(m, memo)
	case OSExt:
		r = uint64(sext64(t.a[0].eval(m, memo), t.a[0].w)) & mask(t.w)
	case OConcat:
		r = (t.a[0].eval(m, memo)<<uint(t.a[1].w) | t.a[1].eval(m, memo)) & mask(t.w)
	case OFPOfBits:
		r = t.a[0].eval(m, memo)
	case OFPOfSInt:
		r = math.Float64bits(float64(sext64(t.a[0].eval(m, memo), t.a[0].w)))
	case OFPOfUInt:
		r = math.Float64bits(float64(t.a[0].eval(m, memo)))
	case OFPToSInt:
		r = uint64(int64(math.Float64frombits(t.a[0].eval(m, memo))))
	case OFPAdd, OFPSub, OFPMul, OFPDiv:
		x, y := math.Float64frombits(t.a[0].eval(m, memo)), math.Float64frombits(t.a[1].eval(m, memo))
		var z float64
		switch t.op {
		case OFPAdd:
			z = x + y
		case OFPSub:
			z = x - y
		case OFPMul:
			z = x * y
		default:
			z = x / y
		}
		r = math.Float64bits(z)
	case OFPNeg:
		r = t.a[0].eval(m, memo) ^ (1 << 63)
	case OFPLt, OFPLe, OFPEq:
		x, y := math.Float64frombits(t.a[0].eval(m, memo)), math.Float64frombits(t.a[1].eval(m, memo))
		switch t.op {
		case OFPLt:
			r = b2u(x < y)
		case OFPLe:
			r = b2u(x <= y)
		default:
			r = b2u(x == y)
		}
	case OFPIsNaN:
		x := math.Float64frombits(t.a[0].eval(m, memo))
		r = b2u(x != x)
	case OFPTrunc:
		r = math.Float64bits(math.Trunc(math.Float64frombits(t.a[0].eval(m, memo))))
	case OFPFloor:
		r = math.Float64bits(math.Floor(math.Float64frombits(t.a[0].eval(m, memo))))
	case OFPCeil:
		r = math.Float64bits(math.Ceil(math.Float64frombits(t.a[0].eval(m, memo))))
	default:
		r, _ = foldBin(t.op, t.a[0].w, t.a[0].eval(m, memo), t.a[1].eval(m, memo))
	}
	memo[t] = r
	return r
}

func mask1(w int) uint64 {
	if w == 0 {
		return 1
	}
	return mask(w)
}

func evalTerm(t *Term, m Model) uint64 { return t.eval(m, map[*Term]uint64{}) }

// ---- rendering ----

func sortOf(w int) string {
	if w == 0 {
		return "Bool"
	}
	if w == wFP {
		return "(_ FloatingPoint 11 53)"
	}
	return fmt.Sprintf("(_ BitVec %d)", w)
}

func constLit(c uint64, w int) string {
	if w == 0 {
		if c != 0 {
			return "true"
		}
		return "false"
	}
	if w%4 == 0 {
		return fmt.Sprintf("#x%0*x", w/4, c)
	}
	return fmt.Sprintf("#b%0*b", w, c)
}

// String renders the term fully inline (debugging / small terms only).
func (t *Term) String() string {
	var sb strings.Builder
	t.render(&sb, func(x *Term) string { return "" })
	return sb.String()
}

func (t *Term) render(sb *strings.Builder, named func(*Term) string) {
	switch t.op {
	case OConst:
		sb.WriteString(constLit(t.c, t.w))
		return
	case OVar:
		sb.WriteString(t.name)
		return
	}
	sb.WriteString("(")
	switch t.op {
	case OExtract:
		fmt.Fprintf(sb, "(_ extract %d %d)", t.hi, t.c)
	case OZExt:
		fmt.Fprintf(sb, "(_ zero_extend %d)", t.c)
	case OSExt:
		fmt.Fprintf(sb, "(_ sign_extend %d)", t.c)
	default:
		sb.WriteString(opNames[t.op])
	}
	for _, x := range t.a {
		sb.WriteString(" ")
		if n := named(x); n != "" {
			sb.WriteString(n)
		} else {
			x.render(sb, named)
		}
	}
	sb.WriteString(")")
}

func (t *Term) collectVars(seen map[*Term]bool, out map[string]int) {
	if t.op == OVar {
		out[t.name] = t.w
		return
	}
	if t.op == OConst || seen[t] {
		return
	}
	seen[t] = true
	for _, x := range t.a {
		x.collectVars(seen, out)
	}
}

// ---- floating point constructors ----

func isFPTerm(t *Term) bool { return t.w == wFP }

func mkFPOfBits(bits *Term) *Term {
	if bits.w != 64 {
		panic("mkFPOfBits: width")
	}
	return &Term{op: OFPOfBits, w: wFP, a: []*Term{bits}}
}

func mkFPConst(f float64) *Term { return mkFPOfBits(mkConst(math.Float64bits(f), 64)) }

// fpConstOf returns the value of a floating-point term that is a constant.
func fpConstOf(t *Term) (float64, bool) {
	if t.op == OFPOfBits && t.a[0].isConst() {
		return math.Float64frombits(t.a[0].c), true
	}
	return 0, false
}

func mkFPOfInt(a *Term, signed bool) *Term {
	if a.isConst() {
		if signed {
			return mkFPConst(float64(sext64(a.c, a.w)))
		}
		return mkFPConst(float64(a.c))
	}
	op := OFPOfUInt
	if signed {
		op = OFPOfSInt
	}
	return &Term{op: op, w: wFP, a: []*Term{a}}
}

// mkFPToInt64 is Go's int64(f) on amd64: truncation toward zero inside the int64 range, MinInt64 (the "integer
// indefinite" value) for NaN and everything outside it.
func mkFPToInt64(f *Term) *Term {
	if c, ok := fpConstOf(f); ok {
		return mkConst(uint64(int64(c)), 64)
	}
	inRange := mkAnd(mkFPCmp(OFPLe, mkFPConst(-9223372036854775808.0), f), mkFPCmp(OFPLt, f, mkFPConst(9223372036854775808.0)))
	return mkIte(inRange, &Term{op: OFPToSInt, w: 64, a: []*Term{f}}, mkConst(1<<63, 64))
}

func mkFPArith(op Op, a, b *Term) *Term {
	if x, ok := fpConstOf(a); ok {
		if y, ok := fpConstOf(b); ok {
			switch op {
			case OFPAdd:
				return mkFPConst(x + y)
			case OFPSub:
				return mkFPConst(x - y)
			case OFPMul:
				return mkFPConst(x * y)
			case OFPDiv:
				return mkFPConst(x / y)
			}
		}
	}
	return &Term{op: op, w: wFP, a: []*Term{a, b}}
}

func mkFPRound(op Op, a *Term) *Term {
	if x, ok := fpConstOf(a); ok {
		switch op {
		case OFPTrunc:
			return mkFPConst(math.Trunc(x))
		case OFPFloor:
			return mkFPConst(math.Floor(x))
		case OFPCeil:
			return mkFPConst(math.Ceil(x))
		}
	}
	return &Term{op: op, w: wFP, a: []*Term{a}}
}

func mkFPNeg(a *Term) *Term {
	if x, ok := fpConstOf(a); ok {
		return mkFPConst(-x)
	}
	return &Term{op: OFPNeg, w: wFP, a: []*Term{a}}
}

func mkFPCmp(op Op, a, b *Term) *Term {
	if x, ok := fpConstOf(a); ok {
		if y, ok := fpConstOf(b); ok {
			switch op {
			case OFPLt:
				return mkBool(x < y)
			case OFPLe:
				return mkBool(x <= y)
			case OFPEq:
				return mkBool(x == y)
			}
		}
	}
	return &Term{op: op, w: 0, a: []*Term{a, b}}
}

func mkFPIsNaN(a *Term) *Term {
	if x, ok := fpConstOf(a); ok {
		return mkBool(x != x)
	}
	return &Term{op: OFPIsNaN, w: 0, a: []*Term{a}}
}

// mkFPBits is math.Float64bits; only defined here for terms that came from a bit pattern (NaN payloads are not
// determined by IEEE arithmetic).
func mkFPBits(f *Term) (*Term, bool) {
	if f.op == OFPOfBits {
		return f.a[0], true
	}
	return nil, false
}

// hasFP reports whether the term DAG uses the floating-point fragment.
func hasFP(t *Term, seen map[*Term]bool) bool {
	if t.op >= OFPOfBits {
		return true
	}
	if t.op == OConst || t.op == OVar || seen[t] {
		return false
	}
	seen[t] = true
	for _, x := range t.a {
		if hasFP(x, seen) {
			return true
		}
	}
	return false
}
