package main

import (
	"fmt"
	"go/types"
	"math/rand"
	"os"
	"path/filepath"
	"regexp"
	"sort"
	"strings"
	"sync"
	"time"

	"golang.org/x/tools/go/packages"
	"golang.org/x/tools/go/ssa"
	"golang.org/x/tools/go/ssa/ssautil"
)

type Config struct {
	Repo       string
	HarnessDir string
	Tier       string
	Seed       int64
	Params     map[string]int
	Solver     string
	TimeoutMs  int
	MaxSteps   int
	Logic      string
	MaxBack    int
	Workers    int
	MaxPaths   int
	Samples    int
	Rewrites   map[string][][2]string
	Trace      bool
	Verbose    bool
}

type Engine struct {
	// knownLabel tells whether an assertion label of a harness is a recorded finding (known_findings.json)
	knownLabel   func(harness, label string) bool
	curHarness   string
	cfg          Config
	prog         *ssa.Program
	yq, cmd      *ssa.Package
	yqPath       string
	inInit       bool
	cmdPath      string
	replacements map[string]*ssa.Function
	errorStringT types.Type
	wrapErrorT   types.Type
	interpSet    map[string]bool
	bodyOKSet    map[string]bool

	snapGlobals map[*ssa.Global]*Object
	snapNatives map[string]*Object
	snapNextID  int
	initSteps   int

	mu         sync.Mutex
	incomplete map[string]map[string]int // kind -> msg -> count
	asserts    map[string]int
	funcSteps  map[string]int
	loadTime   time.Duration
	methodMu   sync.Mutex
	methodMemo map[methodKey]*ssa.Function
}

type methodKey struct {
	t    types.Type
	name string
	pkg  *types.Package
}

var defaultInterp = []string{
	"io", "strconv", "container/list", "sort", "strings", "bytes", "bufio", "unicode/utf8", "slices", "maps", "cmp",
	"github.com/elliotchance/orderedmap", "encoding/csv", "encoding/xml", "encoding", "net/url", "github.com/magiconair/properties", "github.com/dimchansky/utfbom", "io/fs", "path", "math/bits", "math", "encoding/base64", "encoding/binary",
	"github.com/yuin/gopher-lua", // only its table type is reached (LTable.RawSet*/Next under decoder_lua.go's convertToYamlNode); the VM is not
	"gopkg.in/yaml.v3", // scanner, parser and node builder run as SSA when the text is symbolic (yamlnative.go); concrete text goes to the linked library
}

var defaultBodyOK = []string{
	"errors", "internal/abi", "internal/bytealg", "sync", "sync/atomic", "internal/itoa", "internal/stringslite",
	"unicode", "internal/byteorder", "iter", "internal/oserror", "unsafe",
}

func (e *Engine) interpPkg(path string) bool { return e.interpSet[path] }

func (e *Engine) noteIncomplete(kind, msg string) {
	e.mu.Lock()
	defer e.mu.Unlock()
	if e.incomplete[kind] == nil {
		e.incomplete[kind] = map[string]int{}
	}
	e.incomplete[kind][msg]++
}

func (e *Engine) countAssert(label string) {
	e.mu.Lock()
	e.asserts[label]++
	e.mu.Unlock()
}

func (e *Engine) lookupMethod(t types.Type, m *types.Func) *ssa.Function {
	k := methodKey{t, m.Name(), m.Pkg()}
	e.methodMu.Lock()
	defer e.methodMu.Unlock()
	if f, ok := e.methodMemo[k]; ok {
		return f
	}
	f := e.prog.LookupMethod(t, m.Pkg(), m.Name())
	e.methodMemo[k] = f
	return f
}

var replaceDirective = regexp.MustCompile(`(?m)^//verif:replace\s+(\S+)\s+(\S+)\s*$`)

type harnessFiles struct {
	rewritten  map[string][]byte // repo file -> mechanically rewritten source (both views)
	overlay    map[string][]byte // virtual path -> content (SSA view)
	nativeRepl map[string]string // virtual path -> real path (native replay view)
	directives [][2]string
	pkgs       map[string]bool
}

// collectHarness maps /verif/harness/<pkg>/*.go into the repo package directories.
// *_sym.go: SSA view only; *_native.go and *_test.go: native replay only; others: both.
func collectHarness(cfg Config) (*harnessFiles, error) {
	hf := &harnessFiles{overlay: map[string][]byte{}, nativeRepl: map[string]string{}, pkgs: map[string]bool{}, rewritten: map[string][]byte{}}
	// source rewrites: the repository's own file, read from the current tree, with call sites of the
	// environment (os.*, io.Copy, ...) mechanically redirected to harness functions
	for rel, rules := range cfg.Rewrites {
		path := filepath.Join(cfg.Repo, rel)
		data, err := os.ReadFile(path)
		if err != nil {
			return nil, fmt.Errorf("rewrite: %v", err)
		}
		src := string(data)
		for _, r := range rules {
			re, err := regexp.Compile(r[0])
			if err != nil {
				return nil, fmt.Errorf("rewrite rule %q: %v", r[0], err)
			}
			src = re.ReplaceAllString(src, r[1])
		}
		hf.rewritten[path] = []byte(src)
		hf.overlay[path] = []byte(src)
	}
	targets := map[string]string{"yqlib": filepath.Join(cfg.Repo, "pkg/yqlib"), "cmd": filepath.Join(cfg.Repo, "cmd")}
	for sub, dst := range targets {
		files, _ := filepath.Glob(filepath.Join(cfg.HarnessDir, sub, "*.go"))
		sort.Strings(files)
		for _, f := range files {
			base := filepath.Base(f)
			virt := filepath.Join(dst, "zz_verif_"+base)
			data, err := os.ReadFile(f)
			if err != nil {
				return nil, err
			}
			isNative := strings.HasSuffix(base, "_native.go") || strings.HasSuffix(base, "_test.go")
			isSym := strings.HasSuffix(base, "_sym.go")
			if !isNative {
				hf.overlay[virt] = data
				hf.pkgs[sub] = true
				for _, m := range replaceDirective.FindAllStringSubmatch(string(data), -1) {
					hf.directives = append(hf.directives, [2]string{m[1], m[2]})
				}
			}
			if !isSym {
				hf.nativeRepl[virt] = f
			}
		}
	}
	return hf, nil
}

func loadEngine(cfg Config) (*Engine, *harnessFiles, error) {
	t0 := time.Now()
	hf, err := collectHarness(cfg)
	if err != nil {
		return nil, nil, err
	}
	pcfg := &packages.Config{Mode: packages.LoadAllSyntax, Dir: cfg.Repo, Overlay: hf.overlay,
		Env: append(os.Environ(), "GOFLAGS=-mod=mod", "GOPROXY=off", "GOSUMDB=off", "GOTOOLCHAIN=local")}
	pkgs, err := packages.Load(pcfg, "./pkg/yqlib", "./cmd")
	if err != nil {
		return nil, nil, err
	}
	nerr := 0
	packages.Visit(pkgs, nil, func(p *packages.Package) {
		for _, e := range p.Errors {
			fmt.Fprintln(os.Stderr, "load error:", e)
			nerr++
		}
	})
	if nerr > 0 {
		return nil, nil, fmt.Errorf("harness does not compile against %s (%d errors)", cfg.Repo, nerr)
	}
	prog, spkgs := ssautil.AllPackages(pkgs, ssa.InstantiateGenerics)
	prog.Build()
	e := &Engine{cfg: cfg, prog: prog, replacements: map[string]*ssa.Function{}, interpSet: map[string]bool{}, bodyOKSet: map[string]bool{},
		incomplete: map[string]map[string]int{}, asserts: map[string]int{}, funcSteps: map[string]int{}, methodMemo: map[methodKey]*ssa.Function{}}
	for _, sp := range spkgs {
		if sp == nil {
			continue
		}
		switch {
		case strings.HasSuffix(sp.Pkg.Path(), "/pkg/yqlib"):
			e.yq, e.yqPath = sp, sp.Pkg.Path()
		case strings.HasSuffix(sp.Pkg.Path(), "/cmd"):
			e.cmd, e.cmdPath = sp, sp.Pkg.Path()
		}
	}
	if e.yq == nil {
		return nil, nil, fmt.Errorf("yqlib package not found")
	}
	for _, p := range defaultInterp {
		e.interpSet[p] = true
	}
	e.interpSet[e.yqPath] = true
	if e.cmd != nil {
		e.interpSet[e.cmdPath] = true
	}
	for _, p := range defaultBodyOK {
		e.bodyOKSet[p] = true
	}
	e.errorStringT = prog.ImportedPackage("errors").Type("errorString").Type()
	e.wrapErrorT = prog.ImportedPackage("fmt").Type("wrapError").Type()
	// replacement directives
	for _, d := range hf.directives {
		var target *ssa.Function
		for _, sp := range []*ssa.Package{e.yq, e.cmd} {
			if sp != nil {
				if f := sp.Func(d[1]); f != nil {
					target = f
				}
			}
		}
		if target == nil {
			return nil, nil, fmt.Errorf("verif:replace: harness function %s not found", d[1])
		}
		e.replacements[d[0]] = target
	}
	e.loadTime = time.Since(t0)
	return e, hf, nil
}

func (e *Engine) newInterp() *Interp {
	in := &Interp{eng: e, globals: map[*ssa.Global]*Object{}, fninfo: map[*ssa.Function]*fnInfo{}, natives: map[string]*Object{},
		maxSteps: e.cfg.MaxSteps, maxBack: e.cfg.MaxBack, trace: e.cfg.Trace}
	return in
}

// runInit executes package initialisation once and snapshots the heap.
func (e *Engine) runInit(withCmd bool) error {
	in := e.newInterp()
	in.maxSteps = 50_000_000
	in.ps = &PathState{model: Model{}}
	var err error
	e.inInit = true
	defer func() { e.inInit = false }()
	func() {
		defer func() {
			if r := recover(); r != nil {
				err = fmt.Errorf("package initialisation failed in the engine: %v", describePanic(in, r))
			}
		}()
		in.callFn(e.yq.Func("init"), nil, nil, nil, nil)
		if withCmd && e.cmd != nil {
			in.callFn(e.cmd.Func("init"), nil, nil, nil, nil)
		}
	}()
	if err != nil {
		return err
	}
	e.snapGlobals, e.snapNatives, e.snapNextID, e.initSteps = in.globals, in.natives, in.nextID, in.steps
	return nil
}

func describePanic(in *Interp, r any) string {
	switch x := r.(type) {
	case goPanic:
		return "Go panic: " + in.panicText(x) + " at " + x.where
	case pathEnd:
		return x.status + ": " + x.msg
	case unsupported:
		return "unsupported: " + x.msg
	}
	return fmt.Sprint(r)
}

func (in *Interp) panicText(gp goPanic) string {
	switch v := gp.val.(type) {
	case string:
		return v
	case Iface:
		if v.t == nil {
			return "panic(nil)"
		}
		if types.Implements(v.t, errIface) {
			var txt string
			func() {
				defer func() {
					if r := recover(); r != nil {
						txt = "<error value>"
					}
				}()
				m := in.finalModelOrEmpty()
				txt = evalStr(in.errorText(v), m)
			}()
			return txt
		}
		if s, ok := v.v.(string); ok {
			return s
		}
		return show(v)
	}
	return show(gp.val)
}

func (in *Interp) finalModelOrEmpty() Model {
	if in.ps != nil && in.ps.model != nil {
		return in.ps.model
	}
	return Model{}
}

// PathResult is what one explored path reports back.
type PathResult struct {
	status   string // ok | infeasible | unsupported | unwind | unknown | fault | failed
	msg      string
	failures []Failure
	pending  []WorkItem
	covers   []string
	sample   *Sample
	steps    int
	forks    int
	decisions int
}

type Sample struct {
	Harness string       `json:"harness"`
	Trace   []TraceEntry `json:"trace"`
	Events  []string     `json:"events"`
	Status  string       `json:"status"`
}

func (e *Engine) runPath(in *Interp, fn *ssa.Function, item WorkItem, wantSample bool) (res PathResult) {
	// fresh heap from the snapshot
	cl := newCloner()
	in.globals = make(map[*ssa.Global]*Object, len(e.snapGlobals))
	for g, o := range e.snapGlobals {
		in.globals[g] = cl.obj(o)
	}
	in.natives = make(map[string]*Object, len(e.snapNatives))
	for k, o := range e.snapNatives {
		in.natives[k] = cl.obj(o)
	}
	in.nextID = e.snapNextID
	in.steps = 0
	in.curFrame = nil
	in.watchShared, in.sharedSeen = 0, nil
	in.solver.Reset()
	ps := &PathState{prefix: item.prefix, prefixModel: item.model}
	if len(item.prefix) == 0 {
		ps.model = Model{}
	}
	in.ps = ps
	res.status = "ok"
	func() {
		defer func() {
			if r := recover(); r != nil {
				switch x := r.(type) {
				case goPanic:
					m := in.finalModel()
					label := "panic@" + x.where
					txt := in.panicText(x)
					if m != nil {
						in.recordFailure("panic", label, txt, m)
						res.status = "panic"
					} else {
						res.status = "unknown"
					}
					res.msg = txt + " at " + x.where
				case pathEnd:
					res.status, res.msg = x.status, x.msg
					if in.eng.cfg.Verbose && (x.status == "unwind" || x.status == "unknown") {
						func() {
							defer func() { recover() }()
							res.msg += " inputs: " + traceString(in.concretizeTrace(in.finalModelOrEmpty()))
						}()
					}
				case unsupported:
					res.status, res.msg = "unsupported", x.msg+" (in "+in.whereNow()+")"
					if in.eng.cfg.Verbose {
						func() {
							defer func() { recover() }()
							res.msg += " inputs: " + traceString(in.concretizeTrace(in.finalModelOrEmpty()))
						}()
					}
				default:
					res.status, res.msg = "fault", fmt.Sprintf("%v\n%s", r, interpStack(in))
				}
			}
		}()
		in.callFn(fn, nil, nil, nil, nil)
		if len(ps.taken) < len(ps.prefix) {
			panic(pathEnd{"fault", "replayed path made fewer decisions than its prefix (nondeterministic execution)"})
		}
	}()
	res.failures = ps.failures
	res.pending = ps.pending
	res.steps = in.steps
	res.forks = ps.forks
	res.decisions = len(ps.taken)
	for _, ev := range ps.events {
		if ev.kind == "COVER" {
			res.covers = append(res.covers, ev.label)
		}
	}
	if wantSample && res.status == "ok" {
		func() {
			defer func() {
				if r := recover(); r != nil {
					res.sample = nil
				}
			}()
			if m := in.finalModel(); m != nil {
				res.sample = &Sample{Harness: fn.Name(), Trace: in.concretizeTrace(m), Events: in.renderEvents(m), Status: "ok"}
			}
		}()
	}
	return res
}

func interpStack(in *Interp) string {
	var sb strings.Builder
	for fr, n := in.curFrame, 0; fr != nil && n < 25; fr, n = fr.caller, n+1 {
		sb.WriteString("    " + fr.info.name + "\n")
	}
	return sb.String()
}

// HarnessStats aggregates one harness function's exploration.
type HarnessStats struct {
	Name        string         `json:"harness"`
	Paths       int            `json:"paths_completed"`
	Infeasible  int            `json:"paths_infeasible"`
	Panics      int            `json:"paths_panicking"`
	Failed      int            `json:"paths_with_failed_assertion"`
	Unsupported int            `json:"paths_unsupported"`
	Unwind      int            `json:"paths_unwind"`
	Unknown     int            `json:"paths_unknown"`
	Faults      int            `json:"paths_engine_fault"`
	Forks       int            `json:"symbolic_branch_decisions"`
	Steps       int            `json:"ssa_instructions_executed"`
	Covers      map[string]int `json:"cover_labels"`
	Wall        float64        `json:"wall_s"`
	Truncated   bool           `json:"truncated_by_path_budget"`
	Messages    map[string]int `json:"messages,omitempty"`
	failures    []Failure
	samples     []*Sample
}

func (e *Engine) explore(fnName string, pkg *ssa.Package) (*HarnessStats, error) {
	fn := pkg.Func(fnName)
	if fn == nil {
		return nil, fmt.Errorf("harness function %s not found in %s", fnName, pkg.Pkg.Path())
	}
	st := &HarnessStats{Name: fnName, Covers: map[string]int{}, Messages: map[string]int{}}
	e.curHarness = fnName
	t0 := time.Now()
	var mu sync.Mutex
	cond := sync.NewCond(&mu)
	work := []WorkItem{{}}
	active := 0
	started := 0
	rng := rand.New(rand.NewSource(e.cfg.Seed))
	seenSamples := 0
	nw := e.cfg.Workers
	var wg sync.WaitGroup
	for w := 0; w < nw; w++ {
		wg.Add(1)
		go func() {
			defer wg.Done()
			in := e.newInterp()
			in.solver = newSolver(e.cfg.Solver, e.cfg.TimeoutMs, e.cfg.Logic)
			defer func() {
				mu.Lock()
				e.mergeSolverStats(in.solver)
				for f, fi := range in.fninfo {
					if fi.steps > 0 {
						e.funcSteps[f.String()] += fi.steps
					}
				}
				mu.Unlock()
				in.solver.Close()
			}()
			for {
				mu.Lock()
				for {
					if e.cfg.MaxPaths > 0 && started >= e.cfg.MaxPaths && len(work) > 0 {
						st.Truncated = true
						work = nil
					}
					if len(work) > 0 {
						break
					}
					if active == 0 {
						mu.Unlock()
						cond.Broadcast()
						return
					}
					cond.Wait()
				}
				item := work[len(work)-1]
				work = work[:len(work)-1]
				active++
				started++
				wantSample := false
				seenSamples++
				if e.cfg.Samples > 0 && (len(st.samples) < e.cfg.Samples || rng.Intn(seenSamples) < e.cfg.Samples) {
					wantSample = true
				}
				mu.Unlock()

				res := e.runPath(in, fn, item, wantSample)

				mu.Lock()
				active--
				st.Steps += res.steps
				st.Forks += res.forks
				switch res.status {
				case "ok":
					st.Paths++
				case "infeasible":
					st.Infeasible++
				case "panic":
					st.Panics++
					st.Paths++
				case "failed":
					st.Failed++
					st.Paths++
				case "unsupported":
					st.Unsupported++
					st.Messages["unsupported: "+res.msg]++
				case "unwind":
					st.Unwind++
					st.Messages["unwind: "+res.msg]++
				case "unknown":
					st.Unknown++
					st.Messages["unknown: "+res.msg]++
				default:
					st.Faults++
					st.Messages["fault: "+res.msg]++
				}
				for _, c := range res.covers {
					st.Covers[c]++
				}
				st.failures = append(st.failures, res.failures...)
				if res.sample != nil {
					if len(st.samples) < e.cfg.Samples {
						st.samples = append(st.samples, res.sample)
					} else if e.cfg.Samples > 0 {
						st.samples[rng.Intn(len(st.samples))] = res.sample
					}
				}
				if !st.Truncated {
					work = append(work, res.pending...)
				}
				if e.cfg.Verbose && (st.Paths+st.Infeasible)%200 == 0 {
					fmt.Fprintf(os.Stderr, "  [%s] paths=%d pending=%d active=%d\n", fnName, st.Paths, len(work), active)
				}
				mu.Unlock()
				cond.Broadcast()
			}
		}()
	}
	wg.Wait()
	st.Wall = time.Since(t0).Seconds()
	return st, nil
}

type SolverTotals struct {
	Queries, Sat, Unsat, Unknown, Errors int
	Time                                 time.Duration
}

var solverTotals SolverTotals

func (e *Engine) mergeSolverStats(s *Solver) {
	solverTotals.Queries += s.Queries
	solverTotals.Sat += s.Sat
	solverTotals.Unsat += s.Unsat
	solverTotals.Unknown += s.Unknown
	solverTotals.Errors += s.Errors
	solverTotals.Time += s.Time
}
