package main

import (
	"bytes"
	"go/types"
	"io"

	"golang.org/x/tools/go/ssa"
	yaml "gopkg.in/yaml.v3"
)

// Concrete YAML through the real library: gopkg.in/yaml.v3 (the version pinned by yq's go.mod) is linked into
// the engine and executed natively when the interpreted program decodes or encodes CONCRETE text. The bytes
// are pulled from / pushed to the interpreted io.Reader / io.Writer, and yaml.Node trees are converted between
// the native representation and the engine heap. Symbolic text never reaches it (Unsupported).

type yamlDecState struct {
	reader Value
	dec    *yaml.Decoder
}

type yamlEncState struct {
	writer Value
	indent int
}

func (in *Interp) yamlNodeType() types.Type {
	return in.eng.prog.ImportedPackage("gopkg.in/yaml.v3").Type("Node").Type()
}

func (in *Interp) drainReader(r Value, caller *frame, site ssa.Instruction) []byte {
	ri := r.(Iface)
	if ri.t == nil {
		return nil
	}
	m := in.hasMethod(ri.t, "Read")
	if m == nil {
		unsup("yaml decoder input is not an io.Reader")
	}
	var out []byte
	buf := in.makeSlice(types.Typ[types.Byte], 512, 512)
	for iter := 0; iter < 10000; iter++ {
		res := in.callFn(m, []Value{ri.v, buf}, nil, caller, site).(Tuple)
		n := in.concreteInt(res[0], "Read count")
		for i := 0; i < n; i++ {
			b, ok := (*buf.at(i).slot()).(Int)
			if !ok {
				unsup("YAML text with symbolic bytes reaches the yaml.v3 parser")
			}
			out = append(out, byte(b.v))
		}
		if e, ok := res[1].(Iface); ok && e.t != nil {
			break
		}
		if n == 0 {
			break
		}
	}
	return out
}

func (in *Interp) yamlNodeToEngine(n *yaml.Node, memo map[*yaml.Node]Pointer) Pointer {
	if n == nil {
		return Pointer{}
	}
	if p, ok := memo[n]; ok {
		return p
	}
	nt := in.yamlNodeType()
	st := zero(nt).(*Struct)
	o := in.newObject(nt, st)
	p := Pointer{obj: o}
	memo[n] = p
	set := func(name string, v Value) { st.f[structFieldIndex(nt, name)] = v }
	set("Kind", Int{uint64(n.Kind)})
	set("Style", Int{uint64(n.Style)})
	set("Tag", n.Tag)
	set("Value", n.Value)
	set("Anchor", n.Anchor)
	set("Alias", in.yamlNodeToEngine(n.Alias, memo))
	if n.Content != nil {
		vals := make([]Value, len(n.Content))
		for i, c := range n.Content {
			vals[i] = in.yamlNodeToEngine(c, memo)
		}
		set("Content", in.sliceOf(types.NewPointer(nt), vals))
	}
	set("HeadComment", n.HeadComment)
	set("LineComment", n.LineComment)
	set("FootComment", n.FootComment)
	set("Line", Int{uint64(n.Line)})
	set("Column", Int{uint64(n.Column)})
	return p
}

func concStr(v Value, what string) string {
	s, ok := v.(string)
	if !ok {
		unsup("symbolic %s reaches the yaml.v3 emitter", what)
	}
	return s
}

func (in *Interp) yamlNodeFromEngine(p Pointer, memo map[*Object]*yaml.Node) *yaml.Node {
	if p.isNil() {
		return nil
	}
	if n, ok := memo[p.obj]; ok {
		return n
	}
	nt := in.yamlNodeType()
	st := (*p.slot()).(*Struct)
	get := func(name string) Value { return st.f[structFieldIndex(nt, name)] }
	n := &yaml.Node{}
	memo[p.obj] = n
	n.Kind = yaml.Kind(in.concreteInt(get("Kind"), "yaml kind"))
	n.Style = yaml.Style(in.concreteInt(get("Style"), "yaml style"))
	n.Tag = concStr(get("Tag"), "tag")
	n.Value = concStr(get("Value"), "value")
	n.Anchor = concStr(get("Anchor"), "anchor")
	n.Alias = in.yamlNodeFromEngine(get("Alias").(Pointer), memo)
	if c, ok := get("Content").(Slice); ok && !c.isNil {
		for i := 0; i < c.len; i++ {
			n.Content = append(n.Content, in.yamlNodeFromEngine((*c.at(i).slot()).(Pointer), memo))
		}
	}
	n.HeadComment = concStr(get("HeadComment"), "comment")
	n.LineComment = concStr(get("LineComment"), "comment")
	n.FootComment = concStr(get("FootComment"), "comment")
	n.Line = in.concreteInt(get("Line"), "line")
	n.Column = in.concreteInt(get("Column"), "column")
	return n
}

func (in *Interp) ioEOF() Value {
	ioPkg := in.eng.prog.ImportedPackage("io")
	g := ioPkg.Var("EOF")
	return Pointer{obj: in.global(g)}.load()
}

func nativeState(v Value) any {
	p := v.(Pointer)
	if p.isNil() {
		panic(goPanic{val: "nil pointer dereference (yaml codec)"})
	}
	n, ok := (*p.slot()).(*Native)
	if !ok {
		unsup("yaml codec object not created through yaml.NewDecoder/NewEncoder")
	}
	return n.v
}

func init() {
	reg("gopkg.in/yaml.v3.NewDecoder", func(in *Interp, fn *ssa.Function, a []Value, c *frame, s ssa.Instruction) (Value, bool) {
		dt := in.eng.prog.ImportedPackage("gopkg.in/yaml.v3").Type("Decoder").Type()
		o := in.newObject(dt, &Native{&yamlDecState{reader: a[0]}})
		return Pointer{obj: o}, true
	})
	reg("(*gopkg.in/yaml.v3.Decoder).Decode", func(in *Interp, fn *ssa.Function, a []Value, c *frame, s ssa.Instruction) (Value, bool) {
		st := nativeState(a[0]).(*yamlDecState)
		if st.dec == nil {
			data := in.drainReader(st.reader, c, s)
			st.dec = yaml.NewDecoder(bytes.NewReader(data))
		}
		target := a[1].(Iface)
		nt := in.yamlNodeType()
		if target.t == nil || !types.Identical(target.t, types.NewPointer(nt)) {
			unsup("yaml.Decoder.Decode into %v (only *yaml.Node is modelled)", typeStr(target.t))
		}
		var node yaml.Node
		var err error
		func() {
			defer func() {
				if r := recover(); r != nil {
					panic(goPanic{val: "yaml.v3 panicked while decoding", where: in.where(s)})
				}
			}()
			err = st.dec.Decode(&node)
		}()
		if err == io.EOF {
			return in.ioEOF(), true
		}
		if err != nil {
			return in.mkErrVal(err.Error(), nil), true
		}
		p := in.yamlNodeToEngine(&node, map[*yaml.Node]Pointer{})
		target.v.(Pointer).store(p.load())
		return Iface{}, true
	})
	reg("gopkg.in/yaml.v3.NewEncoder", func(in *Interp, fn *ssa.Function, a []Value, c *frame, s ssa.Instruction) (Value, bool) {
		et := in.eng.prog.ImportedPackage("gopkg.in/yaml.v3").Type("Encoder").Type()
		o := in.newObject(et, &Native{&yamlEncState{writer: a[0], indent: 4}})
		return Pointer{obj: o}, true
	})
	reg("(*gopkg.in/yaml.v3.Encoder).SetIndent", func(in *Interp, fn *ssa.Function, a []Value, c *frame, s ssa.Instruction) (Value, bool) {
		nativeState(a[0]).(*yamlEncState).indent = in.concreteInt(a[1], "indent")
		return nil, true
	})
	reg("(*gopkg.in/yaml.v3.Encoder).Close", func(in *Interp, fn *ssa.Function, a []Value, c *frame, s ssa.Instruction) (Value, bool) {
		return Iface{}, true
	})
	reg("(*gopkg.in/yaml.v3.Encoder).Encode", func(in *Interp, fn *ssa.Function, a []Value, c *frame, s ssa.Instruction) (Value, bool) {
		st := nativeState(a[0]).(*yamlEncState)
		v := a[1].(Iface)
		nt := in.yamlNodeType()
		if v.t == nil || !types.Identical(v.t, types.NewPointer(nt)) {
			unsup("yaml.Encoder.Encode of %v (only *yaml.Node is modelled)", typeStr(v.t))
		}
		node := in.yamlNodeFromEngine(v.v.(Pointer), map[*Object]*yaml.Node{})
		var buf bytes.Buffer
		enc := yaml.NewEncoder(&buf)
		enc.SetIndent(st.indent)
		var err error
		func() {
			defer func() {
				if r := recover(); r != nil {
					err = io.ErrUnexpectedEOF
					panic(goPanic{val: "yaml.v3 panicked while encoding", where: in.where(s)})
				}
			}()
			err = enc.Encode(node)
			enc.Close()
		}()
		if err != nil {
			return in.mkErrVal(err.Error(), nil), true
		}
		w := st.writer.(Iface)
		m := in.hasMethod(w.t, "Write")
		data := buf.Bytes()
		vals := make([]Value, len(data))
		for i, b := range data {
			vals[i] = Int{uint64(b)}
		}
		res := in.callFn(m, []Value{w.v, in.sliceOf(types.Typ[types.Byte], vals)}, nil, c, s).(Tuple)
		return res[1], true
	})
}
