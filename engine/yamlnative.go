package main

import (
	"errors"
	"strings"
	"bytes"
	"go/types"
	"io"

	"golang.org/x/tools/go/ssa"
	yaml "gopkg.in/yaml.v3"
)

// Concrete YAML through the real library: gopkg.in/yaml.v3 (the version pinned by yq's go.mod) is linked into
// the engine and executed natively when the interpreted program decodes or encodes CONCRETE text. The bytes
// are pulled from / pushed to the interpreted io.Reader / io.Writer, and yaml.Node trees are converted between
// the native representation and the engine heap. Symbolic text never reaches it (Unsupported).

type yamlDecState struct {
	reader Value
	dec    *yaml.Decoder
	// symbolic text: the library's own parser object (yaml.v3's *parser, created and driven through its real SSA)
	symParser Value
}

type yamlEncState struct {
	writer Value
	indent int
	// symbolic node text: the library's own encoder object (yaml.v3's *encoder, driven through its real SSA)
	symEnc Value
}

func (in *Interp) yamlNodeType() types.Type {
	return in.eng.prog.ImportedPackage("gopkg.in/yaml.v3").Type("Node").Type()
}

// drainReaderValues reads the interpreted reader to its end; symbolic reports whether some byte is no constant.
func (in *Interp) drainReaderValues(r Value, caller *frame, site ssa.Instruction) (vals []Value, symbolic bool) {
	vals, symbolic, _ = in.drainReaderValuesErr(r, caller, site)
	return
}

// failAfter is a reader that has nothing but an error to give: what the interpreted reader reported after its data.
type failAfter struct{ msg string }

func (f failAfter) Read(_ []byte) (int, error) { return 0, errors.New(f.msg) }

// drainReaderValuesErr also reports the text of the error that ended the input when it is not io.EOF.
func (in *Interp) drainReaderValuesErr(r Value, caller *frame, site ssa.Instruction) (vals []Value, symbolic bool, readErr string) {
	ri := r.(Iface)
	if ri.t == nil {
		return nil, false, ""
	}
	m := in.hasMethod(ri.t, "Read")
	if m == nil {
		unsup("yaml decoder input is not an io.Reader")
	}
	buf := in.makeSlice(types.Typ[types.Byte], 512, 512)
	for iter := 0; iter < 10000; iter++ {
		res := in.callFn(m, []Value{ri.v, buf}, nil, caller, site).(Tuple)
		n := in.concreteInt(res[0], "Read count")
		for i := 0; i < n; i++ {
			v := *buf.at(i).slot()
			if _, ok := v.(Int); !ok {
				symbolic = true
			}
			vals = append(vals, v)
		}
		if e, ok := res[1].(Iface); ok && e.t != nil {
			if !in.errorsIs(e, in.ioEOF()) {
				if txt, ok := in.errorText(e).(string); ok {
					readErr = txt
				} else {
					readErr = "read error"
				}
			}
			break
		}
		if n == 0 {
			break
		}
	}
	return vals, symbolic, readErr
}

// symbolicYamlDecode drives yaml.v3's own scanner, parser and node builder (gopkg.in/yaml.v3 decode.go, parserc.go,
// scannerc.go, readerc.go: their real SSA) over text that holds symbolic bytes. It is Decoder.Decode(*Node) without
// the reflection at its end: parser.parse() builds the *Node, which is copied into the target; a yamlError panic is
// the returned error (handleErr), any other panic propagates.
func (in *Interp) symbolicYamlDecode(st *yamlDecState, data []Value, target Pointer, c *frame, s ssa.Instruction) Value {
	pkg := in.eng.prog.ImportedPackage("gopkg.in/yaml.v3")
	if !in.eng.interpPkg("gopkg.in/yaml.v3") {
		unsup("YAML text with symbolic bytes reaches the yaml.v3 parser")
	}
	if st.symParser == nil {
		st.symParser = in.callFn(pkg.Func("newParser"), []Value{in.sliceOf(types.Typ[types.Byte], data)}, nil, c, s)
	}
	parserT := pkg.Type("parser").Type()
	parse := in.eng.prog.LookupMethod(types.NewPointer(parserT), pkg.Pkg, "parse")
	var node Value
	errVal := in.yamlRecover(func() { node = in.callFn(parse, []Value{st.symParser}, nil, c, s) })
	if errVal != nil {
		return errVal
	}
	np := node.(Pointer)
	if np.isNil() {
		return in.ioEOF()
	}
	target.store(np.load())
	return Iface{}
}

// yamlRecover runs f and turns a yamlError panic of the interpreted library into the error it carries (handleErr).
func (in *Interp) yamlRecover(f func()) (errVal Value) {
	defer func() {
		if r := recover(); r != nil {
			gp, ok := r.(goPanic)
			if !ok {
				panic(r)
			}
			if ifc, ok := gp.val.(Iface); ok && ifc.t != nil && typeStr(ifc.t) == "gopkg.in/yaml.v3.yamlError" {
				errVal = ifc.v.(*Struct).f[0]
				return
			}
			panic(r)
		}
	}()
	f()
	return nil
}

// symbolicYamlEncode is Encoder.Encode(*Node) without the reflection in front of it: the library's own encoder
// (encode.go, emitterc.go, writerc.go: real SSA) is created over the interpreted writer and fed the node exactly
// as marshalDoc does — a DocumentNode directly, anything else between an implicit document start and end.
func (in *Interp) symbolicYamlEncode(st *yamlEncState, node Pointer, c *frame, s ssa.Instruction) Value {
	pkg := in.eng.prog.ImportedPackage("gopkg.in/yaml.v3")
	if !in.eng.interpPkg("gopkg.in/yaml.v3") {
		unsup("symbolic text reaches the yaml.v3 emitter")
	}
	encT := pkg.Type("encoder").Type()
	method := func(name string) *ssa.Function {
		return in.eng.prog.LookupMethod(types.NewPointer(encT), pkg.Pkg, name)
	}
	errVal := in.yamlRecover(func() {
		if st.symEnc == nil {
			st.symEnc = in.callFn(pkg.Func("newEncoderWithWriter"), []Value{st.writer}, nil, c, s)
			ep := st.symEnc.(Pointer)
			ep.sub(structFieldIndex(encT, "indent")).store(Int{uint64(st.indent)})
		}
		e := st.symEnc.(Pointer)
		in.callFn(method("init"), []Value{e}, nil, c, s)
		nt := in.yamlNodeType()
		kind := (*node.sub(structFieldIndex(nt, "Kind")).slot())
		if k, ok := kind.(Int); ok && k.v == uint64(yaml.DocumentNode) {
			in.callFn(method("node"), []Value{e, node, ""}, nil, c, s)
			return
		}
		ev := e.sub(structFieldIndex(encT, "event"))
		in.callFn(pkg.Func("yaml_document_start_event_initialize"), []Value{ev, Pointer{}, Slice{isNil: true}, true}, nil, c, s)
		in.callFn(method("emit"), []Value{e}, nil, c, s)
		in.callFn(method("node"), []Value{e, node, ""}, nil, c, s)
		in.callFn(pkg.Func("yaml_document_end_event_initialize"), []Value{ev, true}, nil, c, s)
		in.callFn(method("emit"), []Value{e}, nil, c, s)
	})
	if errVal != nil {
		return errVal
	}
	return Iface{}
}

func (in *Interp) drainReader(r Value, caller *frame, site ssa.Instruction) []byte {
	ri := r.(Iface)
	if ri.t == nil {
		return nil
	}
	m := in.hasMethod(ri.t, "Read")
	if m == nil {
		unsup("yaml decoder input is not an io.Reader")
	}
	var out []byte
	buf := in.makeSlice(types.Typ[types.Byte], 512, 512)
	for iter := 0; iter < 10000; iter++ {
		res := in.callFn(m, []Value{ri.v, buf}, nil, caller, site).(Tuple)
		n := in.concreteInt(res[0], "Read count")
		for i := 0; i < n; i++ {
			b, ok := (*buf.at(i).slot()).(Int)
			if !ok {
				unsup("YAML text with symbolic bytes reaches the yaml.v3 parser")
			}
			out = append(out, byte(b.v))
		}
		if e, ok := res[1].(Iface); ok && e.t != nil {
			break
		}
		if n == 0 {
			break
		}
	}
	return out
}

func (in *Interp) yamlNodeToEngine(n *yaml.Node, memo map[*yaml.Node]Pointer) Pointer {
	if n == nil {
		return Pointer{}
	}
	if p, ok := memo[n]; ok {
		return p
	}
	nt := in.yamlNodeType()
	st := zero(nt).(*Struct)
	o := in.newObject(nt, st)
	p := Pointer{obj: o}
	memo[n] = p
	set := func(name string, v Value) { st.f[structFieldIndex(nt, name)] = v }
	set("Kind", Int{uint64(n.Kind)})
	set("Style", Int{uint64(n.Style)})
	set("Tag", n.Tag)
	set("Value", n.Value)
	set("Anchor", n.Anchor)
	set("Alias", in.yamlNodeToEngine(n.Alias, memo))
	if n.Content != nil {
		vals := make([]Value, len(n.Content))
		for i, c := range n.Content {
			vals[i] = in.yamlNodeToEngine(c, memo)
		}
		set("Content", in.sliceOf(types.NewPointer(nt), vals))
	}
	set("HeadComment", n.HeadComment)
	set("LineComment", n.LineComment)
	set("FootComment", n.FootComment)
	set("Line", Int{uint64(n.Line)})
	set("Column", Int{uint64(n.Column)})
	return p
}

func concStr(v Value, what string) string {
	s, ok := v.(string)
	if !ok {
		unsup("symbolic %s reaches the yaml.v3 emitter", what)
	}
	return s
}

func (in *Interp) yamlNodeFromEngine(p Pointer, memo map[*Object]*yaml.Node) *yaml.Node {
	if p.isNil() {
		return nil
	}
	if n, ok := memo[p.obj]; ok {
		return n
	}
	nt := in.yamlNodeType()
	st := (*p.slot()).(*Struct)
	get := func(name string) Value { return st.f[structFieldIndex(nt, name)] }
	n := &yaml.Node{}
	memo[p.obj] = n
	n.Kind = yaml.Kind(in.concreteInt(get("Kind"), "yaml kind"))
	n.Style = yaml.Style(in.concreteInt(get("Style"), "yaml style"))
	n.Tag = concStr(get("Tag"), "tag")
	n.Value = concStr(get("Value"), "value")
	n.Anchor = concStr(get("Anchor"), "anchor")
	n.Alias = in.yamlNodeFromEngine(get("Alias").(Pointer), memo)
	if c, ok := get("Content").(Slice); ok && !c.isNil {
		for i := 0; i < c.len; i++ {
			n.Content = append(n.Content, in.yamlNodeFromEngine((*c.at(i).slot()).(Pointer), memo))
		}
	}
	n.HeadComment = concStr(get("HeadComment"), "comment")
	n.LineComment = concStr(get("LineComment"), "comment")
	n.FootComment = concStr(get("FootComment"), "comment")
	n.Line = in.concreteInt(get("Line"), "line")
	n.Column = in.concreteInt(get("Column"), "column")
	return n
}

func (in *Interp) ioEOF() Value {
	ioPkg := in.eng.prog.ImportedPackage("io")
	g := ioPkg.Var("EOF")
	return Pointer{obj: in.global(g)}.load()
}

func nativeState(v Value) any {
	p := v.(Pointer)
	if p.isNil() {
		panic(goPanic{val: "nil pointer dereference (yaml codec)"})
	}
	n, ok := (*p.slot()).(*Native)
	if !ok {
		unsup("yaml codec object not created through yaml.NewDecoder/NewEncoder")
	}
	return n.v
}

func init() {
	reg("gopkg.in/yaml.v3.NewDecoder", func(in *Interp, fn *ssa.Function, a []Value, c *frame, s ssa.Instruction) (Value, bool) {
		dt := in.eng.prog.ImportedPackage("gopkg.in/yaml.v3").Type("Decoder").Type()
		o := in.newObject(dt, &Native{&yamlDecState{reader: a[0]}})
		return Pointer{obj: o}, true
	})
	reg("(*gopkg.in/yaml.v3.Decoder).Decode", func(in *Interp, fn *ssa.Function, a []Value, c *frame, s ssa.Instruction) (Value, bool) {
		st := nativeState(a[0]).(*yamlDecState)
		target := a[1].(Iface)
		nt := in.yamlNodeType()
		if target.t == nil || !types.Identical(target.t, types.NewPointer(nt)) {
			unsup("yaml.Decoder.Decode into %v (only *yaml.Node is modelled)", typeStr(target.t))
		}
		if st.dec == nil && st.symParser == nil {
			vals, symbolic, readErr := in.drainReaderValuesErr(st.reader, c, s)
			if symbolic {
				if readErr != "" {
					unsup("symbolic YAML text from a reader that fails")
				}
				return in.symbolicYamlDecode(st, vals, target.v.(Pointer), c, s), true
			}
			data := make([]byte, len(vals))
			for i, v := range vals {
				data[i] = byte(v.(Int).v)
			}
			if readErr != "" {
				// the library sees the data and then the reader's error (it reports "yaml: input error: ...")
				st.dec = yaml.NewDecoder(io.MultiReader(bytes.NewReader(data), failAfter{readErr}))
			} else {
				st.dec = yaml.NewDecoder(bytes.NewReader(data))
			}
		}
		if st.symParser != nil {
			return in.symbolicYamlDecode(st, nil, target.v.(Pointer), c, s), true
		}
		var node yaml.Node
		var err error
		func() {
			defer func() {
				if r := recover(); r != nil {
					panic(goPanic{val: "yaml.v3 panicked while decoding", where: in.where(s)})
				}
			}()
			err = st.dec.Decode(&node)
		}()
		if err == io.EOF {
			return in.ioEOF(), true
		}
		if err != nil {
			return in.mkErrVal(err.Error(), nil), true
		}
		p := in.yamlNodeToEngine(&node, map[*yaml.Node]Pointer{})
		target.v.(Pointer).store(p.load())
		return Iface{}, true
	})
	reg("gopkg.in/yaml.v3.NewEncoder", func(in *Interp, fn *ssa.Function, a []Value, c *frame, s ssa.Instruction) (Value, bool) {
		et := in.eng.prog.ImportedPackage("gopkg.in/yaml.v3").Type("Encoder").Type()
		o := in.newObject(et, &Native{&yamlEncState{writer: a[0], indent: 4}})
		return Pointer{obj: o}, true
	})
	reg("(*gopkg.in/yaml.v3.Encoder).SetIndent", func(in *Interp, fn *ssa.Function, a []Value, c *frame, s ssa.Instruction) (Value, bool) {
		nativeState(a[0]).(*yamlEncState).indent = in.concreteInt(a[1], "indent")
		return nil, true
	})
	reg("(*gopkg.in/yaml.v3.Encoder).Close", func(in *Interp, fn *ssa.Function, a []Value, c *frame, s ssa.Instruction) (Value, bool) {
		st := nativeState(a[0]).(*yamlEncState)
		if st.symEnc != nil {
			pkg := in.eng.prog.ImportedPackage("gopkg.in/yaml.v3")
			finish := in.eng.prog.LookupMethod(types.NewPointer(pkg.Type("encoder").Type()), pkg.Pkg, "finish")
			if errVal := in.yamlRecover(func() { in.callFn(finish, []Value{st.symEnc}, nil, c, s) }); errVal != nil {
				return errVal, true
			}
		}
		return Iface{}, true
	})
	reg("(*gopkg.in/yaml.v3.Encoder).Encode", func(in *Interp, fn *ssa.Function, a []Value, c *frame, s ssa.Instruction) (Value, bool) {
		st := nativeState(a[0]).(*yamlEncState)
		v := a[1].(Iface)
		nt := in.yamlNodeType()
		if v.t == nil || !types.Identical(v.t, types.NewPointer(nt)) {
			unsup("yaml.Encoder.Encode of %v (only *yaml.Node is modelled)", typeStr(v.t))
		}
		if st.symEnc != nil {
			return in.symbolicYamlEncode(st, v.v.(Pointer), c, s), true
		}
		var node *yaml.Node
		symbolicText := false
		func() {
			defer func() {
				if r := recover(); r != nil {
					if u, ok := r.(unsupported); ok && strings.Contains(u.msg, "reaches the yaml.v3 emitter") {
						symbolicText = true
						return
					}
					panic(r)
				}
			}()
			node = in.yamlNodeFromEngine(v.v.(Pointer), map[*Object]*yaml.Node{})
		}()
		if symbolicText {
			return in.symbolicYamlEncode(st, v.v.(Pointer), c, s), true
		}
		var buf bytes.Buffer
		enc := yaml.NewEncoder(&buf)
		enc.SetIndent(st.indent)
		var err error
		func() {
			defer func() {
				if r := recover(); r != nil {
					err = io.ErrUnexpectedEOF
					panic(goPanic{val: "yaml.v3 panicked while encoding", where: in.where(s)})
				}
			}()
			err = enc.Encode(node)
			enc.Close()
		}()
		if err != nil {
			return in.mkErrVal(err.Error(), nil), true
		}
		w := st.writer.(Iface)
		m := in.hasMethod(w.t, "Write")
		data := buf.Bytes()
		vals := make([]Value, len(data))
		for i, b := range data {
			vals[i] = Int{uint64(b)}
		}
		res := in.callFn(m, []Value{w.v, in.sliceOf(types.Typ[types.Byte], vals)}, nil, c, s).(Tuple)
		return res[1], true
	})
}
