package main

import "golang.org/x/tools/go/ssa"

func osIntrinsic(fn *ssa.Function) intrinsicFn { return nil }

func (in *Interp) regexMatchSym(re any, s Value) Value {
	unsup("regexp match on symbolic string")
	return nil
}
