package main

import (
	"time"

	"golang.org/x/tools/go/ssa"
)

func osIntrinsic(fn *ssa.Function) intrinsicFn { return nil }


// minimal accepted input length per time layout (contract of package time, checked by selftest)
var timeLayoutMinLen = map[string]int{
	time.RFC3339: 20,
	"2006-01-02": 10,
}

func init() {
	reg("time.Parse", func(in *Interp, fn *ssa.Function, a []Value, c *frame, s ssa.Instruction) (Value, bool) {
		layout, ok := a[0].(string)
		if !ok {
			unsup("time.Parse with symbolic layout")
		}
		tt := fn.Signature.Results().At(0).Type()
		if v, ok := a[1].(string); ok {
			if _, err := time.Parse(layout, v); err != nil {
				return Tuple{zero(tt), in.mkErrVal(err.Error(), nil)}, true
			}
			unsup("time.Parse succeeded on %q: time values are not modelled", v)
		}
		val := strArgVal(in, a[1])
		if v, ok := val.(string); ok {
			if _, err := time.Parse(layout, v); err != nil {
				return Tuple{zero(tt), in.mkErrVal(err.Error(), nil)}, true
			}
			unsup("time.Parse succeeded on %q: time values are not modelled", v)
		}
		if at := singleFmtInt(val); at != nil {
			// a bare integer never parses as one of the modelled layouts ('-' / 'T' separators required)
			if _, ok := timeLayoutMinLen[layout]; ok {
				return Tuple{zero(tt), in.mkErrVal("parsing time: integer text", nil)}, true
			}
		}
		n, okLen := strLenConcrete(val)
		min, okLayout := timeLayoutMinLen[layout]
		if okLen && okLayout && n < min {
			return Tuple{zero(tt), in.mkErrVal("parsing time: input too short", nil)}, true
		}
		unsup("time.Parse(%q) on symbolic string of length %d", layout, n)
		return nil, false
	})
}
