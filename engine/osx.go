package main

import (
	"go/types"
	"reflect"
	"time"

	"golang.org/x/tools/go/ssa"
)

func osIntrinsic(fn *ssa.Function) intrinsicFn { return nil }


// minimal accepted input length per time layout (contract of package time, checked by selftest)
var timeLayoutMinLen = map[string]int{
	time.RFC3339: 20,
	"2006-01-02": 10,
}

// timeValue is the time.Time that time.Parse(layout, text) returns for concrete arguments, as the engine's struct
// {wall, ext, loc}: wall and ext are read from the real value (no monotonic reading after Parse, so ext is the
// seconds since year 1 and wall&(2^30-1) the nanoseconds); loc is nil for UTC, as in the real value, and otherwise a
// fresh opaque heap object per call — the real Parse allocates a new *Location (FixedZone) for every numeric zone
// offset, which matters to code that compares time.Time values with ==.
func (in *Interp) timeValue(tt types.Type, layout, text string) Value {
	t, err := time.Parse(layout, text)
	if err != nil {
		panic("timeValue: " + err.Error())
	}
	rv := reflect.ValueOf(t)
	st := &Struct{f: []Value{Int{rv.Field(0).Uint()}, Int{uint64(rv.Field(1).Int())}, Pointer{}}}
	if !rv.Field(2).IsNil() {
		st.f[2] = Pointer{obj: in.newObject(types.Typ[types.Int], Opaque{"time.Location " + t.Location().String()})}
	}
	return st
}

func timeParts(v Value) (sec int64, nsec int64) {
	st := v.(*Struct)
	wall, ok1 := st.f[0].(Int)
	ext, ok2 := st.f[1].(Int)
	if !ok1 || !ok2 {
		unsup("symbolic time value")
	}
	if wall.v&(1<<63) != 0 {
		unsup("time value with a monotonic clock reading")
	}
	return int64(ext.v), int64(wall.v & (1<<30 - 1))
}

func init() {
	// instants are compared by seconds and nanoseconds, whatever the location (package time's definition)
	timeCmp := func(f func(c int) bool) intrinsicFn {
		return func(in *Interp, fn *ssa.Function, a []Value, c *frame, s ssa.Instruction) (Value, bool) {
			s1, n1 := timeParts(a[0])
			s2, n2 := timeParts(a[1])
			cmp := 0
			switch {
			case s1 < s2 || (s1 == s2 && n1 < n2):
				cmp = -1
			case s1 > s2 || (s1 == s2 && n1 > n2):
				cmp = 1
			}
			return f(cmp), true
		}
	}
	reg("(time.Time).Equal", timeCmp(func(c int) bool { return c == 0 }))
	reg("(time.Time).Before", timeCmp(func(c int) bool { return c < 0 }))
	reg("(time.Time).After", timeCmp(func(c int) bool { return c > 0 }))
	reg("(time.Time).IsZero", func(in *Interp, fn *ssa.Function, a []Value, c *frame, s ssa.Instruction) (Value, bool) {
		sec, nsec := timeParts(a[0])
		return sec == 0 && nsec == 0, true
	})
	reg("time.Parse", func(in *Interp, fn *ssa.Function, a []Value, c *frame, s ssa.Instruction) (Value, bool) {
		layout, ok := a[0].(string)
		if !ok {
			unsup("time.Parse with symbolic layout")
		}
		tt := fn.Signature.Results().At(0).Type()
		if v, ok := a[1].(string); ok {
			if _, err := time.Parse(layout, v); err != nil {
				return Tuple{zero(tt), in.mkErrVal(err.Error(), nil)}, true
			}
			return Tuple{in.timeValue(tt, layout, v), Iface{}}, true
		}
		val := strArgVal(in, a[1])
		if v, ok := val.(string); ok {
			if _, err := time.Parse(layout, v); err != nil {
				return Tuple{zero(tt), in.mkErrVal(err.Error(), nil)}, true
			}
			return Tuple{in.timeValue(tt, layout, v), Iface{}}, true
		}
		if at := singleFmtInt(val); at != nil {
			// a bare integer never parses as one of the modelled layouts ('-' / 'T' separators required)
			if _, ok := timeLayoutMinLen[layout]; ok {
				return Tuple{zero(tt), in.mkErrVal("parsing time: integer text", nil)}, true
			}
		}
		n, okLen := strLenConcrete(val)
		min, okLayout := timeLayoutMinLen[layout]
		if okLen && okLayout && n < min {
			return Tuple{zero(tt), in.mkErrVal("parsing time: input too short", nil)}, true
		}
		unsup("time.Parse(%q) on symbolic string of length %d", layout, n)
		return nil, false
	})
}
