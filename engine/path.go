package main

import (
	"encoding/json"
	"fmt"
	"go/types"
	"sort"
	"strings"
)

// WorkItem is a decision prefix to explore plus a model witnessing its feasibility.
type WorkItem struct {
	prefix []int32
	model  Model
}

type TraceEntry struct {
	Kind  string `json:"kind"` // bool int64 int byte str strn pick choice itoa
	Name  string `json:"name"`
	Vars  []string `json:"-"`
	Terms []*Term  `json:"-"`
	Alts  []string `json:"-"`
	Len   int      `json:"-"`
	Val   any      `json:"val"`
}

func (t *TraceEntry) UnmarshalJSON(data []byte) error {
	var raw struct {
		Kind string          `json:"kind"`
		Name string          `json:"name"`
		Val  json.RawMessage `json:"val"`
	}
	if err := json.Unmarshal(data, &raw); err != nil {
		return err
	}
	t.Kind, t.Name, t.Val = raw.Kind, raw.Name, raw.Val
	return nil
}

type Failure struct {
	Label  string
	Kind   string // assert | panic
	Msg    string
	Model  Model
	Trace  []TraceEntry
	Events []string
	Prefix []int32
}

type Event struct {
	kind  string // OBS COVER
	label string
	val   Value
	typ   types.Type
}

type PathState struct {
	prefix      []int32
	prefixModel Model
	taken       []int32
	pc          []*Term
	sent        int
	model       Model
	pending     []WorkItem
	events      []Event
	failures    []Failure
	unconditionalKnown int
	trace       []TraceEntry
	nvars       int
	status      string
	msg         string
	forks       int
	vars        map[string]int
	dom         map[string]*[4]uint64 // allowed values of 8-bit variables implied by single-variable conjuncts of pc
	quickHits   int
	known       map[string]bool // structural keys of small conditions already decided on this path
}

// termKey renders a canonical structural key for small terms ("" when too large).
func termKey(t *Term) string {
	n := 0
	var sb strings.Builder
	var walk func(x *Term) bool
	walk = func(x *Term) bool {
		n++
		if n > 48 {
			return false
		}
		switch x.op {
		case OConst:
			fmt.Fprintf(&sb, "#%d:%d", x.c, x.w)
			return true
		case OVar:
			sb.WriteString(x.name)
			return true
		}
		sb.WriteByte('(')
		sb.WriteString(opNames[x.op])
		if x.op == OExtract || x.op == OZExt || x.op == OSExt {
			fmt.Fprintf(&sb, "_%d_%d", x.hi, x.c)
		}
		for _, a := range x.a {
			sb.WriteByte(' ')
			if !walk(a) {
				return false
			}
		}
		sb.WriteByte(')')
		return true
	}
	if !walk(t) {
		return ""
	}
	return sb.String()
}

func (ps *PathState) remember(t *Term, val bool) {
	if t.op == ONot {
		ps.remember(t.a[0], !val)
		return
	}
	if t.op == OAnd && val {
		for _, a := range t.a {
			ps.remember(a, true)
		}
		return
	}
	if t.op == OOr && !val {
		for _, a := range t.a {
			ps.remember(a, false)
		}
		return
	}
	if k := termKey(t); k != "" {
		if ps.known == nil {
			ps.known = map[string]bool{}
		}
		ps.known[k] = val
		if t.op == OEq {
			// symmetric
			if k2 := termKey(&Term{op: OEq, a: []*Term{t.a[1], t.a[0]}}); k2 != "" {
				ps.known[k2] = val
			}
		}
	}
}

func (ps *PathState) recall(t *Term) (bool, bool) {
	neg := false
	for t.op == ONot {
		t = t.a[0]
		neg = !neg
	}
	if ps.known == nil {
		return false, false
	}
	k := termKey(t)
	if k == "" {
		return false, false
	}
	v, ok := ps.known[k]
	return v != neg, ok
}

func (in *Interp) addPC(t *Term) {
	in.ps.pc = append(in.ps.pc, t)
	in.learn(t)
	in.ps.remember(t, true)
}

// singleByteVar reports the one variable of t when t mentions exactly one variable, of width <= 8,
// and is small enough to be tabulated.
func singleByteVar(t *Term) (string, int, bool) {
	name, w, n, nodes := "", 0, 0, 0
	var walk func(x *Term) bool
	walk = func(x *Term) bool {
		nodes++
		if nodes > 64 {
			return false
		}
		if x.op == OVar {
			if n == 0 {
				name, w, n = x.name, x.w, 1
			} else if x.name != name {
				return false
			}
			return true
		}
		for _, a := range x.a {
			if !walk(a) {
				return false
			}
		}
		return true
	}
	if !walk(t) || n == 0 || w > 8 || w == 0 {
		return "", 0, false
	}
	return name, w, true
}

func (ps *PathState) domain(name string, w int) *[4]uint64 {
	if ps.dom == nil {
		ps.dom = map[string]*[4]uint64{}
	}
	d, ok := ps.dom[name]
	if !ok {
		d = &[4]uint64{}
		for v := 0; v < 1<<uint(w); v++ {
			d[v>>6] |= 1 << uint(v&63)
		}
		ps.dom[name] = d
	}
	return d
}

// learn narrows the value set of a byte variable when a single-variable conjunct joins the path condition.
func (in *Interp) learn(t *Term) {
	if t.op == OAnd {
		for _, a := range t.a {
			in.learn(a)
		}
		return
	}
	name, w, ok := singleByteVar(t)
	if !ok {
		return
	}
	d := in.ps.domain(name, w)
	m := Model{}
	for v := 0; v < 1<<uint(w); v++ {
		if d[v>>6]&(1<<uint(v&63)) == 0 {
			continue
		}
		m[name] = uint64(v)
		if evalTerm(t, m) == 0 {
			d[v>>6] &^= 1 << uint(v&63)
		}
	}
}

// quick decides a single-variable condition from the variable's value set: 1 = always true, 0 = always
// false, -1 = both possible / not applicable. Sound because the value set over-approximates pc.
func (in *Interp) quick(t *Term) int {
	name, w, ok := singleByteVar(t)
	if !ok {
		return -1
	}
	d := in.ps.domain(name, w)
	m := Model{}
	sawT, sawF := false, false
	for v := 0; v < 1<<uint(w); v++ {
		if d[v>>6]&(1<<uint(v&63)) == 0 {
			continue
		}
		m[name] = uint64(v)
		if evalTerm(t, m) != 0 {
			sawT = true
		} else {
			sawF = true
		}
		if sawT && sawF {
			return -1
		}
	}
	switch {
	case sawT && !sawF:
		return 1
	case sawF && !sawT:
		return 0
	}
	return -1
}

// check asks the solver whether pc ∧ extra is satisfiable.
func (in *Interp) check(extra *Term) (string, Model) {
	ps := in.ps
	for ps.sent < len(ps.pc) {
		in.solver.Assert(ps.pc[ps.sent])
		ps.sent++
	}
	res, m := in.solver.Check(extra)
	return res, m
}

func (in *Interp) ensureModel() {
	ps := in.ps
	if ps.model != nil {
		return
	}
	res, m := in.check(nil)
	switch res {
	case "sat":
		ps.model = m
	case "unsat":
		panic(pathEnd{"fault", "path condition of a replayed prefix is unsat"})
	default:
		panic(pathEnd{"unknown", "solver unknown on path condition"})
	}
}

func (in *Interp) decideVal(v Value) bool {
	switch c := v.(type) {
	case bool:
		return c
	case Sym:
		return in.decide(c.t)
	}
	panic(fmt.Sprintf("decide on %T", v))
}

// decide resolves a symbolic condition, forking the exploration when both outcomes are feasible.
func (in *Interp) decide(t *Term) bool {
	if t.isConst() {
		return t.c != 0
	}
	if t.w != 0 {
		panic("decide on non-bool term")
	}
	ps := in.ps
	if q := in.quick(t); q >= 0 {
		ps.quickHits++
		return q == 1
	}
	if v, ok := ps.recall(t); ok {
		ps.quickHits++
		return v
	}
	n := len(ps.taken)
	if n < len(ps.prefix) {
		d := ps.prefix[n] != 0
		ps.taken = append(ps.taken, ps.prefix[n])
		if d {
			in.addPC(t)
		} else {
			in.addPC(mkNot(t))
		}
		if n+1 == len(ps.prefix) {
			ps.model = ps.prefixModel
		} else {
			ps.model = nil
		}
		return d
	}
	in.ensureModel()
	v := evalTerm(t, ps.model) != 0
	other := t
	if v {
		other = mkNot(t)
	}
	res, m := in.check(other)
	switch res {
	case "sat":
		alt := make([]int32, n+1)
		copy(alt, ps.taken)
		if !v {
			alt[n] = 1
		}
		ps.pending = append(ps.pending, WorkItem{prefix: alt, model: m})
		ps.forks++
	case "unknown":
		in.noteIncomplete("unknown", "solver returned unknown for a branch condition at "+in.whereNow())
	}
	if v {
		ps.taken = append(ps.taken, 1)
		in.addPC(t)
	} else {
		ps.taken = append(ps.taken, 0)
		in.addPC(mkNot(t))
	}
	return v
}

func (in *Interp) whereNow() string {
	if in.curFrame != nil {
		return in.curFrame.info.name
	}
	return "?"
}

// choose is an explicit n-way structural fork (no solver involved).
func (in *Interp) choose(n int) int {
	if n <= 1 {
		return 0
	}
	ps := in.ps
	k := len(ps.taken)
	if k < len(ps.prefix) {
		d := ps.prefix[k]
		ps.taken = append(ps.taken, d)
		if k+1 == len(ps.prefix) {
			ps.model = ps.prefixModel
		}
		return int(d)
	}
	in.ensureModel()
	for alt := n - 1; alt >= 1; alt-- {
		p := make([]int32, k+1)
		copy(p, ps.taken)
		p[k] = int32(alt)
		ps.pending = append(ps.pending, WorkItem{prefix: p, model: ps.model})
	}
	ps.forks += n - 1
	ps.taken = append(ps.taken, 0)
	return 0
}

// assume adds a constraint; an infeasible assumption ends the path silently.
func (in *Interp) assume(t *Term) {
	if t.isTrue() {
		return
	}
	ps := in.ps
	if t.isFalse() {
		panic(pathEnd{"infeasible", "assume(false)"})
	}
	if len(ps.taken) < len(ps.prefix) {
		// replaying: known feasible
		in.addPC(t)
		ps.model = nil
		return
	}
	in.ensureModel()
	if evalTerm(t, ps.model) != 0 {
		in.addPC(t)
		return
	}
	res, m := in.check(t)
	switch res {
	case "sat":
		in.addPC(t)
		ps.model = m
	case "unsat":
		panic(pathEnd{"infeasible", "assumption infeasible"})
	default:
		panic(pathEnd{"unknown", "solver unknown on assumption"})
	}
}

func (in *Interp) noteIncomplete(kind, msg string) {
	in.eng.noteIncomplete(kind, msg)
}

// concretize forks over the feasible values of t in [lo,hi] (signed interpretation of the term's width).
func (in *Interp) concretize(t *Term, lo, hi int) int {
	if t.isConst() {
		return int(sext64(t.c, t.w))
	}
	for k := lo; k < hi; k++ {
		if in.decide(mkEq(t, mkConst(uint64(int64(k)), t.w))) {
			return k
		}
	}
	// must be hi (caller guarantees range); keep the constraint explicit
	in.assume(mkEq(t, mkConst(uint64(int64(hi)), t.w)))
	return hi
}

func (in *Interp) concreteInt(v Value, what string) int {
	switch x := v.(type) {
	case Int:
		return int(int64(x.v))
	case Sym:
		return in.concreteIntBounded(v, types.Typ[types.Int], 0, 64, what)
	}
	panic(fmt.Sprintf("concreteInt %T", v))
}

// concreteIntBounded concretises a symbolic integer expected to be small: it forks on "lo<=v<=hi";
// outside that range the path is Unsupported (reported, never silently dropped).
func (in *Interp) concreteIntBounded(v Value, t types.Type, lo, hi int, what string) int {
	switch x := v.(type) {
	case Int:
		return int(int64(x.v))
	case Sym:
		w := x.t.w
		inR := mkAnd(mkBin(OSLe, mkConst(uint64(int64(lo)), w), x.t), mkBin(OSLe, x.t, mkConst(uint64(int64(hi)), w)))
		if !in.decide(inR) {
			unsup("symbolic %s outside [%d,%d]", what, lo, hi)
		}
		// binary-free linear enumeration of feasible values
		return in.concretize(x.t, lo, hi)
	}
	panic(fmt.Sprintf("concreteIntBounded %T", v))
}

func (in *Interp) concretizeFD(fd *FD) string {
	k := in.concretize(fd.sel, 0, len(fd.alts)-1)
	return fd.alts[k]
}

// freshVar creates a named solver variable, unique per path position.
func (in *Interp) freshVar(label string, w int) *Term {
	ps := in.ps
	ps.nvars++
	name := fmt.Sprintf("v%d_%s", ps.nvars, sanitize(label))
	if ps.vars == nil {
		ps.vars = map[string]int{}
	}
	ps.vars[name] = w
	return mkVar(name, w)
}

func sanitize(s string) string {
	var sb strings.Builder
	for _, c := range s {
		if c >= 'a' && c <= 'z' || c >= 'A' && c <= 'Z' || c >= '0' && c <= '9' || c == '_' {
			sb.WriteRune(c)
		} else {
			sb.WriteByte('_')
		}
	}
	return sb.String()
}

// finalModel returns a model of the complete path condition.
func (in *Interp) finalModel() Model {
	ps := in.ps
	if ps.model != nil {
		return ps.model
	}
	res, m := in.check(nil)
	if res == "sat" {
		ps.model = m
		return m
	}
	return nil
}

func modelString(m Model) string {
	keys := make([]string, 0, len(m))
	for k := range m {
		keys = append(keys, k)
	}
	sort.Strings(keys)
	var sb strings.Builder
	for _, k := range keys {
		fmt.Fprintf(&sb, "%s=%#x ", k, m[k])
	}
	return strings.TrimSpace(sb.String())
}
