package main

import (
	"bufio"
	"fmt"
	"io"
	"os"
	"os/exec"
	"strconv"
	"strings"
	"time"
)

// Solver wraps one long-lived SMT solver process (z3 -in by default).
// Protocol per path: Reset(); Assert(pc conjuncts) lazily; Check(extra) = push/assert/check-sat/get-value/pop.
type Solver struct {
	kind      string
	cmd       *exec.Cmd
	in        *bufio.Writer
	inRaw     io.WriteCloser
	out       *bufio.Reader
	sess      int
	nextDef   int
	declared  map[string]int
	varOrder  []string
	Queries   int
	Sat       int
	Unsat     int
	Unknown   int
	Errors    int
	Time      time.Duration
	timeoutMs int
	log       *os.File
	useLogic  bool
	logic     string // QF_BV, or QF_FPBV for harnesses that use the floating-point fragment
}

func solverArgv(kind string, timeoutMs int) []string {
	switch kind {
	case "z3-new":
		return []string{"z3-new", "-in"}
	case "cvc5":
		return []string{"cvc5", "--incremental", "--produce-models", "--lang=smt2", fmt.Sprintf("--tlimit-per=%d", timeoutMs)}
	}
	return []string{"z3", "-in"}
}

func newSolver(kind string, timeoutMs int, logic string) *Solver {
	if kind == "" {
		kind = "z3"
	}
	s := &Solver{kind: kind, timeoutMs: timeoutMs, useLogic: kind == "z3", logic: logic}
	if s.logic == "" {
		s.logic = "QF_BV"
	}
	s.start()
	return s
}

func (s *Solver) start() {
	argv := solverArgv(s.kind, s.timeoutMs)
	c := exec.Command(argv[0], argv[1:]...)
	in, err := c.StdinPipe()
	if err != nil {
		panic(err)
	}
	out, err := c.StdoutPipe()
	if err != nil {
		panic(err)
	}
	c.Stderr = nil
	if err := c.Start(); err != nil {
		panic(fmt.Sprintf("cannot start solver %v: %v", argv, err))
	}
	s.cmd = c
	s.inRaw = in
	s.in = bufio.NewWriterSize(in, 1<<16)
	s.out = bufio.NewReaderSize(out, 1<<16)
	s.preamble()
}

func (s *Solver) preamble() {
	s.sess++
	s.nextDef = 0
	s.declared = map[string]int{}
	s.varOrder = s.varOrder[:0]
	if s.kind != "cvc5" {
		s.send("(set-option :produce-models true)")
		s.send(fmt.Sprintf("(set-option :timeout %d)", s.timeoutMs))
	}
	if s.useLogic || s.kind == "cvc5" || s.logic != "QF_BV" {
		s.send("(set-logic " + s.logic + ")")
	}
}

func (s *Solver) send(line string) {
	if s.log != nil {
		fmt.Fprintln(s.log, line)
	}
	s.in.WriteString(line)
	s.in.WriteByte('\n')
}

func (s *Solver) Close() {
	if s.cmd != nil {
		s.send("(exit)")
		s.in.Flush()
		s.inRaw.Close()
		done := make(chan struct{})
		go func() { s.cmd.Wait(); close(done) }()
		select {
		case <-done:
		case <-time.After(2 * time.Second):
			s.cmd.Process.Kill()
		}
		s.cmd = nil
	}
}

// Reset starts a new session (one per path).
func (s *Solver) Reset() {
	s.send("(reset)")
	s.preamble()
}

func (s *Solver) restart() {
	if s.cmd != nil {
		s.cmd.Process.Kill()
		s.cmd.Wait()
	}
	s.start()
}

// name returns a solver-level name for t, emitting declarations / definitions as needed.
func (s *Solver) name(t *Term) string {
	switch t.op {
	case OConst:
		return constLit(t.c, t.w)
	case OVar:
		if _, ok := s.declared[t.name]; !ok {
			s.declared[t.name] = t.w
			s.varOrder = append(s.varOrder, t.name)
			s.send(fmt.Sprintf("(declare-const %s %s)", t.name, sortOf(t.w)))
		}
		return t.name
	}
	if t.sess == s.sess && t.id > 0 {
		return "t!" + strconv.Itoa(t.id)
	}
	// children first (iterative-ish: recursion depth equals term depth; ok for our sizes)
	names := make([]string, len(t.a))
	for i, x := range t.a {
		names[i] = s.name(x)
	}
	var sb strings.Builder
	sb.WriteString("(")
	switch t.op {
	case OExtract:
		fmt.Fprintf(&sb, "(_ extract %d %d)", t.hi, t.c)
	case OZExt:
		fmt.Fprintf(&sb, "(_ zero_extend %d)", t.c)
	case OSExt:
		fmt.Fprintf(&sb, "(_ sign_extend %d)", t.c)
	default:
		sb.WriteString(opNames[t.op])
	}
	for _, n := range names {
		sb.WriteString(" ")
		sb.WriteString(n)
	}
	sb.WriteString(")")
	s.nextDef++
	t.sess, t.id = s.sess, s.nextDef
	nm := "t!" + strconv.Itoa(t.id)
	s.send(fmt.Sprintf("(define-fun %s () %s %s)", nm, sortOf(t.w), sb.String()))
	return nm
}

func (s *Solver) Assert(t *Term) {
	n := s.name(t)
	s.send("(assert " + n + ")")
}

func (s *Solver) readLine() string {
	line, err := s.out.ReadString('\n')
	if err != nil {
		return "(error \"solver died: " + err.Error() + "\")"
	}
	return strings.TrimSpace(line)
}

// Check asks whether (asserted so far) ∧ extra is satisfiable. extra may be nil.
// Returns "sat", "unsat" or "unknown"; with sat a full model of every declared variable.
func (s *Solver) Check(extra *Term) (string, Model) {
	t0 := time.Now()
	defer func() { s.Time += time.Since(t0) }()
	s.Queries++
	var en string
	if extra != nil {
		en = s.name(extra)
	}
	s.send("(push 1)")
	if extra != nil {
		s.send("(assert " + en + ")")
	}
	s.send("(check-sat)")
	s.in.Flush()
	res := s.readLine()
	for res == "" {
		res = s.readLine()
	}
	var model Model
	switch {
	case res == "sat":
		s.Sat++
		model = Model{}
		if len(s.varOrder) > 0 {
			s.send("(get-value (" + strings.Join(s.varOrder, " ") + "))")
			s.in.Flush()
			txt := s.readSexp()
			if !parseModel(txt, model) {
				s.Errors++
				res = "unknown"
			}
		}
	case res == "unsat":
		s.Unsat++
	case strings.HasPrefix(res, "(error"):
		s.Errors++
		fmt.Fprintln(os.Stderr, "solver error:", res)
		res = "unknown"
		s.send("(pop 1)")
		s.in.Flush()
		return res, nil
	default:
		s.Unknown++
		res = "unknown"
	}
	s.send("(pop 1)")
	return res, model
}

func (s *Solver) readSexp() string {
	var sb strings.Builder
	depth := 0
	started := false
	for {
		line, err := s.out.ReadString('\n')
		sb.WriteString(line)
		for _, ch := range line {
			if ch == '(' {
				depth++
				started = true
			} else if ch == ')' {
				depth--
			}
		}
		if err != nil || (started && depth <= 0) {
			break
		}
	}
	return sb.String()
}

func parseModel(txt string, m Model) bool {
	if strings.Contains(txt, "(error") {
		return false
	}
	// tokens: ( ( name value ) ( name value ) ... ) where value is #x.. #b.. true false or (_ bvN w)
	toks := strings.Fields(strings.NewReplacer("(", " ( ", ")", " ) ").Replace(txt))
	i := 0
	for i < len(toks) {
		if toks[i] == "(" && i+2 < len(toks) && toks[i+1] != "(" {
			name := toks[i+1]
			v := toks[i+2]
			var val uint64
			switch {
			case v == "true":
				val = 1
			case v == "false":
				val = 0
			case strings.HasPrefix(v, "#x"):
				val, _ = strconv.ParseUint(v[2:], 16, 64)
			case strings.HasPrefix(v, "#b"):
				val, _ = strconv.ParseUint(v[2:], 2, 64)
			case v == "(" && i+4 < len(toks) && toks[i+3] == "_" && strings.HasPrefix(toks[i+4], "bv"):
				val, _ = strconv.ParseUint(toks[i+4][2:], 10, 64)
			default:
				return false
			}
			m[name] = val
		}
		i++
	}
	return true
}
