package main

import (
	"encoding/json"
	"flag"
	"fmt"
	"os"
	"os/exec"
	"path/filepath"
	"regexp"
	"sort"
	"strings"
	"time"
)

// ---- configuration files ----

type HarnessSpec struct {
	Fn       string         `json:"fn"`
	Pkg      string         `json:"pkg"` // overrides the property's package
	Quick    map[string]int `json:"quick"`
	Thorough map[string]int `json:"thorough"`
	Covers   []string       `json:"covers"`
	SkipQuick bool          `json:"skip_quick"`
	MaxSteps int            `json:"max_steps"`
	Solver   string         `json:"solver"` // back end for this harness when none is forced on the command line (z3 | z3-new | cvc5)
	Logic    string         `json:"logic"` // SMT logic for this harness (default QF_BV; QF_FPBV when floats are symbolic)
}

type PropertySpec struct {
	Pkg         string        `json:"pkg"`
	Harnesses   []HarnessSpec `json:"harnesses"`
	Assumptions []string      `json:"assumptions"`
	Stubs       []string      `json:"stubs"`
	Bounds      string        `json:"bounds"`
	Rewrites    map[string][][2]string `json:"rewrites"`
	Outside     []string      `json:"outside"`
}

type KnownFinding struct {
	Property string `json:"property"`
	Status   string `json:"status"` // known | fixed
	Harness  string `json:"harness"`
	Label    string `json:"label"`       // exact label, or
	LabelRe  string `json:"label_regex"` // regular expression on the label
	What     string `json:"what"`
	Commit   string `json:"commit,omitempty"`
}

func loadJSON(path string, v any) error {
	data, err := os.ReadFile(path)
	if err != nil {
		return err
	}
	return json.Unmarshal(data, v)
}

func (k *KnownFinding) matches(prop, harness, label string) bool {
	if k.Status != "known" || k.Property != prop {
		return false
	}
	if k.Harness != "" && k.Harness != harness {
		return false
	}
	if k.Label != "" {
		return k.Label == label
	}
	if k.LabelRe != "" {
		ok, _ := regexp.MatchString("^(?:"+k.LabelRe+")$", label)
		return ok
	}
	return false
}

// ---- native replay ----

var harnessFuncRe = regexp.MustCompile(`(?m)^func (Verif[A-Za-z0-9_]+)\(\)`)

type replayJob struct {
	Harness string         `json:"harness"`
	Params  map[string]int `json:"params"`
	Trace   []TraceEntry   `json:"trace"`
	// bookkeeping (also stored in the replay file for readers)
	Property string   `json:"property,omitempty"`
	Kind     string   `json:"kind,omitempty"`
	Label    string   `json:"label,omitempty"`
	Msg      string   `json:"message,omitempty"`
	Expect   []string `json:"expected_events,omitempty"`
	Pkg      string   `json:"pkg,omitempty"`
	out      []string
}

// runNativeReplays executes the jobs with the native twin harness under `go test -overlay`.
func runNativeReplays(cfg Config, hf *harnessFiles, pkg string, jobs []*replayJob) error {
	// findings of kind "race" (a store into state shared between evaluations) are confirmed by the Go race detector:
	// their replays run in a process of their own built with -race, one subtest per replay
	var plain, race []*replayJob
	for _, j := range jobs {
		if j.Kind == "race" {
			race = append(race, j)
		} else {
			plain = append(plain, j)
		}
	}
	if len(race) > 0 && len(plain) > 0 {
		if err := runNativeReplays(cfg, hf, pkg, plain); err != nil {
			return err
		}
		return runNativeReplays(cfg, hf, pkg, race)
	}
	raceMode := len(race) > 0
	if len(jobs) == 0 {
		return nil
	}
	scratch, err := os.MkdirTemp("", "verif-replay-")
	if err != nil {
		return err
	}
	defer os.RemoveAll(scratch)
	pkgDir := map[string]string{"yqlib": "pkg/yqlib", "cmd": "cmd"}[pkg]
	// registry + test driver
	var names []string
	repl := map[string]string{}
	for virt, real := range hf.nativeRepl {
		// harness files of the other package go into the overlay too (rewritten repository files of pkg/yqlib may
		// call harness stubs while pkg/yqlib is built as a dependency of cmd); only this package's harnesses are registered
		repl[virt] = real
		if !strings.HasPrefix(virt, filepath.Join(cfg.Repo, pkgDir)+"/") {
			continue
		}
		data, _ := os.ReadFile(real)
		for _, m := range harnessFuncRe.FindAllStringSubmatch(string(data), -1) {
			names = append(names, m[1])
		}
	}
	ri := 0
	for path, content := range hf.rewritten {
		ri++
		rp := filepath.Join(scratch, fmt.Sprintf("rewritten_%d.go", ri))
		os.WriteFile(rp, content, 0o644)
		repl[path] = rp
	}
	sort.Strings(names)
	var sb strings.Builder
	fmt.Fprintf(&sb, "package %s\n\nimport (\n\t\"os\"\n\t\"path/filepath\"\n\t\"strings\"\n\t\"testing\"\n)\n\n", pkg)
	sb.WriteString("var verifRegistry = map[string]func(){\n")
	for _, n := range names {
		fmt.Fprintf(&sb, "\t%q: %s,\n", n, n)
	}
	sb.WriteString("}\n\nfunc TestVerifReplay(t *testing.T) {\n\tfiles, _ := filepath.Glob(filepath.Join(os.Getenv(\"VERIF_REPLAY_DIR\"), \"*.trace.json\"))\n\tfor _, f := range files {\n\t\tvar lines []string\n\t\t// a data race reported while the subtest runs fails that subtest (testing marks the running test)\n\t\tok := t.Run(filepath.Base(f), func(st *testing.T) { lines = verifRunReplay(f, verifRegistry) })\n\t\tif !ok {\n\t\t\tlines = append(lines, \"RACE\")\n\t\t}\n\t\t_ = os.WriteFile(f+\".out\", []byte(strings.Join(lines, \"\\n\")+\"\\n\"), 0o644)\n\t}\n}\n")
	regPath := filepath.Join(scratch, "registry_test.go")
	if err := os.WriteFile(regPath, []byte(sb.String()), 0o644); err != nil {
		return err
	}
	repl[filepath.Join(cfg.Repo, pkgDir, "zz_verif_registry_test.go")] = regPath
	ov, _ := json.Marshal(map[string]any{"Replace": repl})
	ovPath := filepath.Join(scratch, "overlay.json")
	os.WriteFile(ovPath, ov, 0o644)
	trDir := filepath.Join(scratch, "traces")
	os.MkdirAll(trDir, 0o755)
	for i, j := range jobs {
		data, _ := json.Marshal(j)
		os.WriteFile(filepath.Join(trDir, fmt.Sprintf("%05d.trace.json", i)), data, 0o644)
	}
	goArgs := []string{"test", "-vet=off", "-count=1", "-timeout", "300s", "-overlay", ovPath, "-run", "^TestVerifReplay$", "./" + pkgDir}
	if raceMode {
		goArgs = append([]string{"test", "-race"}, goArgs[1:]...)
	}
	cmd := exec.Command("go", goArgs...)
	cmd.Dir = cfg.Repo
	cmd.Env = append(os.Environ(), "GOFLAGS=-mod=mod", "GOPROXY=off", "GOSUMDB=off", "GOTOOLCHAIN=local", "VERIF_REPLAY_DIR="+trDir)
	outb, err := cmd.CombinedOutput()
	for i, j := range jobs {
		data, rerr := os.ReadFile(filepath.Join(trDir, fmt.Sprintf("%05d.trace.json.out", i)))
		if rerr != nil {
			j.out = []string{"NOOUTPUT"}
			continue
		}
		j.out = strings.Split(strings.TrimRight(string(data), "\n"), "\n")
		if len(j.out) == 1 && j.out[0] == "" {
			j.out = nil
		}
	}
	if err != nil {
		missing := false
		for _, j := range jobs {
			if len(j.out) == 1 && j.out[0] == "NOOUTPUT" {
				missing = true
			}
		}
		if missing {
			return fmt.Errorf("native replay run failed: %v\n%s", err, tail(string(outb), 4000))
		}
	}
	return nil
}

func tail(s string, n int) string {
	if len(s) > n {
		return s[len(s)-n:]
	}
	return s
}

func containsLine(lines []string, want string) bool {
	for _, l := range lines {
		if l == want {
			return true
		}
	}
	return false
}

func hasPrefixLine(lines []string, p string) bool {
	for _, l := range lines {
		if strings.HasPrefix(l, p) {
			return true
		}
	}
	return false
}

// ---- evidence ----

type Evidence struct {
	PropertyID  string         `json:"property_id"`
	Tier        string         `json:"tier"`
	Seed        int64          `json:"seed"`
	Level       string         `json:"level"`
	Coverage    map[string]any `json:"coverage"`
	Assumptions []string       `json:"assumptions"`
	WallS       float64        `json:"wall_s"`
	Violations  int            `json:"violations"`
}

func cmdCheck(args []string) int {
	fs := flag.NewFlagSet("check", flag.ExitOnError)
	var cfg Config
	baseFlags(fs, &cfg)
	prop := fs.String("prop", "", "property id")
	verifDir := fs.String("verif", "/verif", "verif root")
	replayPath := fs.String("replay", "", "re-run a stored replay file natively")
	only := fs.String("only", "", "comma-separated harness names (default all of the property)")
	noEvidence := fs.Bool("no-evidence", false, "do not write the evidence file")
	fs.Parse(args)
	if s := os.Getenv("VERIF_SEED"); s != "" && cfg.Seed == 0 {
		fmt.Sscanf(s, "%d", &cfg.Seed)
	}
	if t := os.Getenv("VERIF_TIER"); t != "" && (t == "quick" || t == "thorough") {
		// explicit command-line tier wins; VERIF_TIER only fills the default
		set := false
		fs.Visit(func(f *flag.Flag) {
			if f.Name == "tier" {
				set = true
			}
		})
		if !set {
			cfg.Tier = t
		}
	}
	cfg.HarnessDir = filepath.Join(*verifDir, "harness")
	t0 := time.Now()

	if *replayPath != "" {
		return doReplayFile(cfg, *replayPath)
	}

	var specs map[string]*PropertySpec
	if err := loadJSON(filepath.Join(*verifDir, "checks.json"), &specs); err != nil {
		fmt.Fprintln(os.Stderr, "checks.json:", err)
		return 2
	}
	spec, ok := specs[*prop]
	if !ok {
		fmt.Fprintln(os.Stderr, "unknown property", *prop)
		return 2
	}
	var known []KnownFinding
	if err := loadJSON(filepath.Join(*verifDir, "known_findings.json"), &known); err != nil && !os.IsNotExist(err) {
		fmt.Fprintln(os.Stderr, "known_findings.json:", err)
		return 2
	}
	cfg.Rewrites = spec.Rewrites
	if cfg.Tier == "thorough" {
		cfg.TimeoutMs = 60000
		if cfg.Samples == 5 {
			cfg.Samples = 25
		}
	}
	e, hf, err := loadEngine(cfg)
	if e != nil {
		e.knownLabel = func(harness, label string) bool {
			for i := range known {
				if known[i].matches(*prop, harness, label) {
					return true
				}
			}
			return false
		}
	}
	if err != nil {
		fmt.Fprintln(os.Stderr, "MACHINERY-FAULT load:", err)
		return 2
	}
	needCmd := spec.Pkg == "cmd"
	for _, h := range spec.Harnesses {
		if h.Pkg == "cmd" {
			needCmd = true
		}
	}
	if err := e.runInit(needCmd); err != nil {
		fmt.Fprintln(os.Stderr, "MACHINERY-FAULT", err)
		return 2
	}
	onlySet := map[string]bool{}
	for _, n := range strings.Split(*only, ",") {
		if n != "" {
			onlySet[n] = true
		}
	}
	exit := 0
	var allStats []*HarnessStats
	var violations, knownHit, spurious []string
	var samplesOut []any
	tracesValidated := 0
	totalStates, totalTrans := 0, 0
	incompleteNotes := []string{}
	paramsUsed := map[string]map[string]int{}
	type failKey struct{ harness, label string }
	var jobs []*replayJob
	failJobs := map[failKey][]*replayJob{}
	var sampleJobs []*replayJob
	for _, h := range spec.Harnesses {
		if len(onlySet) > 0 && !onlySet[h.Fn] {
			continue
		}
		if cfg.Tier == "quick" && h.SkipQuick {
			continue
		}
		params := h.Quick
		if cfg.Tier == "thorough" && h.Thorough != nil {
			params = h.Thorough
		}
		e.cfg.Params = params
		paramsUsed[h.Fn] = params
		if h.MaxSteps > 0 {
			e.cfg.MaxSteps = h.MaxSteps
		} else {
			e.cfg.MaxSteps = cfg.MaxSteps
		}
		e.cfg.Logic = h.Logic
		e.cfg.Solver = cfg.Solver
		if cfg.Solver == "" && h.Solver != "" {
			e.cfg.Solver = h.Solver
		}
		pkgName := spec.Pkg
		if h.Pkg != "" {
			pkgName = h.Pkg
		}
		pkg := e.yq
		if pkgName == "cmd" {
			pkg = e.cmd
		}
		st, err := e.explore(h.Fn, pkg)
		if err != nil {
			fmt.Fprintln(os.Stderr, "MACHINERY-FAULT", err)
			return 2
		}
		allStats = append(allStats, st)
		totalStates += st.Paths
		totalTrans += st.Forks
		fmt.Printf("harness %s: %d paths (%d infeasible), %d symbolic decisions, %d SSA steps, %.1fs\n", h.Fn, st.Paths, st.Infeasible, st.Forks, st.Steps, st.Wall)
		if st.Unsupported+st.Unwind+st.Unknown+st.Faults > 0 || st.Truncated {
			for m, n := range st.Messages {
				incompleteNotes = append(incompleteNotes, fmt.Sprintf("%s: x%d %s", h.Fn, n, m))
			}
			if st.Truncated {
				incompleteNotes = append(incompleteNotes, h.Fn+": path budget exhausted")
			}
		}
		if st.Paths == 0 {
			incompleteNotes = append(incompleteNotes, h.Fn+": VACUOUS — no path completed")
		}
		for _, c := range h.Covers {
			if st.Covers[c] == 0 {
				incompleteNotes = append(incompleteNotes, fmt.Sprintf("%s: VACUOUS — cover label %q never reached", h.Fn, c))
			}
		}
		// group failures by label; keep up to 3 candidates each
		for i := range st.failures {
			f := &st.failures[i]
			k := failKey{h.Fn, f.Label}
			if len(failJobs[k]) >= 3 {
				continue
			}
			j := &replayJob{Harness: h.Fn, Params: params, Trace: f.Trace, Property: *prop, Kind: f.Kind, Label: f.Label, Msg: f.Msg, Expect: f.Events, Pkg: pkgName}
			failJobs[k] = append(failJobs[k], j)
			jobs = append(jobs, j)
		}
		for _, s := range st.samples {
			j := &replayJob{Harness: h.Fn, Params: params, Trace: s.Trace, Property: *prop, Kind: "sample", Expect: s.Events, Pkg: pkgName}
			sampleJobs = append(sampleJobs, j)
			jobs = append(jobs, j)
		}
	}
	byPkg := map[string][]*replayJob{}
	for _, j := range jobs {
		byPkg[j.Pkg] = append(byPkg[j.Pkg], j)
	}
	for pk, js := range byPkg {
		if err := runNativeReplays(cfg, hf, pk, js); err != nil {
			fmt.Fprintln(os.Stderr, "MACHINERY-FAULT", err)
			return 2
		}
	}
	// witness replays: native observable lines must equal the engine's
	witnessDisagree := 0
	for _, j := range sampleJobs {
		if strings.Join(j.out, "\n") == strings.Join(j.Expect, "\n") {
			tracesValidated++
			if len(samplesOut) < 8 {
				samplesOut = append(samplesOut, map[string]any{"harness": j.Harness, "inputs": traceString(j.Trace), "observations": j.Expect, "native_agrees": true})
			}
		} else {
			witnessDisagree++
			fmt.Printf("WARNING witness replay disagrees for %s inputs=%s\n  engine: %v\n  native: %v\n", j.Harness, traceString(j.Trace), j.Expect, j.out)
		}
	}
	// failures
	replayDir := filepath.Join(*verifDir, "replays")
	os.MkdirAll(replayDir, 0o755)
	var keys []failKey
	for k := range failJobs {
		keys = append(keys, k)
	}
	sort.Slice(keys, func(i, j int) bool { return keys[i].harness+keys[i].label < keys[j].harness+keys[j].label })
	knownPrinted := map[*KnownFinding]int{}
	for _, k := range keys {
		cands := failJobs[k]
		var hit *replayJob
		for _, j := range cands {
			ok := false
			if j.Kind == "panic" {
				ok = hasPrefixLine(j.out, "PANIC ")
			} else if j.Kind == "race" {
				ok = containsLine(j.out, "RACE")
			} else {
				ok = containsLine(j.out, "ASSERTFAIL "+j.Label)
			}
			if ok {
				hit = j
				break
			}
		}
		isKnown := false
		var kf *KnownFinding
		for i := range known {
			if known[i].matches(*prop, k.harness, k.label) {
				isKnown, kf = true, &known[i]
			}
		}
		if hit == nil {
			msg := fmt.Sprintf("harness=%s label=%q inputs=%s native=%v", k.harness, k.label, traceString(cands[0].Trace), cands[0].out)
			spurious = append(spurious, msg)
			fmt.Println("WARNING spurious counterexample (not reproduced natively):", msg)
			continue
		}
		if isKnown {
			knownHit = append(knownHit, k.harness+": "+k.label)
			if knownPrinted[kf] == 0 {
				fmt.Printf("KNOWN-FINDING: property=%s %s [first seen: %s %q inputs %s]\n", *prop, kf.What, k.harness, k.label, traceString(hit.Trace))
			}
			knownPrinted[kf]++
			continue
		}
		name := fmt.Sprintf("%s-%s-%s.json", *prop, k.harness, sanitize(k.label))
		if len(name) > 150 {
			name = name[:150] + ".json"
		}
		path := filepath.Join(replayDir, name)
		data, _ := json.MarshalIndent(hit, "", " ")
		os.WriteFile(path, data, 0o644)
		violations = append(violations, k.harness+": "+k.label)
		fmt.Printf("counterexample reproduced natively: harness=%s %s %s inputs=%s\n", k.harness, hit.Kind, hit.Msg, traceString(hit.Trace))
		for _, l := range hit.out {
			fmt.Println("    native:", l)
		}
		fmt.Printf("VIOLATION property=%s replay=%s\n", *prop, path)
		exit = 1
	}
	if len(samplesOut) == 0 {
		samplesOut = append(samplesOut, map[string]any{"note": "no sampled path"})
	}
	// evidence
	var fnList []map[string]any
	type kv struct {
		k string
		v int
	}
	var fsteps []kv
	for k, v := range e.funcSteps {
		if strings.Contains(k, "mikefarah/yq") && !strings.Contains(k, ".Verif") && !strings.Contains(k, ".verif") && !strings.Contains(k, "zz_verif") {
			fsteps = append(fsteps, kv{k, v})
		}
	}
	sort.Slice(fsteps, func(i, j int) bool { return fsteps[i].v > fsteps[j].v })
	for _, f := range fsteps {
		fnList = append(fnList, map[string]any{"fn": strings.ReplaceAll(f.k, "github.com/mikefarah/yq/v4/", ""), "ssa_instructions_executed": f.v})
	}
	complete := len(incompleteNotes) == 0 && witnessDisagree == 0 && len(spurious) == 0
	cov := map[string]any{
		"states":                        max(totalStates, 1),
		"transitions":                   max(totalTrans, 1),
		"traces_validated_against_impl": tracesValidated,
		"samples":                       samplesOut,
		"exhaustive":                    complete,
		"explanation":                   "states = completed symbolic paths of the harness functions over the SSA of /repo's current source; transitions = solver-decided branch forks; every path condition and assertion was decided by the SMT solver (sat/unsat) within the bounds below",
		"functions_encoded":             fnList,
		"n_functions_encoded":           len(fnList),
		"harnesses":                     allStats,
		"harness_parameters":            paramsUsed,
		"bounds":                        spec.Bounds,
		"outside_claim":                 spec.Outside,
		"stubs":                         spec.Stubs,
		"solver":                        map[string]any{"kind": solverKindName(cfg.Solver), "queries": solverTotals.Queries, "sat": solverTotals.Sat, "unsat": solverTotals.Unsat, "unknown": solverTotals.Unknown, "errors": solverTotals.Errors, "time_s": solverTotals.Time.Seconds(), "per_query_timeout_ms": cfg.TimeoutMs},
		"assertion_labels_checked":      e.asserts,
		"incomplete":                    incompleteNotes,
		"spurious_counterexamples":      spurious,
		"witness_replay_disagreements":  witnessDisagree,
		"known_findings_hit":            knownHit,
		"violations":                    violations,
		"ssa_load_s":                    e.loadTime.Seconds(),
		"init_ssa_steps":                e.initSteps,
	}
	ev := Evidence{PropertyID: *prop, Tier: cfg.Tier, Seed: cfg.Seed, Level: "model_checking", Coverage: cov,
		Assumptions: spec.Assumptions, WallS: time.Since(t0).Seconds(), Violations: len(violations)}
	if !*noEvidence {
		os.MkdirAll(filepath.Join(*verifDir, "evidence"), 0o755)
		data, _ := json.MarshalIndent(ev, "", " ")
		os.WriteFile(filepath.Join(*verifDir, "evidence", *prop+".json"), data, 0o644)
	}
	fmt.Printf("property %s tier=%s: %d paths, %d forks, %d solver queries (%.1fs solver), %d witness replays agreed, %d known findings, %d violations, wall %.1fs\n",
		*prop, cfg.Tier, totalStates, totalTrans, solverTotals.Queries, solverTotals.Time.Seconds(), tracesValidated, len(knownHit), len(violations), time.Since(t0).Seconds())
	if exit == 1 {
		return 1
	}
	if !complete {
		for _, n := range incompleteNotes {
			fmt.Println("INCOMPLETE:", n)
		}
		if witnessDisagree > 0 || hasVacuous(incompleteNotes) {
			fmt.Println("MACHINERY-FAULT: encoder validation failed or harness vacuous; no verdict")
			return 2
		}
		fmt.Println("INCOMPLETE: some paths were not decided within the stated bounds (see evidence); explored part held")
		return 2
	}
	return 0
}

func hasVacuous(notes []string) bool {
	for _, n := range notes {
		if strings.Contains(n, "VACUOUS") {
			return true
		}
	}
	return false
}

func solverKindName(k string) string {
	if k == "" {
		return "z3 4.8.12 (z3 -in, QF_BV)"
	}
	return k
}

func doReplayFile(cfg Config, path string) int {
	var j replayJob
	if err := loadJSON(path, &j); err != nil {
		fmt.Fprintln(os.Stderr, err)
		return 2
	}
	var specs map[string]*PropertySpec
	pkg := "yqlib"
	if err := loadJSON(filepath.Join(filepath.Dir(cfg.HarnessDir), "checks.json"), &specs); err == nil {
		if sp, ok := specs[j.Property]; ok {
			cfg.Rewrites = sp.Rewrites
			if sp.Pkg != "" {
				pkg = sp.Pkg
			}
		}
	}
	hf, err := collectHarness(cfg)
	if err != nil {
		fmt.Fprintln(os.Stderr, err)
		return 2
	}
	if j.Pkg != "" {
		pkg = j.Pkg
	}
	if err := runNativeReplays(cfg, hf, pkg, []*replayJob{&j}); err != nil {
		fmt.Fprintln(os.Stderr, err)
		return 2
	}
	fmt.Printf("replay of %s (%s, inputs %s):\n", j.Harness, j.Label, traceString(j.Trace))
	for _, l := range j.out {
		fmt.Println("  ", l)
	}
	ok := false
	if j.Kind == "panic" {
		ok = hasPrefixLine(j.out, "PANIC ")
	} else if j.Kind == "race" {
		ok = containsLine(j.out, "RACE")
	} else {
		ok = containsLine(j.out, "ASSERTFAIL "+j.Label)
	}
	if ok {
		fmt.Printf("VIOLATION property=%s replay=%s\n", j.Property, path)
		return 1
	}
	fmt.Println("not reproduced on the current tree")
	return 0
}
