package yqlib

// Harness primitives: body-less declarations intercepted by the symbolic engine (gosym).
// The native twins (trace readers) are in api_native.go.

func verifBool(name string) bool
func verifInt64(name string) int64
func verifInt(name string) int
func verifIntRange(name string, lo, hi int) int
func verifByte(name string) byte

// verifStr: symbolic string of length 0..maxLen (length is a path split); every byte lies in one of the
// [lo,hi] byte ranges listed pairwise in ranges ("" = printable ASCII 0x20..0x7e).
func verifStr(name string, maxLen int, ranges string) string
func verifStrN(name string, n int, ranges string) string

// verifPick: finite-domain string (solver variable selects the alternative; no path split).
func verifPick(name string, alts ...string) string

// verifChoice: structural n-way path split, returns a concrete 0..n-1.
func verifChoice(name string, n int) int

// verifItoa: decimal text of v as an integer-format atom (strconv round-trip contract).
func verifItoa(v int64) string

// verifFtoa: the shortest round-trip decimal text of a finite float64 (strconv.FormatFloat(f, 'g', -1, 64)) as a
// float-format atom: strconv.ParseFloat of it gives f back (strconv contract). f must be math.Float64frombits of a
// solver variable and assumed finite.
func verifFtoa(f float64) string

// verifShared runs f. Symbolically, every store f performs into state that existed before the harness started
// (package-level state and what it reaches) is reported: two evaluations running at the same time would both perform
// it. Natively (replay) f runs in two goroutines at once under the Go race detector. f must not call verif* functions.
func verifShared(f func())

func verifAssume(c bool)
func verifAssert(c bool, label string)
func verifFail(label string)
func verifCover(label string)
func verifObserve(label string, v interface{})

func verifAnd(a, b bool) bool
func verifOr(a, b bool) bool
func verifNot(a bool) bool
func verifImplies(a, b bool) bool
func verifIteInt(c bool, a, b int64) int64
func verifEqStr(a, b string) bool
func verifLessStr(a, b string) bool

func verifParam(name string, def int) int
func verifConcreteInt(v int, lo, hi int) int
func verifConcreteStr(s string) string
func verifConcreteBool(b bool) bool
func verifSymbolicMode() bool
