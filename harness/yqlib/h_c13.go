package yqlib

import (
	"bytes"
	"container/list"
	"io"
	"strings"

	yaml "gopkg.in/yaml.v3"
)

// C13 — aliases and merge keys read as the YAML specification resolves them.
//
// Document (all keys symbolic single bytes, so every overlap pattern is decided by the solver):
//   A: &a {KA1: 1, KA2: 2}
//   B: &b {KB1: 3, KB2: 4}
//   H: {E1: 5, E2: 6} with a merge entry `<<: X` placed before, between or after the explicit keys,
//      X in { *a, [*a], [*a, *b], [*b, *a] }
//   S: *a   (a plain alias in value position)
// For every symbolic query key Q the three read routes must give what the merge-key rules define.

type c13Doc struct {
	root              *yaml.Node
	ka1, ka2          string
	kb1, kb2          string
	e1, e2            string
	mergeKind, posSel int
}

var c13MergeNames = []string{"alias", "list-one", "list-a-b", "list-b-a", "alias-to-a-merging-map", "alias-to-a-map-merging-a-list"}
var c13PosNames = []string{"merge-first", "merge-middle", "merge-last"}

// c13ExplicitAlias: when set, the second explicit value of H is an alias (*x) to an anchored scalar instead of a plain
// scalar, so that explode also has to resolve values that override merged keys.
var c13ExplicitAlias bool

// c13E1Val: the first explicit value of H. Normally the number 5; in the "key-like" variant a one-byte string drawn
// from the key alphabet, so that a *value* may spell the name of a merged key.
var c13E1Val = "5"
var c13E1Tag = "!!int"

// c13InlineA: the map that H merges is written in place of the alias *a (a merge key may hold a map, YAML merge type).
var c13InlineA bool

func c13Build(ka1, ka2, kb1, kb2, e1, e2 string, mergeKind, pos int) *yaml.Node {
	a := vMap(vStr(ka1), vInt("1"), vStr(ka2), vInt("2"))
	a.Anchor = "a"
	b := vMap(vStr(kb1), vInt("3"), vStr(kb2), vInt("4"))
	b.Anchor = "b"
	aliasA := func() *yaml.Node {
		if c13InlineA {
			// the merged map is written in place: `<<: {KA1: 1, KA2: 2}` (also as an entry of a merge list)
			return vMap(vStr(ka1), vInt("1"), vStr(ka2), vInt("2"))
		}
		return &yaml.Node{Kind: yaml.AliasNode, Value: "a", Alias: a}
	}
	aliasB := func() *yaml.Node { return &yaml.Node{Kind: yaml.AliasNode, Value: "b", Alias: b} }
	if mergeKind == 4 {
		// A: &a {<<: *b, KA1: 1, KA2: 2} — the merged map has a merge key of its own (B then precedes A in the document)
		a.Content = append([]*yaml.Node{{Kind: yaml.ScalarNode, Tag: "!!merge", Value: "<<"}, aliasB()}, a.Content...)
	}
	var cmap *yaml.Node
	if mergeKind == 5 {
		// C: &c {KB1: 7, KA2: 8}   A: &a {<<: [*b, *c], KA1: 1, KA2: 2} — the merged map merges a list whose entries
		// disagree on KB1 (the earlier entry b wins) and of which c also offers a key a has itself (a's own wins)
		cmap = vMap(vStr(kb1), vInt("7"), vStr(ka2), vInt("8"))
		cmap.Anchor = "c"
		a.Content = append([]*yaml.Node{{Kind: yaml.ScalarNode, Tag: "!!merge", Value: "<<"}, vSeq(aliasB(), &yaml.Node{Kind: yaml.AliasNode, Value: "c", Alias: cmap})}, a.Content...)
	}
	var x *yaml.Node
	switch mergeKind {
	case 0:
		x = aliasA()
	case 1:
		x = vSeq(aliasA())
	case 2:
		x = vSeq(aliasA(), aliasB())
	case 3:
		x = vSeq(aliasB(), aliasA())
	default:
		x = aliasA()
	}
	mk := &yaml.Node{Kind: yaml.ScalarNode, Tag: "!!merge", Value: "<<"}
	h := vMap()
	xAnch := vInt("6")
	xAnch.Anchor = "x"
	var e2val *yaml.Node = vInt("6")
	if c13ExplicitAlias {
		e2val = &yaml.Node{Kind: yaml.AliasNode, Value: "x", Alias: xAnch}
	}
	entries := [][2]*yaml.Node{{vStr(e1), vS(c13E1Tag, c13E1Val)}, {vStr(e2), e2val}}
	for i := 0; i <= 2; i++ {
		if i == pos {
			h.Content = append(h.Content, mk, x)
		}
		if i < 2 {
			h.Content = append(h.Content, entries[i][0], entries[i][1])
		}
	}
	first, second := []*yaml.Node{vStr("A"), a}, []*yaml.Node{vStr("B"), b}
	if mergeKind == 4 {
		first, second = second, first
	}
	if mergeKind == 5 {
		first, second = []*yaml.Node{vStr("B"), b, vStr("C"), cmap}, first
	}
	var content []*yaml.Node
	if c13ExplicitAlias {
		// the anchor has to precede its alias in document order (YAML forbids forward references)
		content = append(content, vStr("X"), xAnch)
	}
	content = append(content, first...)
	content = append(content, second...)
	content = append(content, vStr("H"), h, vStr("S"), &yaml.Node{Kind: yaml.AliasNode, Value: "a", Alias: a})
	return &yaml.Node{Kind: yaml.MappingNode, Tag: "!!map", Content: content}
}

// c13Ref: value the merge-key rules define for key q in H ("" = absent).
func c13Ref(q, ka1, ka2, kb1, kb2, e1, e2 string, mergeKind int) (string, string) {
	pick := func(k1, v1, k2, v2 string) (string, bool) {
		if verifConcreteBool(verifEqStr(q, k1)) {
			return v1, true
		}
		if verifConcreteBool(verifEqStr(q, k2)) {
			return v2, true
		}
		return "", false
	}
	if v, ok := pick(e1, c13E1Val, e2, "6"); ok {
		// explicit keys win wherever the merge key is placed
		_, inA := pick(ka1, "1", ka2, "2")
		_, inB := pick(kb1, "3", kb2, "4")
		if inA || (inB && mergeKind >= 2) {
			return v, "explicit-also-merged"
		}
		return v, "explicit-only"
	}
	fromA := func() (string, bool) { return pick(ka1, "1", ka2, "2") }
	fromB := func() (string, bool) { return pick(kb1, "3", kb2, "4") }
	va, okA := fromA()
	vb, okB := fromB()
	switch mergeKind {
	case 0, 1:
		if okA {
			return va, "merged"
		}
	case 4, 5: // a's own keys, then what a merges from b (kind 5: from the list [b, c], where b comes first and c's keys are kb1 and ka2, both offered earlier)
		if okA {
			return va, "merged"
		}
		if okB {
			if mergeKind == 5 && verifConcreteBool(verifEqStr(q, kb1)) {
				return vb, "merged-through-the-merged-map-in-both-listed" // c offers kb1 too; b is listed first
			}
			return vb, "merged-through-the-merged-map"
		}
	case 2: // earlier list entries win
		if okA && okB {
			return va, "merged-in-both-listed"
		}
		if okA {
			return va, "merged"
		}
		if okB {
			return vb, "merged"
		}
	default:
		if okA && okB {
			return vb, "merged-in-both-listed"
		}
		if okB {
			return vb, "merged"
		}
		if okA {
			return va, "merged"
		}
	}
	return "", "absent"
}

func c13Keys() (ka1, ka2, kb1, kb2, e1, e2 string) {
	ka1, ka2 = verifStrN("ka1", 1, "ac"), verifStrN("ka2", 1, "ac")
	verifAssume(!verifEqStr(ka1, ka2))
	kb1, kb2 = verifStrN("kb1", 1, "ac"), verifStrN("kb2", 1, "ac")
	verifAssume(!verifEqStr(kb1, kb2))
	e1, e2 = verifStrN("e1", 1, "ad"), verifStrN("e2", 1, "ad")
	verifAssume(!verifEqStr(e1, e2))
	return
}

var c13Target = "H"

func c13Read(route int, root *yaml.Node, q string) (string, bool) {
	doc := vDoc(root)
	var text string
	switch route {
	case 0:
		text = "." + c13Target + ".QKEY"
	case 1:
		text = "explode(.) | ." + c13Target + ".QKEY"
	case 2:
		// what the printer does for encoders that cannot represent aliases: explode every result, then read
		exp := ExpressionNode{Operation: &Operation{OperationType: explodeOpType}}
		if _, err := vEval(&exp, doc); err != nil {
			return "", false
		}
		text = "." + c13Target + ".QKEY"
	case 3:
		// only the map itself is exploded (the maps it merges still carry their own anchors, aliases and merge keys)
		text = "." + c13Target + " | explode(.) | .QKEY"
		if alone, err := vEval(vParse("."+c13Target+" | explode(.)"), vDoc(root)); err == nil && alone.Len() == 1 {
			verifAssert(c13Clean(alone.Front().Value.(*CandidateNode)), "C13/explode-of-one-node-leaves-alias-merge-or-anchor target="+c13Target)
		}
	default:
		// `yq -o=json .H`: the printer explodes the result node .H alone, then the value is read from it
		hres, err := vEval(vParse("."+c13Target), doc)
		if err != nil || hres.Len() != 1 {
			return "", false
		}
		exp := ExpressionNode{Operation: &Operation{OperationType: explodeOpType}}
		ctx, err := NewDataTreeNavigator().GetMatchingNodes(Context{MatchingNodes: hres}, &exp)
		if err != nil || ctx.MatchingNodes.Len() != 1 {
			return "", false
		}
		doc = ctx.MatchingNodes.Front().Value.(*CandidateNode)
		// exploded means exploded: no alias, merge key or anchor is left inside the result
		verifAssert(c13Clean(doc), "C13/explode-of-one-node-leaves-alias-merge-or-anchor target="+c13Target)
		text = ".QKEY"
	}
	e := vParse(text)
	vSubst(e, "QKEY", "", q)
	res, err := c03EvalReadOnly(e, doc)
	if err != nil {
		return "", false
	}
	if res.Len() == 0 {
		return "", true
	}
	if res.Len() > 1 {
		return "MULTIPLE " + vDumpList(res), true
	}
	r := res.Front().Value.(*CandidateNode)
	if r.Kind == AliasNode {
		// the value read is itself an alias: JSON output resolves it (the printer explodes every result first)
		exp := ExpressionNode{Operation: &Operation{OperationType: explodeOpType}}
		l := list.New()
		l.PushBack(r)
		ctx, err := NewDataTreeNavigator().GetMatchingNodes(Context{MatchingNodes: l}, &exp)
		if err != nil || ctx.MatchingNodes.Len() != 1 {
			return "", false
		}
		r = ctx.MatchingNodes.Front().Value.(*CandidateNode)
	}
	return r.Value, true
}

var c13RouteNames = []string{"traverse", "explode-then-traverse", "printer-explode", "explode-the-map-alone", "printer-explode-of-the-map-alone"}

// VerifC13Resolve: every read route gives the value the merge-key rules define.
func VerifC13Resolve() {
	ka1, ka2, kb1, kb2, e1, e2 := c13Keys()
	mergeKind := verifChoice("merge", 6)
	pos := verifChoice("pos", 3)
	q := verifStrN("q", 1, "ad")
	want, src := c13Ref(q, ka1, ka2, kb1, kb2, e1, e2, mergeKind)
	route := verifChoice("route", 5)
	if route >= 3 && mergeKind < 4 && verifParam("allroutes", 0) == 0 {
		return // the map-alone routes differ from the whole-document ones only when a merged map has structure of its own
	}
	label := c13RouteNames[route] + " " + c13MergeNames[mergeKind] + " " + c13PosNames[pos] + " key=" + src
	if mergeKind == 5 && pos != 0 && verifParam("nestedlistallpos", 0) == 0 {
		return // quick tier: the nested merge list with the merge key of H in first position only
	}
	c13ExplicitAlias = verifChoice("explicitValueIsAlias", 2) == 1
	if c13ExplicitAlias {
		label += " explicit-alias"
	}
	c13E1Val, c13E1Tag = "5", "!!int"
	if verifChoice("explicitValueIsKeyLike", 2) == 1 {
		c13E1Val, c13E1Tag = verifStrN("ev", 1, "ad"), "!!str"
		want, src = c13Ref(q, ka1, ka2, kb1, kb2, e1, e2, mergeKind)
		label = c13RouteNames[route] + " " + c13MergeNames[mergeKind] + " " + c13PosNames[pos] + " key=" + src + " value-spells-a-key"
		if c13ExplicitAlias {
			label += " explicit-alias"
		}
	}
	c13Target = "H"
	if mergeKind >= 4 && verifChoice("readThroughPlainAlias", 2) == 1 {
		// S: *a — a plain alias of the map that has a merge key of its own: a's keys, then what a merges from b
		c13Target = "S"
		pick := func(k1, v1, k2, v2 string) (string, bool) {
			if verifConcreteBool(verifEqStr(q, k1)) {
				return v1, true
			}
			if verifConcreteBool(verifEqStr(q, k2)) {
				return v2, true
			}
			return "", false
		}
		want, src = "", "absent"
		if v, ok := pick(ka1, "1", ka2, "2"); ok {
			want, src = v, "own-key-of-the-aliased-map"
		} else if v, ok := pick(kb1, "3", kb2, "4"); ok {
			want, src = v, "merged-into-the-aliased-map"
			if mergeKind == 5 && verifConcreteBool(verifEqStr(q, kb1)) {
				src = "merged-into-the-aliased-map-in-both-listed"
			}
		}
		label = c13RouteNames[route] + " plain-alias-of-a-merging-map key=" + src
	}
	got, ok := c13Read(route, c13Build(ka1, ka2, kb1, kb2, e1, e2, mergeKind, pos), q)
	c13Target = "H"
	c13ExplicitAlias = false
	c13E1Val, c13E1Tag = "5", "!!int"
	verifAssert(ok, "C13/read-error "+label)
	if !ok {
		return
	}
	verifObserve("got", got)
	verifObserve("want", want)
	verifAssert(verifEqStr(got, want), "C13/resolves-per-merge-rules "+label)
	if want != "" {
		verifCover("C13/resolve/found")
	}
	verifCover("C13/resolve/end")
}

func c13Clean(n *CandidateNode) bool {
	if n.Kind == AliasNode || n.Anchor != "" || n.Alias != nil {
		return false
	}
	if n.Kind == MappingNode {
		for i := 0; i+1 < len(n.Content); i += 2 {
			if n.Content[i].Value == "<<" {
				return false
			}
		}
	}
	for _, c := range n.Content {
		if !c13Clean(c) {
			return false
		}
	}
	return true
}

// VerifC13Explode: explode removes every alias, merge key and anchor and changes no other value.
func VerifC13Explode() {
	ka1, ka2, kb1, kb2, e1, e2 := c13Keys()
	mergeKind := verifChoice("merge", 5)
	pos := verifChoice("pos", 3)
	c13ExplicitAlias = verifChoice("explicitValueIsAlias", 2) == 1
	label := c13MergeNames[mergeKind] + " " + c13PosNames[pos]
	if c13ExplicitAlias {
		label += " explicit-alias"
	}
	doc := vDoc(c13Build(ka1, ka2, kb1, kb2, e1, e2, mergeKind, pos))
	c13ExplicitAlias = false
	res, err := vEval(vParse("explode(.)"), doc)
	verifAssert(err == nil && res.Len() == 1, "C13/explode-error "+label)
	if err != nil || res.Len() != 1 {
		return
	}
	out := res.Front().Value.(*CandidateNode)
	off := 0
	if len(out.Content) == 10 {
		off = 2 // X: &x 6 leads the document in the explicit-alias variant
	}
	verifAssert(c13Clean(out), "C13/explode-leaves-alias-merge-or-anchor "+label)
	// A, B and S keep their values
	find := func(name string) *CandidateNode {
		for i := 0; i+1 < len(out.Content); i += 2 {
			if out.Content[i].Value == name {
				return out.Content[i+1]
			}
		}
		verifFail("C13/explode-lost-a-top-level-key " + name)
		return nil
	}
	wantA := "{<!!str " + ka1 + ">: <!!int 1>, <!!str " + ka2 + ">: <!!int 2>}"
	wantB := "{<!!str " + kb1 + ">: <!!int 3>, <!!str " + kb2 + ">: <!!int 4>}"
	verifAssert(verifEqStr(vDump(find("B")), wantB), "C13/explode-changes-anchored-map "+label)
	if mergeKind != 4 {
		// (with kind 4 the anchored map A has a merge key itself: its exploded value holds B's keys too)
		verifAssert(verifEqStr(vDump(find("A")), wantA), "C13/explode-changes-anchored-map "+label)
		verifObserve("S", vDump(find("S")))
		verifAssert(verifEqStr(vDump(find("S")), wantA), "C13/explode-alias-value "+label)
	}
	_ = off
	// H has no duplicate keys
	h := find("H")
	for i := 0; i+1 < len(h.Content); i += 2 {
		for j := i + 2; j+1 < len(h.Content); j += 2 {
			verifAssert(!verifEqStr(h.Content[i].Value, h.Content[j].Value), "C13/explode-duplicate-key "+label)
		}
	}
	verifCover("C13/explode/end")
}

// VerifC13RedefinedAnchor: an anchor name used twice. An alias stands for the most recent node that carried the name
// before it (YAML 1.2 §7.1): R1 reads the first map, R2 and the merge in H the second — on all three read routes.
//   A1: &a {k: V1, K1: 1}   R1: *a   A2: &a {k: V2, K2: 2}   R2: *a   H: {<<: *a, e: 5}
func VerifC13RedefinedAnchor() {
	v1, v2 := verifStrN("v1", 1, "09"), verifStrN("v2", 1, "09")
	k1, k2 := verifStrN("k1", 1, "ac"), verifStrN("k2", 1, "ac")
	a1 := vMap(vStr("k"), vInt(v1), vStr(k1), vInt("1"))
	a1.Anchor = "a"
	a2 := vMap(vStr("k"), vInt(v2), vStr(k2), vInt("2"))
	a2.Anchor = "a"
	alias := func(t *yaml.Node) *yaml.Node { return &yaml.Node{Kind: yaml.AliasNode, Value: "a", Alias: t} }
	h := vMap(&yaml.Node{Kind: yaml.ScalarNode, Tag: "!!merge", Value: "<<"}, alias(a2), vStr("e"), vInt("5"))
	root := vMap(vStr("A1"), a1, vStr("R1"), alias(a1), vStr("A2"), a2, vStr("R2"), alias(a2), vStr("H"), h)
	route := verifChoice("route", 3)
	which := verifChoice("read", 4)
	paths := []string{".R1.k", ".R2.k", ".H.k", ".H.QKEY"}
	doc := vDoc(root)
	text := paths[which]
	if route == 1 {
		text = "explode(.) | " + text
	} else if route == 2 {
		exp := ExpressionNode{Operation: &Operation{OperationType: explodeOpType}}
		if _, err := vEval(&exp, doc); err != nil {
			verifFail("C13/redefined-explode-error")
		}
	}
	e := vParse(text)
	q := verifStrN("q", 1, "ac")
	vSubst(e, "QKEY", "", q)
	res, err := c03EvalReadOnly(e, doc)
	label := c13RouteNames[route] + " read=" + paths[which]
	verifAssert(err == nil, "C13/redefined-read-error "+label)
	if err != nil {
		return
	}
	got := ""
	if res.Len() == 1 {
		r := res.Front().Value.(*CandidateNode)
		if r.Kind == AliasNode && r.Alias != nil {
			r = r.Alias
		}
		got = r.Value
	}
	want := ""
	switch which {
	case 0:
		want = v1
	case 1, 2:
		want = v2
	default:
		switch {
		case verifConcreteBool(verifEqStr(q, k2)):
			want = "2"
		default:
			want = "" // K1 belongs to the first map only: not merged into H (unless it equals K2, handled above)
		}
	}
	verifObserve("got", got)
	verifAssert(verifEqStr(got, want), "C13/alias-of-a-redefined-anchor-reads-the-wrong-node "+label)
	verifCover("C13/redefined/end")
}

// VerifC13InlineMerge: the value of a merge key (or an entry of a merge list) may be a map written in place
// (`<<: {k: 1}`, `<<: [{k: 1}, *b]`); it is merged exactly like an aliased one, on all read routes.
func VerifC13InlineMerge() {
	ka1, ka2, kb1, kb2, e1, e2 := c13Keys()
	mergeKind := verifChoice("merge", 4)
	pos := verifChoice("pos", 3)
	q := verifStrN("q", 1, "ad")
	want, src := c13Ref(q, ka1, ka2, kb1, kb2, e1, e2, mergeKind)
	route := verifChoice("route", 5)
	label := c13RouteNames[route] + " " + c13MergeNames[mergeKind] + " " + c13PosNames[pos] + " key=" + src + " in-place-map"
	c13InlineA = true
	got, ok := c13Read(route, c13Build(ka1, ka2, kb1, kb2, e1, e2, mergeKind, pos), q)
	c13InlineA = false
	verifAssert(ok, "C13/read-error "+label)
	if !ok {
		return
	}
	verifObserve("got", got)
	verifObserve("want", want)
	verifAssert(verifEqStr(got, want), "C13/resolves-per-merge-rules "+label)
	if src == "merged" {
		verifCover("C13/inline/merged")
	}
	verifCover("C13/inline/end")
}


// VerifC13AliasOfSequence: an alias of a sequence reads as the sequence: indices, slices and splats taken through
// `b: *s` give what they give on the anchored `a: &s [...]` itself (symbolic bounds), unexploded and exploded.
func VerifC13AliasOfSequence() {
	v1, v2, v3 := verifStrN("v1", 1, "03"), verifStrN("v2", 1, "03"), verifStrN("v3", 1, "03")
	build := func() *CandidateNode {
		sq := vSeq(vInt(v1), vInt(v2), vInt(v3))
		sq.Anchor = "s"
		return vDoc(vMap(vStr("a"), sq, vStr("b"), &yaml.Node{Kind: yaml.AliasNode, Value: "s", Alias: sq}, vStr("c"), vMap(vStr("d"), &yaml.Node{Kind: yaml.AliasNode, Value: "s", Alias: sq})))
	}
	paths := []string{"X[7770001]", "X[7770001:7770002]", "X[7770001:]", "X[:7770002]", "X[]", "X | .[7770001:7770002]", "X[7770001:7770002] | .[0]", "X[7770001:][0]"}
	pi := verifChoice("path", len(paths))
	if pi == 3 {
		return // `.a[:2]` is not accepted by the parser (an error on both sides)
	}
	through := []string{".b", ".c.d"}[verifChoice("through", 2)]
	i, j := verifIntRange("i", -3, 4), verifIntRange("j", -3, 4)
	run := func(base string) (string, bool) {
		e := vParse(strings.ReplaceAll(paths[pi], "X", base))
		vSubst(e, "7770001", "!!int", verifItoa(int64(i)))
		vSubst(e, "7770002", "!!int", verifItoa(int64(j)))
		res, err := c03EvalReadOnly(e, build())
		if err != nil {
			return "error", false
		}
		return vDumpList(res), true
	}
	direct, ok1 := run(".a")
	viaAlias, ok2 := run(through)
	label := "path=" + paths[pi] + " through=" + through
	verifAssert(ok1 == ok2, "C13/path-through-an-alias-of-a-sequence-fails-differently "+label)
	if ok1 && ok2 {
		verifAssert(verifEqStr(direct, viaAlias), "C13/path-through-an-alias-of-a-sequence-reads-something-else "+label)
	}
	verifCover("C13/alias-seq/end")
}

// VerifC13EmptyMerges: merge keys whose merged maps are empty (`<<: *e` with `e: &e {}`, `<<: {}`, `<<: []`, lists of
// them, next to a non-empty one or not) in a map with or without explicit keys: explode leaves no merge key, alias or
// anchor behind and the map holds exactly the explicit entries plus what the non-empty merged map contributes.
func VerifC13EmptyMerges() {
	k, v := verifStrN("k", 1, "ac"), verifStrN("v", 1, "03")
	ak := verifStrN("ak", 1, "ac")
	build := func() (*yaml.Node, *yaml.Node) {
		e := vMap()
		e.Anchor = "e"
		a := vMap(vStr(ak), vInt("7"))
		a.Anchor = "a"
		al := func(n *yaml.Node, name string) *yaml.Node { return &yaml.Node{Kind: yaml.AliasNode, Value: name, Alias: n} }
		var x *yaml.Node
		switch verifChoice("merge", 7) {
		case 0:
			x = al(e, "e")
		case 1:
			x = vMap()
		case 2:
			x = vSeq()
		case 3:
			x = vSeq(al(e, "e"), vMap())
		case 4:
			x = vSeq(al(e, "e"), al(a, "a"))
		case 5:
			x = vSeq(al(a, "a"), al(e, "e"))
		default:
			x = vSeq(vMap(), vMap())
		}
		h := vMap(vS("!!merge", "<<"), x)
		if verifChoice("explicit", 2) == 1 {
			h.Content = append(h.Content, vStr(k), vInt(v))
		}
		return vMap(vStr("E"), e, vStr("A"), a, vStr("H"), h), h
	}
	root, _ := build()
	route := verifChoice("route", 3)
	var res *list.List
	var err error
	switch route {
	case 0:
		res, err = vEval(vParse("explode(.) | .H"), vDoc(root))
	case 1:
		res, err = vEval(vParse(".H | explode(.)"), vDoc(root))
	default:
		hres, e1 := vEval(vParse(".H"), vDoc(root))
		if e1 != nil {
			verifFail("C13/read-error empty-merges")
		}
		exp := ExpressionNode{Operation: &Operation{OperationType: explodeOpType}}
		ctx, e2 := NewDataTreeNavigator().GetMatchingNodes(Context{MatchingNodes: hres}, &exp)
		res, err = ctx.MatchingNodes, e2
	}
	label := "empty-merges route=" + verifItoa(int64(route))
	verifAssert(err == nil && res != nil && res.Len() == 1, "C13/explode-error "+label)
	if err != nil || res == nil || res.Len() != 1 {
		return
	}
	h := res.Front().Value.(*CandidateNode)
	verifAssert(c13Clean(h), "C13/explode-leaves-alias-merge-or-anchor "+label)
	for i := 0; i+1 < len(h.Content); i += 2 {
		verifAssert(h.Content[i].Tag != "!!merge" && h.Content[i].Value != "<<", "C13/explode-leaves-a-merge-key "+label)
	}
	verifObserve("exploded", vDump(h))
	verifCover("C13/empty-merges/end")
}

// c13RecEncoder: an encoder that cannot represent aliases (as JSON, properties, XML, CSV, TOML, Lua, shell) and
// records the node it is handed.
type c13RecEncoder struct{ nodes *[]*CandidateNode }

func (e *c13RecEncoder) Encode(_ io.Writer, node *CandidateNode) error {
	*e.nodes = append(*e.nodes, node)
	return nil
}
func (e *c13RecEncoder) PrintDocumentSeparator(_ io.Writer) error         { return nil }
func (e *c13RecEncoder) PrintLeadingContent(_ io.Writer, _ string) error { return nil }
func (e *c13RecEncoder) CanHandleAliases() bool                          { return false }

// VerifC13PrinterDocuments: what the REAL printer hands to an encoder that cannot represent aliases, for the k-th
// document it prints (k = 1..3; the earlier ones with or without aliases of their own): no alias, merge key or anchor
// is left in it, and it is the document that `explode(.)` gives - the same for every k.
func VerifC13PrinterDocuments() {
	ka1, ka2, kb1, kb2, e1, e2 := c13Keys()
	mergeKind := verifChoice("merge", 6)
	pos := verifChoice("pos", 3)
	if mergeKind == 5 && pos != 0 && verifParam("nestedlistallpos", 0) == 0 {
		return
	}
	earlier := verifChoice("earlierDocuments", 3)
	earlierKind := verifChoice("earlierKind", 3)
	var nodes []*CandidateNode
	var out bytes.Buffer
	printer := NewPrinter(&c13RecEncoder{nodes: &nodes}, NewSinglePrinterWriter(&out))
	for i := 0; i < earlier; i++ {
		var other *CandidateNode
		switch earlierKind {
		case 0:
			other = vDocAt(vMap(vStr("p"), vInt("1")), uint(i), 0, "f.yml")
		case 1:
			other = vDocAt(c13Build(ka1, ka2, kb1, kb2, e1, e2, 0, 0), uint(i), 0, "f.yml")
		default:
			other = vDocAt(vNull(), uint(i), 0, "f.yml") // prints nothing that counts as output (null / false results)
		}
		if err := printer.PrintResults(other.AsList()); err != nil {
			verifFail("C13/printer-error earlier document")
		}
	}
	doc := vDocAt(c13Build(ka1, ka2, kb1, kb2, e1, e2, mergeKind, pos), uint(earlier), 0, "f.yml")
	before := len(nodes)
	err := printer.PrintResults(doc.AsList())
	label := "document=" + verifItoa(int64(earlier+1)) + " " + c13MergeNames[mergeKind] + " " + c13PosNames[pos]
	verifAssert(err == nil && len(nodes) == before+1, "C13/printer-error "+label)
	if err != nil || len(nodes) != before+1 {
		return
	}
	got := nodes[before]
	verifAssert(c13Clean(got), "C13/printer-hands-an-alias-merge-key-or-anchor-to-an-encoder-without-aliases "+label)
	twin := vDoc(c13Build(ka1, ka2, kb1, kb2, e1, e2, mergeKind, pos))
	exp := ExpressionNode{Operation: &Operation{OperationType: explodeOpType}}
	if _, err := vEval(&exp, twin); err != nil {
		verifFail("C13/explode-failed " + label)
	}
	verifObserve("got", vDump(got))
	verifAssert(verifEqStr(vDump(got), vDump(twin)), "C13/printed-document-differs-from-explode "+label)
	verifCover("C13/printer-docs/end")
}

// VerifC13AliasKeys: a map key written as an alias (`m: {*k : 1, y: 2}` with `a: &k KEY`) is the key KEY on every read
// route: `.m.KEY` yields 1 whether the alias is followed by the traversal or resolved by explode first; the anchor's
// NAME is no key of the map.
func VerifC13AliasKeys() {
	key := verifStrN("key", 1, "ad")
	q := verifStrN("q", 1, "ad")
	verifAssume(!verifEqStr(key, "y"))
	route := verifChoice("route", 5)
	build := func() *yaml.Node {
		k := vStr(key)
		k.Anchor = "k"
		return vMap(vStr("a"), k, vStr("m"), vMap(&yaml.Node{Kind: yaml.AliasNode, Value: "k", Alias: k}, vInt("1"), vStr("y"), vInt("2")))
	}
	want := ""
	if verifConcreteBool(verifEqStr(q, key)) {
		want = "1"
	} else if verifConcreteBool(verifEqStr(q, "y")) {
		want = "2"
	}
	c13Target = "m"
	got, ok := c13Read(route, build(), q)
	c13Target = "H"
	label := c13RouteNames[route] + " alias-key"
	verifAssert(ok, "C13/read-error "+label)
	if !ok {
		return
	}
	verifObserve("got", got)
	verifAssert(verifEqStr(got, want), "C13/resolves-per-merge-rules "+label)
	verifCover("C13/alias-keys/end")
}

// VerifC13DecodedAnchors: anchors as the YAML DECODER registers them (the other C13 harnesses build their nodes): an
// alias names the nearest anchor of that name written before it in the text - an anchor on a map key is in force
// inside that key's value, a name anchored again takes over from there on, a second document starts afresh. Texts
// with their expected reads, on the traverse and the explode route.
func VerifC13DecodedAnchors() {
	type tc struct{ text, path, want string }
	cases := []tc{
		{"&svc api: {name: *svc}\n", ".api.name", "api"},
		{"a: &z eu\n&z zone: {label: *z}\n", ".zone.label", "zone"},
		{"a: &z eu\n&z zone: {label: *z}\n", ".a", "eu"},
		{"a: &x 1\nb: *x\nc: &x 2\nd: *x\n", ".b", "1"},
		{"a: &x 1\nb: *x\nc: &x 2\nd: *x\n", ".d", "2"},
		{"k: &x first\n---\n&x second: {v: *x}\n", ".second.v", "second"},
		{"? &k key\n: {again: *k}\n", ".key.again", "key"},
		{"l: [&i 1, *i, &i 2, *i]\n", ".l[3]", "2"},
		{"l: [&i 1, *i, &i 2, *i]\n", ".l[1]", "1"},
		{"m: &m {a: 1}\nn: {<<: *m, b: &m 2}\no: *m\n", ".o", "2"},
	}
	ci := verifChoice("case", len(cases))
	c := cases[ci]
	route := verifChoice("route", 2)
	dec := NewYamlDecoder(NewDefaultYamlPreferences())
	if dec.Init(strings.NewReader(c.text)) != nil {
		verifFail("C13/decoder-init")
	}
	var doc *CandidateNode
	for {
		d, err := dec.Decode()
		if err != nil {
			break
		}
		doc = d // the last document
	}
	label := "decoded-anchors text=" + verifItoa(int64(ci)) + " route=" + c13RouteNames[route]
	if doc == nil {
		verifFail("C13/decode-failed " + label)
		return
	}
	expr := c.path
	if route == 1 {
		expr = "explode(.) | " + c.path
	}
	res, err := vEval(vParse(expr), doc)
	verifAssert(err == nil && res.Len() == 1, "C13/read-error "+label)
	if err != nil || res.Len() != 1 {
		return
	}
	r := res.Front().Value.(*CandidateNode).unwrapAlias()
	verifObserve("got", r.Value)
	verifAssert(r.Value == c.want, "C13/alias-resolves-to-another-anchor "+label)
	verifCover("C13/decoded-anchors/end")
}
