package yqlib

import (
	"container/list"
	"strings"

	yaml "gopkg.in/yaml.v3"
)

// C03 — delete removes exactly the selected nodes and nothing else.
//
// Oracle (no reference evaluator for the selection needed): twin documents A and B are built from the same
// symbolic values. On A the producer f and then the selection s are evaluated read-only, exactly as
// deleteChildOperator evaluates its argument; the selected nodes are located by their position (index path
// through Content) under f(A). On B, `f | del(s)` is evaluated; the expected result is f(B) — snapshotted
// before the delete — minus the nodes at those positions.

type c03Snap struct {
	kind     Kind
	tag      string
	value    string
	children []*c03Snap
	// alias nodes (c03SnapshotDoc): the snapshot and position of the anchored node the alias stands for
	aliasOf  *c03Snap
	aliasPos []int
}

// c03SnapshotDoc snapshots a whole document that may hold aliases: an alias is recorded as a reference to the
// snapshot of its anchored node (which lies in the same document), so that the expected dump shows what the alias
// reads as after the deletion.
func c03SnapshotDoc(root *CandidateNode) *c03Snap {
	snapOf := map[*CandidateNode]*c03Snap{}
	posOf := map[*CandidateNode][]int{}
	var walk func(n *CandidateNode, pos []int) *c03Snap
	walk = func(n *CandidateNode, pos []int) *c03Snap {
		sn := &c03Snap{kind: n.Kind, tag: n.Tag, value: n.Value}
		snapOf[n], posOf[n] = sn, pos
		for i, c := range n.Content {
			sn.children = append(sn.children, walk(c, append(append([]int{}, pos...), i)))
		}
		return sn
	}
	rootSnap := walk(root, nil)
	var link func(n *CandidateNode)
	link = func(n *CandidateNode) {
		if n.Kind == AliasNode && n.Alias != nil {
			snapOf[n].aliasOf, snapOf[n].aliasPos = snapOf[n.Alias], posOf[n.Alias]
		}
		for _, c := range n.Content {
			link(c)
		}
	}
	link(root)
	return rootSnap
}

func c03Snapshot(n *CandidateNode) *c03Snap {
	s := &c03Snap{kind: n.Kind, tag: n.Tag, value: n.Value}
	for _, c := range n.Content {
		s.children = append(s.children, c03Snapshot(c))
	}
	return s
}

// c03FindPos returns the Content-index path of target under root (identity search).
func c03FindPos(root, target *CandidateNode, prefix []int) ([]int, bool) {
	if root == target {
		return prefix, true
	}
	for i, c := range root.Content {
		p := append(append([]int{}, prefix...), i)
		if r, ok := c03FindPos(c, target, p); ok {
			return r, true
		}
	}
	return nil, false
}

// c03FindAllPos: every position at which the node object target occurs under root (more than one only if a producer
// left the same node object in two places).
func c03FindAllPos(root, target *CandidateNode, prefix []int) [][]int {
	var out [][]int
	if root == target {
		out = append(out, prefix)
	}
	for i, c := range root.Content {
		out = append(out, c03FindAllPos(c, target, append(append([]int{}, prefix...), i))...)
	}
	return out
}

func c03PosSelected(sel [][]int, pos []int) bool {
	for _, s := range sel {
		if len(s) != len(pos) {
			continue
		}
		same := true
		for i := range s {
			if s[i] != pos[i] {
				same = false
			}
		}
		if same {
			return true
		}
	}
	return false
}

// c03ExpectedDump: dump of the snapshot with the selected positions removed (a selected map value takes its key along).
func c03ExpectedDump(s *c03Snap, pos []int, sel [][]int) string {
	switch s.kind {
	case ScalarNode:
		return "<" + s.tag + " " + s.value + ">"
	case AliasNode:
		if s.aliasOf == nil {
			return "*<nil>"
		}
		return "*" + c03ExpectedDump(s.aliasOf, s.aliasPos, sel)
	case SequenceNode:
		out := "["
		first := true
		for i, c := range s.children {
			p := append(append([]int{}, pos...), i)
			if c03PosSelected(sel, p) {
				continue
			}
			if !first {
				out += ", "
			}
			first = false
			out += c03ExpectedDump(c, p, sel)
		}
		return out + "]"
	case MappingNode:
		out := "{"
		first := true
		for i := 0; i+1 < len(s.children); i += 2 {
			pv := append(append([]int{}, pos...), i+1)
			if c03PosSelected(sel, pv) {
				continue
			}
			if !first {
				out += ", "
			}
			first = false
			pk := append(append([]int{}, pos...), i)
			out += c03ExpectedDump(s.children[i], pk, sel) + ": " + c03ExpectedDump(s.children[i+1], pv, sel)
		}
		return out + "}"
	}
	return "<kind?>"
}

func c03EvalReadOnly(exp *ExpressionNode, n *CandidateNode) (*list.List, error) {
	l := list.New()
	l.PushBack(n)
	ctx, err := NewDataTreeNavigator().GetMatchingNodes(Context{MatchingNodes: l, DontAutoCreate: true}, exp)
	if err != nil {
		return nil, err
	}
	return ctx.MatchingNodes, nil
}

var c03Producers = []string{".", "sort", "reverse", ".[1:]", "map(.)", ". + [9]", "[.[]]", ". - [9]", ". - [.[0]]", "unique", "flatten", "filter(. != 9)", ". as $v | $v", "sort_by(.)"}
var c03ProducerNames = []string{"id", "sort", "reverse", "slice", "map", "concat", "collect", "subtract-nothing", "subtract-first", "unique", "flatten", "filter", "variable", "sort_by"}

// VerifC03DeleteSeq: sequences of n single-digit integers; producer f; selection s with symbolic indices / values.
func VerifC03DeleteSeq() {
	maxn := verifParam("maxn", 3)
	n := verifChoice("n", maxn+1)
	var digits []string
	for i := 0; i < n; i++ {
		digits = append(digits, verifStrN("e"+verifItoa(int64(i)), 1, vDigits()))
	}
	build := func() *CandidateNode {
		seq := vSeq()
		for _, d := range digits {
			seq.Content = append(seq.Content, vInt(d))
		}
		return vDoc(seq)
	}
	p := verifChoice("producer", len(c03Producers))
	prod, prodName := c03Producers[p], c03ProducerNames[p]
	selKind := verifChoice("selection", 4)
	var selExpr, selName string
	var i, j int
	var v string
	switch selKind {
	case 0:
		selExpr, selName = ".[7770001]", "index"
		i = verifIntRange("i", -maxn-2, maxn+2)
	case 1:
		selExpr, selName = ".[7770001], .[7770002]", "two-indices"
		i = verifIntRange("i", 0, maxn)
		j = verifIntRange("j", 0, maxn)
	case 2:
		selExpr, selName = ".[] | select(. == 7770003)", "select-eq"
		v = verifStrN("v", 1, vDigits())
	case 3:
		selExpr, selName = ".. | select(. == 7770003)", "recursive-select-eq"
		v = verifStrN("v", 1, vDigits())
	}
	subst := func(e *ExpressionNode) {
		vSubst(e, "7770001", "!!int", verifItoa(int64(i)))
		vSubst(e, "7770002", "!!int", verifItoa(int64(j)))
		vSubst(e, "7770003", "!!int", v)
	}
	label := "producer=" + prodName + " sel=" + selName

	// twin A: which positions does s select under f(A)?
	a := build()
	fa, err := vEval(vParse(prod), a)
	if err != nil || fa.Len() != 1 {
		verifFail("C03/producer-failed " + label)
	}
	ca := fa.Front().Value.(*CandidateNode)
	lenBefore := len(ca.Content)
	sExp := vParse(selExpr)
	subst(sExp)
	selA, errSel := c03EvalReadOnly(sExp, ca)

	// twin B: f | del(s)
	b := build()
	fb, _ := vEval(vParse(prod), b)
	cb := fb.Front().Value.(*CandidateNode)
	snap := c03Snapshot(cb)
	dExp := vParse("del(" + selExpr + ")")
	subst(dExp)
	res, errDel := vEval(dExp, cb)

	if errSel != nil {
		// the selection itself is an error (index below -len): del must then fail too and leave the value alone
		verifCover("C03/seq/selection-error")
		verifAssert(errDel != nil, "C03/del-succeeds-where-selection-fails "+label)
		return
	}
	verifAssert(errDel == nil, "C03/del-error "+label)
	if errDel != nil {
		return
	}
	// region of the index (only to keep distinct failure classes apart)
	region := ""
	if selKind == 0 {
		if verifConcreteBool(i >= lenBefore) {
			region = " region=beyond-end"
		} else if verifConcreteBool(i < 0) {
			region = " region=negative"
		} else {
			region = " region=in-range"
		}
	}
	if selKind == 1 {
		if verifConcreteBool(verifOr(i >= lenBefore, j >= lenBefore)) {
			region = " region=some-beyond-end"
		} else if verifConcreteBool(i == j) {
			region = " region=same-index-twice"
		} else {
			region = " region=distinct-in-range"
		}
	}
	var sel [][]int
	for _, sn := range vNodes(selA) {
		if pos, ok := c03FindPos(ca, sn, nil); ok {
			if len(pos) == 0 {
				// the container itself was selected (`..`): deleting the root empties the result list
				verifCover("C03/seq/root-selected")
				verifAssert(res.Len() == 0, "C03/root-selected-but-kept "+label)
				return
			}
			if len(pos) <= len(ca.Content)+8 && pos[0] < lenBefore {
				sel = append(sel, pos)
			}
			// nodes that did not exist before the selection ran (auto-created) select nothing of the original
		}
	}
	verifAssert(res.Len() == 1, "C03/result-count "+label+region)
	if res.Len() != 1 {
		return
	}
	got := vDump(res.Front().Value.(*CandidateNode))
	want := c03ExpectedDump(snap, nil, sel)
	verifObserve("got", got)
	verifObserve("want", want)
	verifAssert(verifEqStr(got, want), "C03/exactly-the-selection "+label+region)
	if len(sel) > 0 {
		verifCover("C03/seq/deleted-something")
	}
	if len(sel) > 1 {
		verifCover("C03/seq/deleted-two")
	}
	verifCover("C03/seq/end")
}

// VerifC03DeleteMap: maps with symbolic keys; del(.K) / del(.K, .K2) / del(.[] | select(. == V)); union in either order.
func VerifC03DeleteMap() {
	maxn := verifParam("maxn", 2)
	n := verifChoice("n", maxn+1)
	var keys, vals []string
	for i := 0; i < n; i++ {
		k := verifStrN("k"+verifItoa(int64(i)), 1, "*c") // includes the glob characters * and ?
		for _, prev := range keys {
			verifAssume(!verifEqStr(prev, k)) // YAML maps have unique keys
		}
		keys = append(keys, k)
		vals = append(vals, verifStrN("v"+verifItoa(int64(i)), 1, vDigits()))
	}
	build := func() *CandidateNode {
		m := vMap()
		for i := range keys {
			m.Content = append(m.Content, vStr(keys[i]), vInt(vals[i]))
		}
		return vDoc(&yaml.Node{Kind: yaml.MappingNode, Tag: "!!map", Content: m.Content})
	}
	selKind := verifChoice("selection", 4)
	var selExpr, selName string
	var k1, k2, v string
	switch selKind {
	case 0:
		selExpr, selName = ".KEYA", "key"
		k1 = verifStrN("q1", 1, "*c")
	case 1:
		selExpr, selName = ".KEYA, .KEYB", "two-keys"
		k1 = verifStrN("q1", 1, "*c")
		k2 = verifStrN("q2", 1, "*c")
	case 2:
		selExpr, selName = ".KEYB, .KEYA", "two-keys-swapped"
		k1 = verifStrN("q1", 1, "*c")
		k2 = verifStrN("q2", 1, "*c")
	case 3:
		selExpr, selName = ".[] | select(. == 7770003)", "select-eq"
		v = verifStrN("v", 1, vDigits())
	}
	subst := func(e *ExpressionNode) {
		vSubst(e, "KEYA", "", k1)
		vSubst(e, "KEYB", "", k2)
		vSubst(e, "7770003", "!!int", v)
	}
	label := "map sel=" + selName
	a := build()
	sExp := vParse(selExpr)
	subst(sExp)
	selA, errSel := c03EvalReadOnly(sExp, a)
	b := build()
	snap := c03Snapshot(b)
	dExp := vParse("del(" + selExpr + ")")
	subst(dExp)
	res, errDel := vEval(dExp, b)
	verifAssert(verifAnd(errSel == nil, errDel == nil), "C03/del-error "+label)
	if errSel != nil || errDel != nil {
		return
	}
	var sel [][]int
	for _, sn := range vNodes(selA) {
		if pos, ok := c03FindPos(a, sn, nil); ok && len(pos) > 0 && pos[0] < 2*n {
			sel = append(sel, pos)
		}
	}
	verifAssert(res.Len() == 1, "C03/result-count "+label)
	if res.Len() != 1 {
		return
	}
	got := vDump(res.Front().Value.(*CandidateNode))
	want := c03ExpectedDump(snap, nil, sel)
	verifObserve("got", got)
	verifObserve("want", want)
	verifAssert(verifEqStr(got, want), "C03/exactly-the-selection "+label)
	if len(sel) > 0 {
		verifCover("C03/map/deleted-something")
	}
	verifCover("C03/map/end")
}

// VerifC03DeleteIntKeyMap: maps whose keys are integers in any YAML spelling: del removes exactly the entries the
// selection expression selects (by position or by value) and nothing else.
func VerifC03DeleteIntKeyMap() {
	spell := []string{"1", "2", "0x1F", "0o17", "1_0", "-3"}
	k1 := spell[verifChoice("k1", len(spell))]
	k2 := spell[verifChoice("k2", len(spell))]
	if k1 == k2 {
		return
	}
	v1, v2 := verifStrN("v1", 1, "03"), verifStrN("v2", 1, "03")
	build := func() *CandidateNode {
		return vDoc(vMap(vS("!!int", k1), vInt(v1), vS("!!int", k2), vInt(v2)))
	}
	selKind := verifChoice("selection", 3)
	var selExpr string
	switch selKind {
	case 0:
		selExpr = ".[] | select(. == 7770003)"
	case 1:
		selExpr = ".[1]"
	default:
		selExpr = ".[] | select(key == 31)"
	}
	v := verifStrN("v", 1, "03")
	subst := func(e *ExpressionNode) { vSubst(e, "7770003", "!!int", v) }
	a := build()
	sExp := vParse(selExpr)
	subst(sExp)
	selA, errSel := c03EvalReadOnly(sExp, a)
	b := build()
	snap := c03Snapshot(b)
	dExp := vParse("del(" + selExpr + ")")
	subst(dExp)
	res, errDel := vEval(dExp, b)
	label := "int-key-map sel=" + []string{"select-eq", "index", "select-key"}[selKind]
	verifAssert(verifAnd(errSel == nil, errDel == nil), "C03/del-error "+label)
	if errSel != nil || errDel != nil {
		return
	}
	var sel [][]int
	for _, sn := range vNodes(selA) {
		if pos, ok := c03FindPos(a, sn, nil); ok && len(pos) > 0 && pos[0] < 4 {
			sel = append(sel, pos)
		}
	}
	verifAssert(res.Len() == 1, "C03/result-count "+label)
	if res.Len() != 1 {
		return
	}
	got := vDump(res.Front().Value.(*CandidateNode))
	want := c03ExpectedDump(snap, nil, sel)
	verifObserve("got", got)
	verifObserve("want", want)
	verifAssert(verifEqStr(got, want), "C03/exactly-the-selection "+label)
	verifCover("C03/intmap/end")
}

// VerifC03DeleteDocuments: in eval-all mode the selection may name whole documents (`del(select(.a == V))` over N
// documents). Exactly the selected documents are absent afterwards, the others are still there, unchanged and in order.
func VerifC03DeleteDocuments() {
	n := 2 + verifChoice("docs", 3)
	var docs []*CandidateNode
	var vals []string
	for i := 0; i < n; i++ {
		v := verifStrN("a"+verifItoa(int64(i)), 1, "02")
		vals = append(vals, v)
		docs = append(docs, vDocAt(vMap(vStr("a"), vInt(v), vStr("i"), vInt(verifItoa(int64(i)))), uint(i), 0, "f.yml"))
	}
	w := verifStrN("v", 1, "02")
	form := verifChoice("form", 3)
	expr := []string{"del(select(.a == 7770003))", "del(select(.a == 7770003), select(.a == 0))", "del(.. | select(has(\"a\")) | select(.a == 7770003))"}[form]
	exp := vParse(expr)
	vSubst(exp, "7770003", "!!int", w)
	res, err := vEvalList(exp, docs...)
	label := "documents form=" + verifItoa(int64(form))
	verifAssert(err == nil, "C03/del-error "+label)
	if err != nil {
		return
	}
	out := vNodes(res)
	k := 0
	for i := 0; i < n; i++ {
		doomed := verifEqStr(vals[i], w)
		if form == 1 {
			doomed = verifOr(doomed, verifEqStr(vals[i], "0"))
		}
		if doomed {
			continue
		}
		verifAssert(k < len(out), "C03/del-removed-a-document-that-was-not-selected "+label)
		if k >= len(out) {
			return
		}
		verifAssert(out[k] == docs[i], "C03/del-kept-a-selected-document-or-lost-the-order "+label)
		verifAssert(verifEqStr(vDump(out[k]), "{<!!str a>: <!!int "+vals[i]+">, <!!str i>: <!!int "+verifItoa(int64(i))+">}"), "C03/del-changed-a-surviving-document "+label)
		k++
	}
	verifAssert(k == len(out), "C03/del-kept-a-selected-document "+label)
	verifCover("C03/documents/end")
}

// VerifC03DeleteInDerivedDocument: the container the selection reaches into was produced by an earlier step that
// rebuilt part of the document — exploded aliases, a copy assigned to a new key, a value bound to a variable:
//   a: &x {p: V1, q: V2}   b: *x   c: &y [V3, V4]   d: *y
// `f | del(s)` removes exactly what s selects in f's result; in particular deleting inside an exploded alias or
// inside a copy leaves the anchored original alone (and deleting through a live alias edits the anchored node).
func VerifC03DeleteInDerivedDocument() {
	v1, v2 := verifStrN("v1", 1, "03"), verifStrN("v2", 1, "03")
	v3, v4 := verifStrN("v3", 1, "03"), verifStrN("v4", 1, "03")
	build := func() *CandidateNode {
		x := vMap(vStr("p"), vInt(v1), vStr("q"), vInt(v2))
		x.Anchor = "x"
		y := vSeq(vInt(v3), vInt(v4))
		y.Anchor = "y"
		return vDoc(vMap(vStr("a"), x, vStr("b"), &yaml.Node{Kind: yaml.AliasNode, Value: "x", Alias: x},
			vStr("c"), y, vStr("d"), &yaml.Node{Kind: yaml.AliasNode, Value: "y", Alias: y}))
	}
	producers := []string{"explode(.)", "explode(.b) | explode(.d)", "(.b, .d) |= explode(.)", ".e = .a | .f = .c", ".", ".e = (.b | explode(.))"}
	pnames := []string{"explode-all", "explode-the-aliases", "update-explode", "copies", "identity", "assign-exploded"}
	pi := verifChoice("producer", len(producers))
	// a selection is a union of parts; each part names the top-level entry it reaches into (-1: anywhere), which
	// tells positions apart should the producer have left one node object in two places
	type part struct {
		text string
		top  int
	}
	sels := [][]part{{{".b.p", 3}}, {{".b.KEYA", 3}}, {{".d[7770001]", 7}}, {{".b[] | select(. == 7770003)", 3}}, {{".e.KEYA", 9}}, {{".f[7770001]", 11}},
		{{".a.KEYA", 1}, {".b.q", 3}}, {{".d[0]", 7}, {".c[7770001]", 5}}, {{".. | select(. == 7770003)", -1}}}
	snames := []string{"key-in-b", "symbolic-key-in-b", "index-in-d", "select-in-b", "key-in-e", "index-in-f", "a-and-b", "d-and-c", "recursive-select"}
	si := verifChoice("selection", len(sels))
	if (si == 4 || si == 5) && pi != 3 && !(si == 4 && pi == 5) {
		return // .e and .f only exist after the producers that create them
	}
	k := verifStrN("k", 1, "pr")
	idx := verifIntRange("i", -2, 3) // an index further back than the sequence is long is an error (not in this harness)
	v := verifStrN("v", 1, "03")
	subst := func(e *ExpressionNode) {
		vSubst(e, "KEYA", "", k)
		vSubst(e, "7770001", "!!int", verifItoa(int64(idx)))
		vSubst(e, "7770003", "!!int", v)
	}
	label := "derived-document producer=" + pnames[pi] + " sel=" + snames[si]
	a := build()
	resA, errF := vEval(vParse(producers[pi]), a)
	if errF != nil || resA.Len() != 1 {
		verifFail("C03/producer-error " + label)
	}
	fa := resA.Front().Value.(*CandidateNode)
	snap := c03SnapshotDoc(fa)
	var sel [][]int
	selText := ""
	var errSel error
	for pi2, pt := range sels[si] {
		if pi2 > 0 {
			selText += ", "
		}
		selText += pt.text
		sExp := vParse(pt.text)
		subst(sExp)
		selA, err := c03EvalReadOnly(sExp, fa)
		if err != nil {
			errSel = err
			break
		}
		for _, sn := range vNodes(selA) {
			for _, pos := range c03FindAllPos(fa, sn, nil) {
				// through a live alias the selection reaches the anchored node, which sits under another top-level entry
				viaAlias := pt.top >= 0 && fa.Content[pt.top].Kind == AliasNode
				if len(pos) > 0 && (pt.top < 0 || pos[0] == pt.top || viaAlias) {
					sel = append(sel, pos)
				}
			}
		}
	}
	b := build()
	dExp := vParse(producers[pi] + " | del(" + selText + ")")
	subst(dExp)
	res, errDel := vEval(dExp, b)
	verifAssert(verifAnd(errSel == nil, errDel == nil), "C03/del-error "+label)
	if errSel != nil || errDel != nil {
		return
	}
	verifAssert(res.Len() == 1, "C03/result-count "+label)
	if res.Len() != 1 {
		return
	}
	got := vDump(res.Front().Value.(*CandidateNode))
	want := c03ExpectedDump(snap, nil, sel)
	verifObserve("got", got)
	verifObserve("want", want)
	verifAssert(verifEqStr(got, want), "C03/exactly-the-selection "+label)
	if len(sel) > 0 {
		verifCover("C03/derived/deleted-something")
	}
	verifCover("C03/derived/end")
}

// VerifC03DeleteFromDerivedList: a list derived from a map (its keys, its values, its entries' keys or values) is a
// value of its own: `f | del(s)` removes exactly the selected elements from the derived list and the map it was
// derived from still reads as before.
func VerifC03DeleteFromDerivedList() {
	n := 2 + verifChoice("n", 2)
	var keys, vals []string
	for i := 0; i < n; i++ {
		k := verifStrN("k"+verifItoa(int64(i)), 1, "ad")
		for _, p := range keys {
			verifAssume(!verifEqStr(p, k))
		}
		keys, vals = append(keys, k), append(vals, verifStrN("v"+verifItoa(int64(i)), 1, "03"))
	}
	build := func() *CandidateNode {
		m := vMap()
		for i := range keys {
			m.Content = append(m.Content, vStr(keys[i]), vInt(vals[i]))
		}
		return vDoc(m)
	}
	producers := []string{"keys", "[.[]]", "to_entries | map(.value)", "to_entries | map(.key)", "[.. | select(tag == \"!!int\")]", "[keys | .[]]", "[.[] | select(. != 9)]"}
	pi := verifChoice("producer", len(producers))
	selKind := verifChoice("selection", 2)
	idx := verifIntRange("i", -2, 3)
	v := verifStrN("v", 1, "ad03")
	selExpr := ".[7770001]"
	if selKind == 1 {
		selExpr = ".[] | select(. == \"SELV\" or . == 7770003)"
	}
	subst := func(e *ExpressionNode) {
		vSubst(e, "7770001", "!!int", verifItoa(int64(idx)))
		vSubst(e, "SELV", "", v)
		vSubst(e, "7770003", "!!int", v)
	}
	label := "derived-list producer=" + producers[pi] + " sel=" + []string{"index", "select"}[selKind]
	a := build()
	resA, errF := vEval(vParse(producers[pi]), a)
	if errF != nil || resA.Len() != 1 {
		verifFail("C03/producer-error " + label)
	}
	fa := resA.Front().Value.(*CandidateNode)
	snap := c03Snapshot(fa)
	sExp := vParse(selExpr)
	subst(sExp)
	selA, errSel := c03EvalReadOnly(sExp, fa)
	b := build()
	before := vDump(b)
	dExp := vParse(producers[pi] + " | del(" + selExpr + ")")
	subst(dExp)
	res, errDel := vEval(dExp, b)
	verifAssert(verifAnd(errSel == nil, errDel == nil), "C03/del-error "+label)
	if errSel != nil || errDel != nil {
		return
	}
	var sel [][]int
	for _, sn := range vNodes(selA) {
		for i, c := range fa.Content {
			if c == sn {
				sel = append(sel, []int{i})
			}
		}
	}
	verifAssert(res.Len() == 1, "C03/result-count "+label)
	if res.Len() != 1 {
		return
	}
	got := vDump(res.Front().Value.(*CandidateNode))
	want := c03ExpectedDump(snap, nil, sel)
	verifObserve("got", got)
	verifObserve("want", want)
	verifAssert(verifEqStr(got, want), "C03/exactly-the-selection "+label)
	verifAssert(verifEqStr(vDump(b), before), "C03/delete-in-a-derived-list-changed-the-source "+label)
	if len(sel) > 0 {
		verifCover("C03/derived-list/deleted-something")
	}
	verifCover("C03/derived-list/end")
}


// VerifC03DeleteComputedSelection: the selection yields a value that was computed from the document rather than a
// node of it — a slice, an element of a sorted or reversed copy, a rebuilt entry. Whatever yq makes of that, nothing
// the selection does not denote may disappear: the outcome is an error, the unchanged document, or the document
// without exactly the elements the selection stands for.
//   a: [V0, V1, V2, V3]   b: V4
func VerifC03DeleteComputedSelection() {
	var vs []string
	for i := 0; i < 5; i++ {
		vs = append(vs, verifStrN("v"+verifItoa(int64(i)), 1, "03"))
	}
	build := func() *CandidateNode {
		return vDoc(vMap(vStr("a"), vSeq(vInt(vs[0]), vInt(vs[1]), vInt(vs[2]), vInt(vs[3])), vStr("b"), vInt(vs[4])))
	}
	i, j := verifIntRange("i", 0, 4), verifIntRange("j", 0, 4)
	sels := []string{"del(.a[7770001:7770002])", "del(.a | .[7770001:7770002])", "(.a | sort | .[7770001]) as $x | del($x)", "(.a | reverse) as $r | del($r[7770001])", "del(.a | map(.) | .[7770001])",
		"del(.a[7770001:])", "del([.a[7770001]] | .[0])", "del(.a | to_entries | .[7770001])", "del({\"k\": .b} | .k)"}
	si := verifChoice("selection", len(sels))
	e := vParse(sels[si])
	vSubst(e, "7770001", "!!int", verifItoa(int64(i)))
	vSubst(e, "7770002", "!!int", verifItoa(int64(j)))
	doc := build()
	unchanged := vDump(doc)
	res, err := vEval(e, doc)
	label := "computed-selection sel=" + sels[si]
	if err != nil {
		verifAssert(verifEqStr(vDump(doc), unchanged), "C03/document-changed-although-delete-failed "+label)
		verifCover("C03/computed/error")
		return
	}
	verifAssert(res.Len() == 1, "C03/result-count "+label)
	if res.Len() != 1 {
		return
	}
	got := vDump(res.Front().Value.(*CandidateNode))
	if verifConcreteBool(verifEqStr(got, unchanged)) {
		verifCover("C03/computed/unchanged")
		return
	}
	// the elements a slice stands for (for the other selections: nothing else is acceptable)
	want := ""
	if si == 0 || si == 1 || si == 5 {
		hi := j
		if si == 5 {
			hi = 4
		}
		snap := c03Snapshot(build())
		var sel [][]int
		for k := i; k < hi && k < 4; k++ {
			sel = append(sel, []int{1, k})
		}
		want = c03ExpectedDump(snap, nil, sel)
	}
	verifObserve("got", got)
	verifAssert(want != "" && verifEqStr(got, want), "C03/delete-of-a-computed-value-removed-something-else "+label)
	verifCover("C03/computed/end")
}

// VerifC03SameSpelledKeys: a map whose keys 1 (an integer) and "1" (a string) are spelt alike has two entries for
// every operator that walks the entries: the splat yields each value, del of a selection by value removes exactly the
// entries with that value, del(.[]) leaves the empty map, an update of every value reaches every entry.
func VerifC03SameSpelledKeys() {
	v := [3]string{verifStrN("v1", 1, "03"), verifStrN("v2", 1, "03"), verifStrN("v3", 1, "03")}
	q := verifStrN("q", 1, "03")
	order := verifChoice("order", 2)
	build := func() *CandidateNode {
		if order == 0 {
			return vDoc(vMap(vS("!!int", "1"), vInt(v[0]), vStr("1"), vInt(v[1]), vStr("c"), vInt(v[2])))
		}
		return vDoc(vMap(vStr("1"), vInt(v[0]), vStr("c"), vInt(v[1]), vS("!!int", "1"), vInt(v[2])))
	}
	keyDump := func(i int) string {
		ks := [2][3]string{{"<!!int 1>", "<!!str 1>", "<!!str c>"}, {"<!!str 1>", "<!!str c>", "<!!int 1>"}}
		return ks[order][i]
	}
	switch verifChoice("op", 4) {
	case 0:
		res, err := vEval(vParse("[.[]]"), build())
		verifAssert(err == nil && res.Len() == 1 && len(res.Front().Value.(*CandidateNode).Content) == 3, "C03/splat-of-a-map-misses-an-entry same-spelled-keys")
	case 1:
		res, err := vEval(vParse("del(.[])"), build())
		verifAssert(err == nil && res.Len() == 1 && vDump(res.Front().Value.(*CandidateNode)) == "{}", "C03/del-of-every-entry-leaves-entries same-spelled-keys")
	case 2:
		e := vParse("del(.[] | select(. == 7770003))")
		vSubst(e, "7770003", "!!int", q)
		res, err := vEval(e, build())
		verifAssert(err == nil && res.Len() == 1, "C03/del-error same-spelled-keys")
		if err != nil || res.Len() != 1 {
			return
		}
		want := "{"
		first := true
		for i := 0; i < 3; i++ {
			if verifConcreteBool(verifEqStr(v[i], q)) {
				continue
			}
			if !first {
				want += ", "
			}
			first = false
			want += keyDump(i) + ": <!!int " + v[i] + ">"
		}
		want += "}"
		got := vDump(res.Front().Value.(*CandidateNode))
		verifObserve("got", got)
		verifAssert(verifEqStr(got, want), "C03/exactly-the-selection same-spelled-keys")
	default:
		d := build()
		_, err := vEval(vParse(".[] |= 9"), d)
		ok := err == nil
		for i := 0; ok && i < 3; i++ {
			ok = d.Content[2*i+1].Value == "9"
		}
		verifAssert(ok, "C03/update-of-every-value-misses-an-entry same-spelled-keys")
	}
	verifCover("C03/same-spelled/end")
}

// VerifC03DeleteDecodedJSON: del on documents as the JSON decoder builds them (its own code sets keys and parents):
// arrays of three slots drawn from {1, null, "s", 2}, at the root and under a key; selections by index, by two
// indices, by value (null included): exactly the selected elements are gone.
func VerifC03DeleteDecodedJSON() {
	slots := []string{"1", "null", "\"s\"", "2"}
	dumps := []string{"<!!int 1>", "<!!null null>", "<!!str s>", "<!!int 2>"}
	var pick [3]int
	text := "["
	for i := 0; i < 3; i++ {
		pick[i] = verifChoice("e"+verifItoa(int64(i)), len(slots))
		if i > 0 {
			text += ","
		}
		text += slots[pick[i]]
	}
	text += "]"
	nested := verifChoice("nested", 2) == 1
	prefix := "."
	if nested {
		text = "{\"a\":" + text + ",\"z\":null}"
		prefix = ".a"
	}
	dec := NewJSONDecoder()
	if dec.Init(strings.NewReader(text)) != nil {
		verifFail("C03/decoder-init")
	}
	doc, err := dec.Decode()
	if err != nil {
		verifFail("C03/json-decode-failed")
		return
	}
	var gone [3]bool
	var sel string
	switch verifChoice("selection", 4) {
	case 0:
		i := verifChoice("i", 3)
		gone[i] = true
		sel = prefix + "[" + verifItoa(int64(i)) + "]"
	case 1:
		i, j := verifChoice("i", 3), verifChoice("j", 3)
		gone[i], gone[j] = true, true
		sel = prefix + "[" + verifItoa(int64(i)) + "], " + prefix + "[" + verifItoa(int64(j)) + "]"
	case 2:
		for i := 0; i < 3; i++ {
			gone[i] = pick[i] == 1
		}
		sel = prefix + "[] | select(. == null)"
	default:
		for i := 0; i < 3; i++ {
			gone[i] = pick[i] == 0
		}
		sel = prefix + "[] | select(. == 1)"
	}
	res, err := vEval(vParse("del("+sel+")"), doc)
	label := "decoded-json sel=" + sel
	verifAssert(err == nil && res.Len() == 1, "C03/del-error "+label)
	if err != nil || res.Len() != 1 {
		return
	}
	want := "["
	first := true
	for i := 0; i < 3; i++ {
		if gone[i] {
			continue
		}
		if !first {
			want += ", "
		}
		first = false
		want += dumps[pick[i]]
	}
	want += "]"
	if nested {
		want = "{<!!str a>: " + want + ", <!!str z>: <!!null null>}"
	}
	got := vDump(res.Front().Value.(*CandidateNode))
	verifObserve("got", got)
	verifAssert(got == want, "C03/exactly-the-selection "+label)
	verifCover("C03/decoded-json/end")
}
