package yqlib

import (
	"bufio"
	"io"
	"strings"

	yaml "gopkg.in/yaml.v3"
)

// C05 — YAML in, YAML out (the part that lives in yq's own code; yaml.v3's scanner/emitter is outside).
//
// (1) VerifC05NodeRoundTrip: MarshalYAML ∘ UnmarshalYAML is the identity on every attribute yq carries.
// (2) VerifC05LeadingContent: the leading-content pre-processing (processReadStream) followed by the encoder's
//     replay (PrintLeadingContent) is idempotent: feeding the replayed text through both again reproduces it.

var c05StyleCounter, c05StyleTarget int

func c05Attr(name string, n *yaml.Node) {
	// the style byte is fully symbolic on one node per run (MapYamlStyle switches on it: 7 outcomes per node)
	if c05StyleCounter == c05StyleTarget {
		n.Style = yaml.Style(verifByte(name + "_style"))
	}
	c05StyleCounter++
	// comments: absent or present (finite-domain choice keeps this a solver variable, not a path split)
	n.HeadComment = verifPick(name+"_head", "", "# a", "# b")
	n.LineComment = verifPick(name+"_line", "", "# l", "# m")
	n.FootComment = verifPick(name+"_foot", "", "# f")
	n.Line = verifIntRange(name+"_ln", 0, 9)
	n.Column = verifIntRange(name+"_col", 0, 9)
}

func c05Equal(a, b *yaml.Node, label string) {
	verifAssert(a.Kind == b.Kind, "C05/node-kind "+label)
	verifAssert(a.Style == b.Style, "C05/node-style "+label)
	verifAssert(verifEqStr(a.Tag, b.Tag), "C05/node-tag "+label)
	verifAssert(verifEqStr(a.Value, b.Value), "C05/node-value "+label)
	verifAssert(verifEqStr(a.Anchor, b.Anchor), "C05/node-anchor "+label)
	verifAssert(verifEqStr(a.HeadComment, b.HeadComment), "C05/node-head-comment "+label)
	verifAssert(verifEqStr(a.LineComment, b.LineComment), "C05/node-line-comment "+label)
	verifAssert(verifEqStr(a.FootComment, b.FootComment), "C05/node-foot-comment "+label)
	verifAssert(a.Line == b.Line && a.Column == b.Column, "C05/node-position "+label)
	verifAssert(len(a.Content) == len(b.Content), "C05/node-children "+label)
	if len(a.Content) == len(b.Content) {
		for i := range a.Content {
			c05Equal(a.Content[i], b.Content[i], label)
		}
	}
}

func VerifC05NodeRoundTrip() {
	shape := verifChoice("shape", 4)
	c05StyleCounter, c05StyleTarget = 0, verifChoice("styledNode", 7)
	tags := []string{"!!str", "!!int", "!!null", "!custom", ""}
	sc := func(name string) *yaml.Node {
		n := &yaml.Node{Kind: yaml.ScalarNode, Tag: verifPick(name+"_tag", tags...), Value: verifStrN(name+"_val", 1, "")}
		c05Attr(name, n)
		return n
	}
	var root *yaml.Node
	switch shape {
	case 0:
		root = sc("s")
	case 1:
		root = vSeq(sc("e0"), sc("e1"))
		c05Attr("seq", root)
	case 2:
		root = vMap(sc("k"), sc("v"))
		c05Attr("map", root)
	default:
		// anchored scalar and an alias to it inside a sequence inside a map
		a := sc("anch")
		a.Anchor = verifStrN("aname", 1, "az")
		al := &yaml.Node{Kind: yaml.AliasNode, Value: a.Anchor, Alias: a}
		c05Attr("alias", al)
		root = vMap(sc("k1"), a, sc("k2"), vSeq(al))
	}
	label := []string{"scalar", "seq", "map", "anchor-alias"}[shape]
	var c CandidateNode
	err := c.UnmarshalYAML(root, make(map[string]*CandidateNode))
	verifAssert(err == nil, "C05/unmarshal-error "+label)
	out, err2 := c.MarshalYAML()
	verifAssert(err2 == nil && out != nil, "C05/marshal-error "+label)
	if err != nil || err2 != nil || out == nil {
		return
	}
	c05Equal(root, out, label)
	if shape == 3 {
		// the alias still names its anchor and the candidate tree points at the anchored node
		al := c.Content[3].Content[0]
		verifAssert(al.Kind == AliasNode && al.Alias == c.Content[1], "C05/alias-target "+label)
	}
	verifCover("C05/node/end")
}

type c05Writer struct{ sb *strings.Builder }

func (w c05Writer) Write(p []byte) (int, error) { return w.sb.Write(p) }

// c05Line: one leading line from the classes the pre-processor distinguishes.
var c05LastLineClass int
var c05SeenSeparator bool

func c05Line(name string) string {
	class := verifChoice(name+"_class", 6)
	if c05LastLineClass == 2 && (class == 1 || class == 2 || class == 5) {
		// text behind `--- ` on the same line belongs to the document: another `---` there is a scalar, a directive is
		// not one - streams the decoder is not asked to take apart
		class = 0
	}
	if c05SeenSeparator && (class == 1 || class == 2) {
		// a second separator ends an empty first document: from there on the parser reads (VerifC05PreProcessedText)
		class = 0
	}
	if class == 1 || class == 2 {
		c05SeenSeparator = true
	}
	c05LastLineClass = class
	switch class {
	case 0:
		return "\n"
	case 1:
		return "---\n"
	case 2:
		return "--- "
	case 3:
		return "#" + verifStr(name+"_c", 2, "") + "\n"
	case 4:
		return " #" + verifStr(name+"_c", 1, "") + "\n"
	default:
		return "%YAML 1.2\n"
	}
}

func c05Pass(input string, label string) (out string, rest string, ok bool) {
	dec := &yamlDecoder{prefs: NewDefaultYamlPreferences(), firstFile: true}
	r, lc, err := dec.processReadStream(bufio.NewReader(strings.NewReader(input)))
	if err != nil {
		return "", "", false
	}
	// what is left for the YAML parser
	restB, _ := io.ReadAll(r)
	if len(restB) > 16 {
		restB = restB[:16]
	}
	rest = string(restB)
	var sb strings.Builder
	enc := &yamlEncoder{prefs: NewDefaultYamlPreferences()}
	if err := enc.PrintLeadingContent(c05Writer{&sb}, lc); err != nil {
		return "", "", false
	}
	return sb.String(), rest, true
}

func VerifC05LeadingContent() {
	n := verifChoice("lines", verifParam("maxlines", 2)+1)
	input := ""
	c05LastLineClass = -1
	c05SeenSeparator = false
	for i := 0; i < n; i++ {
		input += c05Line("l" + verifItoa(int64(i)))
	}
	body := "a: 1\n"
	out1, rest1, ok1 := c05Pass(input+body, "first")
	verifAssert(ok1, "C05/leading-content-error")
	if !ok1 {
		return
	}
	verifObserve("out1", out1)
	// the document body is handed to the parser untouched, except that a bare `--- ` prefix is consumed with its separator
	verifAssert(strings.HasSuffix(rest1, body) || rest1 == body, "C05/leading-content-eats-document")
	// second pass over what the first pass printed
	out2, rest2, ok2 := c05Pass(out1+rest1, "second")
	verifAssert(ok2, "C05/leading-content-error-second-pass")
	if ok2 {
		verifObserve("out2", out2)
		verifAssert(verifEqStr(out2, out1) && rest2 == rest1, "C05/leading-content-not-idempotent")
	}
	verifCover("C05/leading/end")
}

// ---- the decoder's own comment handling ----

// c05CommentTexts: YAML streams whose comments sit where yq's decoder (not yaml.v3) has to route them: before the
// first document, between documents, after a flow-style root, after the last document, on a document start line.
var c05CommentTexts = []string{
	"# lead\na: 1\n",
	"a: 1 # line\n# foot\n",
	"a: 1\n---\n{b: 2}\n# foot of flow root\n",
	"a: 1\n---\n[1, 2]\n# foot of flow seq\n",
	"{b: 2}\n# foot first\n",
	"# lead one\n# lead two\n\na: 1\n---\n# lead of second\nb: 2\n",
	"--- # on the separator\na: 1\n",
	"a:\n  # head of b\n  b: 1 # line of b\n  # foot of b\nc: 2\n",
	"- 1 # one\n- 2\n# tail\n",
	"a: 1\n---\nb: 2\n# foot of block root\n",
	"# only a comment\n",
	"x: 0\n---\n{a: 1}\n# foot\n\n# foot2\n",
	"a: 1\n# foot\n\n# second paragraph\n",
	"a: 1\n\n# after a blank line\n",
	"# lead\n\n# second lead paragraph\na: 1\n",
	"a: 1 # la\nb: # lb\n  - x # lx\n",
	"a: 1\n\n# p1\n\n# p2\n",       // 16: two comment paragraphs after a blank line
	"a:\n  b: 1\n\n# p1\n\n\n# p2\n", // 17: the same below a nested map
	"- 1\n\n# p1\n\n# p2\n",        // 18: the same below a sequence
	" \n# c\na: 1\n",               // 19: a line of blanks before the leading comment (no comment itself)
	"  \n\n# c\n# d\na: 1\n",       // 20: a line of two blanks, a blank line
	"---\n---\n# c\na: 1\n",        // 21: an empty first document
}

func c05AllComments(n *CandidateNode) string {
	if n == nil {
		return ""
	}
	s := n.LeadingContent + "\n" + n.HeadComment + "\n" + n.LineComment + "\n" + n.FootComment + "\n"
	for _, c := range n.Content {
		s += c05AllComments(c)
	}
	return s
}

// VerifC05DecodeComments: every comment of the input is somewhere in the decoded documents (a comment field of a node
// or the document's leading content) — the decoder drops none while it moves document-level comments onto the root.
func VerifC05DecodeComments() {
	ti := verifChoice("text", len(c05CommentTexts))
	text := c05CommentTexts[ti]
	prefs := NewDefaultYamlPreferences()
	prefs.LeadingContentPreProcessing = verifChoice("leadingContentPreProcessing", 2) == 1
	dec := NewYamlDecoder(prefs)
	if err := dec.Init(strings.NewReader(text)); err != nil {
		verifFail("C05/decoder-init")
	}
	all := ""
	for i := 0; i < 4; i++ {
		n, err := dec.Decode()
		if err != nil {
			break
		}
		all += c05AllComments(n)
	}
	// the comments of the input: everything from a '#' that starts a comment to the end of its line
	for _, line := range strings.Split(text, "\n") {
		i := strings.Index(line, "#")
		if i < 0 {
			continue
		}
		c := strings.TrimSpace(line[i+1:])
		verifAssert(strings.Contains(all, c), "C05/decoder-lost-a-comment text="+verifItoa(int64(ti)))
	}
	verifCover("C05/decode-comments/end")
}

func c05Identity(text string, prefs YamlPreferences) (string, bool) {
	dec := NewYamlDecoder(prefs)
	if err := dec.Init(strings.NewReader(text)); err != nil {
		return "", false
	}
	var sb strings.Builder
	printer := NewPrinter(NewYamlEncoder(prefs), NewSinglePrinterWriter(bufio.NewWriter(c17Writer{&sb})))
	for i := 0; i < 5; i++ {
		n, err := dec.Decode()
		if err != nil {
			break
		}
		n.document = uint(i)
		if perr := printer.PrintResults(n.AsList()); perr != nil {
			return "", false
		}
	}
	return sb.String(), true
}

// VerifC05IdentityText: `yq .` on the same streams, through the real decoder, printer and encoder (yaml.v3 runs
// natively on these concrete texts): the output keeps every comment and feeding it back reproduces it byte for byte.
func VerifC05IdentityText() {
	ti := verifChoice("text", len(c05CommentTexts))
	text := c05CommentTexts[ti]
	prefs := NewDefaultYamlPreferences()
	out1, ok1 := c05Identity(text, prefs)
	verifAssert(ok1, "C05/identity-failed text="+verifItoa(int64(ti)))
	if !ok1 {
		return
	}
	verifObserve("out", out1)
	for _, line := range strings.Split(text, "\n") {
		i := strings.Index(line, "#")
		if i < 0 {
			continue
		}
		c := strings.TrimSpace(line[i+1:])
		// the comment is still a comment of its own: a line that is "# c", or a line ending in " # c"
		found := false
		for _, ol := range strings.Split(out1, "\n") {
			t := strings.TrimSpace(ol)
			if t == "# "+c || strings.HasSuffix(t, " # "+c) {
				found = true
			}
		}
		verifAssert(found, "C05/identity-lost-a-comment text="+verifItoa(int64(ti)))
	}
	// and no comment is invented (the texts hold # as the comment sign only)
	verifAssert(strings.Count(out1, "#") == strings.Count(text, "#"), "C05/identity-invented-a-comment text="+verifItoa(int64(ti)))
	out2, ok2 := c05Identity(out1, prefs)
	verifAssert(ok2 && out2 == out1, "C05/identity-not-idempotent text="+verifItoa(int64(ti)))
	verifCover("C05/identity-text/end")
}

// VerifC05LongCommentLines: a leading comment line longer than the buffers the pre-processor and the printer read
// through (bufio's 4096 bytes; lengths just below, at and above one and two buffers) comes out as it went in, next
// to ordinary comment lines, and a second pass reproduces it.
func VerifC05LongCommentLines() {
	lens := []int{4093, 4094, 4095, 4096, 4097, 4098, 8191, 8192, 8193, 12289}
	l := lens[verifChoice("len", len(lens))]
	c := verifStrN("c", 1, "az")
	long := "#" + c + strings.Repeat("x", l-3) + "\n" // l bytes with the line feed
	short := "# s" + verifStrN("d", 1, "az") + "\n"
	var input string
	switch verifChoice("where", 3) {
	case 0:
		input = long
	case 1:
		input = long + short
	default:
		input = short + long
	}
	body := "a: 1\n"
	out1, rest1, ok1 := c05Pass(input+body, "first")
	verifAssert(ok1, "C05/leading-content-error long-line")
	if !ok1 {
		return
	}
	verifAssert(verifEqStr(out1, input), "C05/long-comment-line-changed")
	verifAssert(rest1 == body, "C05/leading-content-eats-document long-line")
	out2, rest2, ok2 := c05Pass(out1+rest1, "second")
	verifAssert(ok2, "C05/leading-content-error-second-pass long-line")
	if ok2 {
		verifAssert(verifEqStr(out2, out1) && rest2 == rest1, "C05/leading-content-not-idempotent long-line")
	}
	verifCover("C05/longline/end")
}

// VerifC05PreProcessedText: yq reads the comments and separators in front of a YAML stream itself before the parser
// sees the rest (so that it can print them again). That must not change what the stream IS: the documents (kinds,
// tags, values) a text decodes to with the pre-processing are those it decodes to without it. Lines from a pool that
// mixes separators with and without text behind them, blank and whitespace-only lines, comments, directives.
func VerifC05PreProcessedText() {
	lines := []string{"\n", " \n", "\t\n", "---\n", "--- ", "# c\n", " # c\n", "%YAML 1.2\n", "--- # t\n", "--- x\n", "--- --- x\n", "--- |\n t\n", "#\n", "--- ---\n"}
	n := 1 + verifChoice("lines", verifParam("prelines", 2))
	text := ""
	for i := 0; i < n; i++ {
		text += lines[verifChoice("l"+verifItoa(int64(i)), len(lines))]
	}
	text += []string{"a: 1\n", "", "- b\n"}[verifChoice("body", 3)]
	verifObserve("text", text)
	read := func(pre bool) (string, bool) {
		prefs := NewDefaultYamlPreferences()
		prefs.LeadingContentPreProcessing = pre
		dec := NewYamlDecoder(prefs)
		if err := dec.Init(strings.NewReader(text)); err != nil {
			return "", false
		}
		out := ""
		for i := 0; i < 8; i++ {
			nd, err := dec.Decode()
			if err != nil {
				if err.Error() == "EOF" {
					return out, true
				}
				return "", false
			}
			out += "DOC " + c05DataDump(nd) + "\n"
		}
		return "", false
	}
	plain, okPlain := read(false)
	pre, okPre := read(true)
	if !okPlain {
		verifCover("C05/preprocessed/rejected")
		return // not a YAML stream (a directive in the wrong place, text after a block scalar header ...)
	}
	verifAssert(okPre, "C05/pre-processing-rejects-a-stream-the-parser-accepts")
	if !okPre {
		return
	}
	verifObserve("plain", plain)
	verifObserve("pre", pre)
	if plain == "DOC <!!null>\n" && pre == "" {
		// input without a document: read without the pre-processing (load) it counts as one null document, by design
		verifCover("C05/preprocessed/no-document")
		return
	}
	verifAssert(plain == pre, "C05/pre-processing-changes-the-documents")
	verifCover("C05/preprocessed/end")
}
