package yqlib

import (
	"math"
	"sort"
	"strconv"
	"strings"
)

// Engine self-test (pseudo-property SELF, not a property of yq): small Go programs that exercise the SSA
// constructs the interpreter has to get right — simultaneous φ-nodes, closures over loop variables, defer/recover,
// slice aliasing and append, maps, struct copies, interfaces and type switches, labelled break/continue, integer
// wrap-around, shifts and conversions, string/byte/rune conversions, multiple results — on concrete and on symbolic
// inputs. Every value computed is an observable; tools/selftest.sh replays EVERY path natively, so the engine's
// execution is compared with the Go compiler's on each of them (and real yq helpers such as deepMatch are included).

type stPoint struct{ x, y int }

func (p stPoint) add(q stPoint) stPoint { return stPoint{p.x + q.x, p.y + q.y} }
func (p *stPoint) scale(k int)          { p.x *= k; p.y *= k }

type stShape interface{ area() int }
type stRect struct{ w, h int }
type stSq struct{ s int }

func (r stRect) area() int { return r.w * r.h }
func (s *stSq) area() int  { return s.s * s.s }

func stFib(n int) (a, b int) {
	a, b = 0, 1
	for i := 0; i < n; i++ {
		a, b = b, a+b // φ-nodes that read each other
	}
	return
}

func stRotate(a, b, c int, n int) (int, int, int) {
	for i := 0; i < n; i++ {
		a, b, c = c, a, b
	}
	return a, b, c
}

func stDefer(n int) (r int) {
	defer func() {
		if e := recover(); e != nil {
			r = -1
		}
	}()
	defer func() { r *= 2 }()
	xs := []int{1, 2, 3}
	return xs[n] // panics for n >= 3
}

func stLabelled(limit int) int {
	count := 0
outer:
	for i := 0; i < 5; i++ {
		for j := 0; j < 5; j++ {
			if j == 3 {
				continue outer
			}
			if i+j >= limit {
				break outer
			}
			count++
		}
	}
	return count
}

func stSwitch(c byte) string {
	switch {
	case c >= '0' && c <= '9':
		return "digit"
	case c == '*', c == '?':
		return "glob"
	case c >= 'a' && c <= 'z':
		fallthrough
	case c >= 'A' && c <= 'Z':
		return "letter"
	}
	return "other"
}

func stVariadic(base int, xs ...int) int {
	for _, x := range xs {
		base = base*31 + x
	}
	return base
}

// VerifSelfConcrete: everything on concrete inputs.
func VerifSelfConcrete() {
	a, b := stFib(10)
	verifObserve("fib", []int{a, b})
	x, y, z := stRotate(1, 2, 3, 4)
	verifObserve("rotate", []int{x, y, z})
	verifObserve("defer", []int{stDefer(1), stDefer(5)})
	verifObserve("labelled", []int{stLabelled(4), stLabelled(100), stLabelled(0)})
	// closures capture variables, not values (per-iteration semantics of Go 1.22 loop variables)
	var fs []func() int
	for i := 0; i < 3; i++ {
		fs = append(fs, func() int { return i * 10 })
	}
	acc := 0
	add := func(v int) { acc += v }
	for _, f := range fs {
		add(f())
	}
	verifObserve("closures", acc)
	// slices: aliasing, append within and beyond capacity, copy, three-index slices
	s := make([]int, 3, 4)
	t := s[:2]
	t = append(t, 7) // writes s[2]
	u := append(t, 8)
	u[0] = 99 // still shares with s (cap 4)
	v := append(u, 9)
	v[1] = 55 // new array
	w := s[1:2:2]
	w = append(w, 42)
	n := copy(s, []int{5, 6, 7, 8, 9})
	verifObserve("slices", [][]int{s, t, u, v, w, {n, len(v), cap(s), len(u), len(w)}})
	// maps: insertion, update, delete, missing keys, iteration through sorted keys
	m := map[string]int{"b": 2, "a": 1}
	m["c"] = 3
	m["a"] += 10
	delete(m, "b")
	_, okB := m["b"]
	var keys []string
	for k := range m {
		keys = append(keys, k)
	}
	sort.Strings(keys)
	verifObserve("maps", []interface{}{keys, m["a"], m["zz"], okB, len(m)})
	// structs are values; pointers share
	p := stPoint{1, 2}
	q := p
	q.x = 50
	pp := &p
	pp.scale(3)
	r := p.add(q)
	arr := [3]stPoint{{1, 1}, {2, 2}, {3, 3}}
	brr := arr
	brr[1].x = 77
	verifObserve("structs", []int{p.x, p.y, q.x, r.x, r.y, arr[1].x, brr[1].x})
	// interfaces, method sets, type switches, nil interfaces
	shapes := []stShape{stRect{2, 3}, &stSq{4}, nil}
	total := 0
	kinds := ""
	for _, sh := range shapes {
		switch v := sh.(type) {
		case stRect:
			total += v.area()
			kinds += "R"
		case *stSq:
			total += v.area()
			kinds += "S"
		case nil:
			kinds += "N"
		}
	}
	_, isSq := shapes[0].(*stSq)
	verifObserve("ifaces", []interface{}{total, kinds, isSq})
	// integers: wrap-around, shifts, signed/unsigned conversions, division truncation
	var i8 int8 = 127
	i8++
	var u8 uint8 = 3
	u8 -= 5
	var i64 int64 = -7
	verifObserve("ints", []interface{}{i8, u8, i64 / 2, i64 % 3, i64 >> 1, uint32(i64) >> 28, int16(uint16(i64)), 1 << (u8 & 7), -7 / 2, uint64(1) << 63 >> 62})
	// strings, bytes, runes
	str := "héllo, wörld"
	rs := []rune(str)
	bs := []byte(str)
	cnt := 0
	lastIdx := 0
	for i, c := range str {
		if c > 127 {
			cnt++
		}
		lastIdx = i
	}
	verifObserve("strings", []interface{}{len(str), len(rs), len(bs), cnt, lastIdx, string(rs[1]), strings.ToUpper(str[:1]), strings.Repeat("ab", 3), strings.Index(str, "wö"), str[7:9], strconv.Itoa(-45) + strconv.Quote("a\"b")})
	verifObserve("switch", []string{stSwitch('5'), stSwitch('*'), stSwitch('q'), stSwitch('Q'), stSwitch(' ')})
	verifObserve("variadic", []int{stVariadic(1), stVariadic(1, 2, 3), stVariadic(0, []int{4, 5}...)})
	// yq helpers that the checks lean on
	verifObserve("deepMatch", []bool{deepMatch("b", "*a"), deepMatch("ba", "*a"), deepMatch("abc", "a?c"), deepMatch("abc", "*"), deepMatch("", "*a"), deepMatch("aXbXc", "a*b*c"), deepMatch("ab", "a*b*c"), matchKey("x", ""), matchKey("", "")})
	f1, n1, e1 := parseInt64("0x1F")
	f2, n2, e2 := parseInt64("0o17")
	_, n3, e3 := parseInt64("1_000")
	_, _, e4 := parseInt64("12a")
	verifObserve("parseInt64", []interface{}{f1, n1, e1 == nil, f2, n2, e2 == nil, n3, e3 == nil, e4 == nil})
	verifCover("SELF/concrete/end")
}

// The symbolic half: the same kinds of code driven by solver variables, in small independent harnesses so that every
// path of each can be replayed natively.

func VerifSelfSymLoops() {
	n := verifIntRange("n", 0, 6)
	a, b := stFib(n)
	x, y, z := stRotate(1, 2, 3, n)
	verifObserve("fib", []int{a, b})
	verifObserve("rotate", []int{x, y, z})
	verifObserve("defer", stDefer(n))
	verifObserve("labelled", stLabelled(n))
	verifCover("SELF/loops/end")
}

func VerifSelfSymSwitch() {
	c := verifByte("c")
	verifObserve("switch", stSwitch(c))
	verifCover("SELF/switch/end")
}

func VerifSelfSymInts() {
	k := verifInt64("k")
	verifAssume(verifAnd(k > -1000, k < 1000))
	// sixteen residue classes: sixteen different models, each replayed natively
	r := verifChoice("residue", 16)
	verifAssume((k&15) == int64(r))
	if verifChoice("negative", 2) == 1 {
		verifAssume(k < 0)
	} else {
		verifAssume(k >= 0)
	}
	var w8 int8 = int8(k)
	verifObserve("ints", []interface{}{k / 7, k % 7, k >> 2, uint8(k) >> 3, w8, k*k - 3*k, verifItoa(k), k < 10, uint16(k) > 40000})
	verifCover("SELF/ints/end")
}

func VerifSelfSymStrings() {
	s := verifStr("s", 3, "*c")
	verifObserve("deepMatch", []bool{deepMatch("ab", s), deepMatch(s, "a*"), deepMatch(s, "*b"), matchKey(s, s)})
	verifObserve("strings", []interface{}{len(s), strings.Contains(s, "a"), strings.HasPrefix(s, "b"), strings.Index(s, "c"), s + "!" + s, s == "abc", s < "b"})
	m := map[string]int{"a": 1}
	m[s] += 2
	verifObserve("map", []int{m["a"], len(m)})
	verifCover("SELF/strings/end")
}

func VerifSelfSymSort() {
	k := verifIntRange("k", 0, 4)
	xs := []int{3, 1, 2}
	idx := verifIntRange("idx", 0, 2)
	xs[idx] = k
	sort.Ints(xs)
	verifObserve("sorted", xs)
	verifCover("SELF/sort/end")
}

// VerifSelfSymFloats: the floating-point fragment (symbolic float64 from a bit pattern, conversions from and to
// int64, comparisons, arithmetic, the float-format text atom) against the Go compiler, one model per class.
func VerifSelfSymFloats() {
	k := verifInt64("k")
	bits := verifInt64("bits")
	f := math.Float64frombits(uint64(bits))
	switch verifChoice("class", 8) {
	case 0: // a float next to 2^53, an integer next to it
		verifAssume(verifAnd(f >= 9007199254740000.0, f <= 9007199254750000.0))
		verifAssume(verifAnd(k >= 9007199254740000, k <= 9007199254750000))
		verifAssume(float64(k) == f)
		verifAssume(int64(f) != k)
	case 1: // fraction
		verifAssume(verifAnd(f > 2.0, f < 3.0))
		verifAssume(f != 2.5)
		verifAssume(k == 2)
	case 2: // negative, large
		verifAssume(f < -1e300)
		verifAssume(!math.IsInf(f, 0))
		verifAssume(k < -9000000000000000000)
	case 3: // beyond the int64 range
		verifAssume(verifAnd(f >= 9223372036854775808.0, f < 1e30))
		verifAssume(k > 9223372036854775000)
	case 4: // NaN
		verifAssume(math.IsNaN(f))
		verifAssume(k == 7)
	case 5: // subnormal
		verifAssume(verifAnd(f > 0, f < 1e-310))
		verifAssume(k == -1)
	case 6: // negative zero vs zero
		verifAssume(verifAnd(f == 0, bits != 0))
		verifAssume(k == 0)
	default: // tie at 2^53+1 rounds to even
		verifAssume(k == 9007199254740993)
		verifAssume(f == float64(k))
	}
	fk := float64(k)
	obs := []interface{}{fk < f, fk == f, fk > f, f + 1.5, f * 2, -f, f - fk, f / 3, math.IsNaN(f), math.IsInf(f, 1), fk, math.Abs(f)}
	if f >= -9223372036854775808.0 && f < 9223372036854775808.0 {
		obs = append(obs, int64(f), int64(f) < k)
	}
	if !math.IsNaN(f) && !math.IsInf(f, 0) {
		txt := verifFtoa(f)
		back, err := strconv.ParseFloat(txt, 64)
		obs = append(obs, txt, back == f, err == nil, txt == "2.25", txt == verifFtoa(math.Float64frombits(uint64(verifIteInt(k > 0, bits, 4612248968380809216)))))
	}
	verifObserve("floats", obs)
	verifCover("SELF/floats/end")
}
