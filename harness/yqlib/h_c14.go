package yqlib

import (
	"bufio"
	"encoding/xml"
	"io"
	"strings"
	"unicode"

	lua "github.com/yuin/gopher-lua"
	yaml "gopkg.in/yaml.v3"
)

// C14 — codecs are faithful (claimed only where the escaping / structure is yq's own code).

// ---- (1) Lua string literals: yq's own escape table and long-bracket selection ----

// c14LuaRead: reference reader of a Lua string literal (Lua 5.4 reference manual §3.1): '…' / "…" with the
// escapes \a \b \f \n \r \t \v \\ \" \' \ddd (1-3 decimal digits), and long brackets [=*[ … ]=*] whose first
// newline is skipped.
func c14LuaRead(lit string) (val string, ok bool) {
	if len(lit) == 0 {
		return "", false
	}
	q := lit[0]
	if q == '[' {
		// long bracket of level n
		n := 0
		for 1+n < len(lit) && lit[1+n] == '=' {
			n++
		}
		if 1+n >= len(lit) || lit[1+n] != '[' {
			return "", false
		}
		i := 2 + n
		if i < len(lit) && verifConcreteBool(lit[i] == '\n') {
			i++
		}
		closer := "]" + strings.Repeat("=", n) + "]"
		// the literal ends at the FIRST occurrence of the closer
		for j := i; j+len(closer) <= len(lit); j++ {
			if verifConcreteBool(verifEqStr(lit[j:j+len(closer)], closer)) {
				if j+len(closer) != len(lit) {
					return "", false // text after the closing bracket: not one literal
				}
				return lit[i:j], true
			}
		}
		return "", false
	}
	if q != '"' && q != '\'' {
		return "", false
	}
	i := 1
	for i < len(lit) {
		c := lit[i]
		switch {
		case verifConcreteBool(c == q):
			return val, i == len(lit)-1
		case verifConcreteBool(c == '\n'):
			return "", false // unescaped newline is not allowed in a short literal
		case verifConcreteBool(c == '\\'):
			if i+1 >= len(lit) {
				return "", false
			}
			e := lit[i+1]
			i += 2
			switch {
			case verifConcreteBool(e == 'a'):
				val += "\a"
			case verifConcreteBool(e == 'b'):
				val += "\b"
			case verifConcreteBool(e == 'f'):
				val += "\f"
			case verifConcreteBool(e == 'n'):
				val += "\n"
			case verifConcreteBool(e == 'r'):
				val += "\r"
			case verifConcreteBool(e == 't'):
				val += "\t"
			case verifConcreteBool(e == 'v'):
				val += "\v"
			case verifConcreteBool(e == '\\'):
				val += "\\"
			case verifConcreteBool(e == '"'):
				val += "\""
			case verifConcreteBool(e == '\''):
				val += "'"
			case verifConcreteBool(e >= '0' && e <= '9'):
				d := int(verifConcreteInt(int(e-'0'), 0, 9))
				k := 1
				for k < 3 && i < len(lit) && verifConcreteBool(lit[i] >= '0' && lit[i] <= '9') {
					d = d*10 + verifConcreteInt(int(lit[i]-'0'), 0, 9)
					i++
					k++
				}
				if d > 255 {
					return "", false
				}
				val += string([]byte{byte(d)})
			default:
				return "", false
			}
		default:
			val += lit[i : i+1]
			i++
		}
	}
	return "", false
}

type c14Writer struct{ sb *strings.Builder }

func (w c14Writer) Write(p []byte) (int, error) { return w.sb.Write(p) }

var c14LuaStyles = []Style{0, SingleQuotedStyle, DoubleQuotedStyle, LiteralStyle}
var c14LuaStyleNames = []string{"plain", "single", "double", "literal"}

// VerifC14LuaString: reading back the emitted Lua literal yields exactly the string.
func VerifC14LuaString() {
	// bytes that the escape table and the bracket logic treat specially, plus ordinary ones
	alphabet := "\x00\x00\x07\x07\n\n\r\r\x0e\x0e\x1f\x1f\"\"''\\\\\x7f\x7f]]==[[aa00"
	s := verifStr("s", verifParam("maxlen", 2), alphabet)
	st := verifChoice("style", len(c14LuaStyles))
	node := &CandidateNode{Kind: ScalarNode, Tag: "!!str", Value: s, Style: c14LuaStyles[st]}
	enc := NewLuaEncoder(LuaPreferences{DocPrefix: "", DocSuffix: ""}).(*luaEncoder)
	var sb strings.Builder
	err := enc.encodeString(c14Writer{&sb}, node)
	verifAssert(err == nil, "C14/lua-encode-error")
	if err != nil {
		return
	}
	lit := sb.String()
	verifObserve("lit", lit)
	val, ok := c14LuaRead(lit)
	label := "style=" + c14LuaStyleNames[st]
	verifAssert(ok, "C14/lua-literal-not-well-formed "+label)
	if ok {
		verifAssert(verifEqStr(val, s), "C14/lua-literal-reads-back-differently "+label)
	}
	verifCover("C14/lua/end")
}

// ---- (2) base64 padding reader ----

type c14Chunked struct {
	data        string
	pos         int
	chunk       int
	eofWithData bool
}

func (r *c14Chunked) Read(p []byte) (int, error) {
	if r.pos >= len(r.data) {
		return 0, io.EOF
	}
	n := r.chunk
	if n > len(p) {
		n = len(p)
	}
	if n > len(r.data)-r.pos {
		n = len(r.data) - r.pos
	}
	copy(p, r.data[r.pos:r.pos+n])
	r.pos += n
	if r.pos >= len(r.data) && r.eofWithData {
		return n, io.EOF
	}
	return n, nil
}

// VerifC14Base64Padder: for every input length, chunking and buffer size the bytes delivered are the input
// followed by '=' up to a multiple of four.
func VerifC14Base64Padder() {
	total := verifChoice("len", 7)
	data := "QUJDREVG"[:total]
	// line breaks (which the base64 decoder skips) anywhere in the text, e.g. the newline `echo` appends
	switch verifChoice("newline", 3) {
	case 1:
		data += "\n"
	case 2:
		k := verifChoice("at", total+1)
		data = data[:k] + "\r\n" + data[k:]
	}
	src := &c14Chunked{data: data, chunk: verifChoice("chunk", 3) + 1, eofWithData: verifChoice("eofWithData", 2) == 1}
	bufSize := verifChoice("buf", 4) + 1
	p := &base64Padder{Reader: src}
	out := ""
	buf := make([]byte, bufSize)
	for iter := 0; iter < 40; iter++ {
		n, err := p.Read(buf)
		out += string(buf[:n])
		if err == io.EOF {
			break
		}
		if err != nil {
			verifFail("C14/base64-padder-error")
		}
	}
	want := data
	for k := total; k%4 != 0; k++ {
		want += "="
	}
	verifObserve("out", out)
	verifAssert(out == want, "C14/base64-padding")
	verifCover("C14/base64/end")
}

// ---- (3) CSV / TSV at record level through the real encoding/csv writer and reader ----

var c14Cells = []string{"a", "", "a,b", "a\"b", "x\ty", " lead", "two\nlines", "1", "true", "#c"}

// VerifC14CSV: arrays of flat objects survive encode → decode, including separators, quotes and newlines in fields.
func VerifC14CSV() {
	tsv := verifChoice("tsv", 2) == 1
	prefs := ConfiguredCsvPreferences
	if tsv {
		prefs = ConfiguredTsvPreferences
	}
	prefs.AutoParse = false
	rows := verifChoice("rows", 2) + 1
	h1, h2 := "h1", []string{"h2", "a,b", "q\"r", "x\ty"}[verifChoice("h2", 4)]
	seq := vSeq()
	var cells []string
	for r := 0; r < rows; r++ {
		// first row: every tricky cell in the first column; later rows and second column: a small pool
		var c1 string
		if r == 0 {
			c1 = c14Cells[verifChoice("c0a", len(c14Cells))]
		} else {
			c1 = []string{"a", "", "two\nlines"}[verifChoice("c"+verifItoa(int64(r))+"a", 3)]
		}
		c2 := []string{"z", "a,b", "a\"b", ""}[verifChoice("c"+verifItoa(int64(r))+"b", 4)]
		cells = append(cells, c1, c2)
		seq.Content = append(seq.Content, vMap(vStr(h1), vStr(c1), vStr(h2), vStr(c2)))
	}
	doc := vDoc(seq)
	var sb strings.Builder
	// as the printer does: the encoder writes into a bufio.Writer that is flushed afterwards
	bw := bufio.NewWriter(c14Writer{&sb})
	err := NewCsvEncoder(prefs).Encode(bw, doc)
	if err == nil {
		err = bw.Flush()
	}
	verifAssert(err == nil, "C14/csv-encode-error")
	if err != nil {
		return
	}
	text := sb.String()
	verifObserve("csv", text)
	dec := NewCSVObjectDecoder(prefs)
	if err := dec.Init(strings.NewReader(text)); err != nil {
		verifFail("C14/csv-decoder-init")
	}
	back, err := dec.Decode()
	verifAssert(err == nil && back != nil, "C14/csv-decode-error")
	if err != nil || back == nil {
		return
	}
	verifAssert(back.Kind == SequenceNode && len(back.Content) == rows, "C14/csv-row-count")
	if back.Kind != SequenceNode || len(back.Content) != rows {
		return
	}
	for r := 0; r < rows; r++ {
		o := back.Content[r]
		verifAssert(o.Kind == MappingNode && len(o.Content) == 4, "C14/csv-object-shape")
		if o.Kind == MappingNode && len(o.Content) == 4 {
			verifAssert(o.Content[0].Value == h1 && o.Content[2].Value == h2, "C14/csv-header-changed")
			verifAssert(o.Content[1].Value == cells[2*r] && o.Content[3].Value == cells[2*r+1], "C14/csv-cell-changed")
		}
	}
	verifCover("C14/csv/end")
}

// ---- (4) XML: decoding builds the value the token stream denotes ----

var c14XMLTexts = []string{"x", " x ", "café", "日本", "a b", " é ", "tab\tin", "ü", " \n lead", "trail é \n"}

// c14TrimRef: leading/trailing non-graphic characters and spaces removed (the documented meaning of trimNonGraphic).
func c14TrimRef(s string) string {
	rs := []rune(s)
	keep := func(r rune) bool { return unicode.IsGraphic(r) && !unicode.IsSpace(r) }
	i, j := 0, len(rs)
	for i < j && !keep(rs[i]) {
		i++
	}
	for j > i && !keep(rs[j-1]) {
		j--
	}
	return string(rs[i:j])
}

// VerifC14XMLDecode: <r><a>TEXT</a>[<a>TEXT2</a>]<b id="…">TEXT</b></r> delivered as library tokens decodes to a
// map with text content trimmed, repeated children as a sequence and attributes as prefixed keys.
func VerifC14XMLDecode() {
	t1 := c14XMLTexts[verifChoice("t1", len(c14XMLTexts))]
	t2 := c14XMLTexts[verifChoice("t2", 3)]
	repeated := verifChoice("repeated", 2) == 1
	el := func(name string, text string, attrs ...xml.Attr) []xml.Token {
		return []xml.Token{xml.StartElement{Name: xml.Name{Local: name}, Attr: attrs}, xml.CharData([]byte(text)), xml.EndElement{Name: xml.Name{Local: name}}}
	}
	toks := []xml.Token{xml.StartElement{Name: xml.Name{Local: "r"}}}
	toks = append(toks, el("a", t1)...)
	if repeated {
		toks = append(toks, el("a", t2)...)
	}
	toks = append(toks, el("b", t2, xml.Attr{Name: xml.Name{Local: "id"}, Value: t1})...)
	toks = append(toks, xml.EndElement{Name: xml.Name{Local: "r"}})
	verifXMLTokens = toks
	prefs := ConfiguredXMLPreferences
	dec := NewXMLDecoder(prefs)
	_ = dec.Init(nil)
	node, err := dec.Decode()
	verifAssert(err == nil && node != nil, "C14/xml-decode-error")
	if err != nil || node == nil {
		return
	}
	got := vDump(node)
	wantA := "<!!str " + c14TrimRef(t1) + ">"
	if repeated {
		wantA = "[<!!str " + c14TrimRef(t1) + ">, <!!str " + c14TrimRef(t2) + ">]"
	}
	want := "{<!!str r>: {<!!str a>: " + wantA + ", <!!str b>: {<!!str " + prefs.ContentName + ">: <!!str " + c14TrimRef(t2) + ">, <!!str " + prefs.AttributePrefix + "id>: <!!str " + t1 + ">}}}"
	verifObserve("got", got)
	verifObserve("want", want)
	verifAssert(got == want, "C14/xml-decoded-value-differs")
	verifCover("C14/xml/end")
}

// ---- URI ----

// c14PercentDecode: an independent reader of application/x-www-form-urlencoded text: %XX is a byte, + a blank,
// everything else stands for itself. ok=false for a malformed escape; clean=false when a character appears bare
// that the format reserves (anything but unreserved characters, '+' and '%').
func c14PercentDecode(t string) (val string, ok bool, clean bool) {
	clean = true
	hex := func(c byte) (byte, bool) {
		switch {
		case verifConcreteBool(c >= '0' && c <= '9'):
			return c - '0', true
		case verifConcreteBool(c >= 'A' && c <= 'F'):
			return c - 'A' + 10, true
		case verifConcreteBool(c >= 'a' && c <= 'f'):
			return c - 'a' + 10, true
		}
		return 0, false
	}
	for i := 0; i < len(t); i++ {
		c := t[i]
		switch {
		case verifConcreteBool(c == '%'):
			if i+2 >= len(t) {
				return "", false, clean
			}
			h, ok1 := hex(t[i+1])
			l, ok2 := hex(t[i+2])
			if !ok1 || !ok2 {
				return "", false, clean
			}
			val += string([]byte{h<<4 | l})
			i += 2
		case verifConcreteBool(c == '+'):
			val += " "
		default:
			unreserved := (c >= 'a' && c <= 'z') || (c >= 'A' && c <= 'Z') || (c >= '0' && c <= '9') || c == '-' || c == '_' || c == '.' || c == '~'
			if !verifConcreteBool(unreserved) {
				clean = false
			}
			val += t[i : i+1]
		}
	}
	return val, true, clean
}

// VerifC14URI: @uri of every byte string reads back, by the independent reader and by @urid, to that string.
func VerifC14URI() {
	s := verifStr("s", verifParam("maxlen", 2), "\x01\xff")
	var sb strings.Builder
	err := NewUriEncoder().Encode(c17Writer{&sb}, &CandidateNode{Kind: ScalarNode, Tag: "!!str", Value: s})
	verifAssert(err == nil, "C14/uri-encode-error")
	if err != nil {
		return
	}
	enc := sb.String()
	verifObserve("enc", enc)
	val, ok, clean := c14PercentDecode(enc)
	verifAssert(ok, "C14/uri-malformed-escape")
	if ok {
		verifAssert(verifEqStr(val, s), "C14/uri-reads-back-as-other-value")
		verifAssert(clean, "C14/uri-reserved-character-unescaped")
	}
	dec := NewUriDecoder()
	if dec.Init(strings.NewReader(enc)) != nil {
		verifFail("C14/uri-decoder-init")
	}
	n, derr := dec.Decode()
	verifAssert(derr == nil && n != nil, "C14/uri-decode-error")
	if derr == nil && n != nil {
		verifAssert(verifEqStr(n.Value, s), "C14/urid-is-not-inverse-of-uri")
	}
	verifCover("C14/uri/end")
}

// ---- properties (encoder) ----

// c14PropsReadLine: an independent reader of one `key = value` line of the .properties format (Java
// Properties.load): the key ends at the first unescaped '=', ':' or blank; blanks and one separator are
// skipped; in key and value a backslash escapes the next character (\n \t \r \f named, \uXXXX not produced for
// ASCII), anything else stands for itself.
func c14PropsReadLine(line string) (key, val string, ok bool) {
	i := 0
	unesc := func(c byte) string {
		switch {
		case verifConcreteBool(c == 'n'):
			return "\n"
		case verifConcreteBool(c == 't'):
			return "\t"
		case verifConcreteBool(c == 'r'):
			return "\r"
		case verifConcreteBool(c == 'f'):
			return "\f"
		}
		return string([]byte{c})
	}
	for i < len(line) {
		c := line[i]
		if verifConcreteBool(c == '\\') {
			if i+1 >= len(line) {
				return "", "", false
			}
			key += unesc(line[i+1])
			i += 2
			continue
		}
		if verifConcreteBool(c == '=' || c == ':' || c == ' ' || c == '\t') {
			break
		}
		key += line[i : i+1]
		i++
	}
	for i < len(line) && verifConcreteBool(line[i] == ' ' || line[i] == '\t') {
		i++
	}
	if i < len(line) && verifConcreteBool(line[i] == '=' || line[i] == ':') {
		i++
	}
	for i < len(line) && verifConcreteBool(line[i] == ' ' || line[i] == '\t') {
		i++
	}
	for i < len(line) {
		c := line[i]
		if verifConcreteBool(c == '\\') {
			if i+1 >= len(line) {
				return "", "", false
			}
			val += unesc(line[i+1])
			i += 2
			continue
		}
		val += line[i : i+1]
		i++
	}
	return key, val, true
}

// VerifC14PropsEncode: a flat map {K: V} with arbitrary printable ASCII in key and value encodes to one
// `K = V` line that the independent reader maps back to K and V.
func VerifC14PropsEncode() {
	k := verifStrN("k", 1, " ~")
	v := verifStr("v", verifParam("maxlen", 2), " ~")
	doc := vDoc(vMap(vStr(k), vStr(v)))
	var sb strings.Builder
	prefs := NewDefaultPropertiesPreferences()
	prefs.UnwrapScalar = verifChoice("unwrapScalar", 2) == 1
	err := NewPropertiesEncoder(prefs).Encode(c17Writer{&sb}, doc)
	if err != nil {
		verifCover("C14/props/error")
		return
	}
	out := sb.String()
	verifObserve("out", out)
	verifAssert(len(out) > 0 && verifConcreteBool(out[len(out)-1] == '\n'), "C14/props-line-not-terminated")
	if len(out) == 0 {
		return
	}
	line := out[:len(out)-1]
	for i := 0; i < len(line); i++ {
		verifAssert(!verifConcreteBool(line[i] == '\n'), "C14/props-value-breaks-the-line")
	}
	if len(line) > 0 {
		// a line whose first character is # or ! is a comment to every reader of the format
		verifAssert(!verifConcreteBool(line[0] == '#' || line[0] == '!'), "C14/props-entry-reads-as-a-comment")
	}
	gk, gv, ok := c14PropsReadLine(line)
	verifAssert(ok, "C14/props-dangling-escape")
	if ok {
		kc := "other"
		switch {
		case verifConcreteBool(k[0] == '='):
			kc = "equals-sign"
		case verifConcreteBool(k[0] == '#' || k[0] == '!'):
			kc = "comment-character"
		}
		verifAssert(verifEqStr(gk, k), "C14/props-key-reads-back-as-other-key key="+kc)
		if prefs.UnwrapScalar {
			vc := "other"
			if len(v) > 0 && verifConcreteBool(v[0] == ' ') {
				vc = "leading-blank"
			}
			verifAssert(verifEqStr(gv, v), "C14/props-value-reads-back-as-other-value key="+kc+" value="+vc)
		}
	}
	verifCover("C14/props/end")
}

// VerifC14URIDecode: every byte string handed to -p=uri / @urid: where the text is well-formed the value is what
// the independent reader says it denotes; where an escape is malformed an error is reported — never another value.
func VerifC14URIDecode() {
	t := verifStr("text", verifParam("maxlen", 4), "\x01\x7f")
	want, wellFormed, _ := c14PercentDecode(t)
	dec := NewUriDecoder()
	if dec.Init(strings.NewReader(t)) != nil {
		verifFail("C14/uri-decoder-init")
	}
	n, err := dec.Decode()
	if !wellFormed {
		verifCover("C14/urid/malformed")
		verifAssert(err != nil, "C14/urid-malformed-escape-accepted")
		return
	}
	verifAssert(err == nil && n != nil, "C14/urid-well-formed-text-rejected")
	if err == nil && n != nil {
		verifAssert(verifEqStr(n.Value, want), "C14/urid-decodes-to-other-value")
	}
	verifCover("C14/urid/end")
}

// ---- Lua table keys ----

var c14LuaKeywords = []string{"and", "break", "do", "else", "elseif", "end", "false", "for", "function", "goto", "if", "in", "local", "nil", "not", "or", "repeat", "return", "then", "true", "until", "while"}

// VerifC14LuaKeys: with --lua-unquoted a key is written bare only when it is a Lua name ([A-Za-z_][A-Za-z0-9_]*) and
// not a reserved word; otherwise (and always without the flag) it is written as ["…"] whose literal reads back to
// the key. A bare reserved word or a bare non-name would make the output something else than a table with that key.
func VerifC14LuaKeys() {
	// up to 2 characters over all of ' '..'z'; 3 characters (the length of and, end, for, nil, not) over '_'..'z'
	kl := verifParam("keylen", 2)
	alphabet := " z"
	if kl >= 3 {
		alphabet = "_z"
	}
	k := verifStr("key", kl, alphabet)
	verifAssume(len(k) >= 1)
	unquoted := verifChoice("unquoted", 2) == 1
	prefs := LuaPreferences{DocPrefix: "return ", DocSuffix: ";\n", UnquotedKeys: unquoted}
	var sb strings.Builder
	w := bufio.NewWriter(c14Writer{&sb})
	err := NewLuaEncoder(prefs).Encode(w, vDoc(vMap(vStr(k), vStr("v"))))
	if ferr := w.Flush(); err == nil {
		err = ferr
	}
	verifAssert(err == nil, "C14/lua-encode-error keys")
	if err != nil {
		return
	}
	out := sb.String()
	verifObserve("lua", out)
	// return {\n\t KEY = "v";\n};\n
	const head = "return {\n\t"
	verifAssert(len(out) > len(head) && out[:len(head)] == head, "C14/lua-table-head")
	if !(len(out) > len(head) && out[:len(head)] == head) {
		return
	}
	rest := out[len(head):]
	const tail = " = \"v\";\n};\n"
	verifAssert(len(rest) > len(tail) && rest[len(rest)-len(tail):] == tail, "C14/lua-table-tail")
	if !(len(rest) > len(tail) && rest[len(rest)-len(tail):] == tail) {
		return
	}
	keyText := rest[:len(rest)-len(tail)]
	if verifConcreteBool(keyText[0] == '[') {
		verifCover("C14/luakeys/quoted")
		verifAssert(len(keyText) >= 2 && verifConcreteBool(keyText[len(keyText)-1] == ']'), "C14/lua-quoted-key-not-closed")
		val, ok := c14LuaRead(keyText[1 : len(keyText)-1])
		verifAssert(ok && verifEqStr(val, k), "C14/lua-quoted-key-reads-back-differently")
	} else {
		verifCover("C14/luakeys/bare")
		verifAssert(unquoted, "C14/lua-bare-key-without-the-flag")
		verifAssert(verifEqStr(keyText, k), "C14/lua-bare-key-is-not-the-key")
		for i := 0; i < len(k); i++ {
			c := k[i]
			name := (c >= 'a' && c <= 'z') || (c >= 'A' && c <= 'Z') || c == '_' || (i > 0 && c >= '0' && c <= '9')
			verifAssert(name, "C14/lua-bare-key-is-not-a-name")
		}
		for _, kw := range c14LuaKeywords {
			verifAssert(!verifEqStr(k, kw), "C14/lua-bare-key-is-a-reserved-word")
		}
	}
	verifCover("C14/luakeys/end")
}

// VerifC14PreferencesCopy: the in-expression encoders (to_json, to_yaml, to_xml, @xml, to_props) work on a copy of
// the configured preferences; the copy carries every setting of the original (all fields solver-chosen).
func VerifC14PreferencesCopy() {
	switch verifChoice("format", 4) {
	case 0:
		p := XmlPreferences{Indent: verifIntRange("indent", 0, 8), AttributePrefix: verifPick("ap", "+@", "_", ""), ContentName: verifPick("cn", "+content", "#text"),
			StrictMode: verifBool("strict"), KeepNamespace: verifBool("keepns"), UseRawToken: verifBool("raw"), ProcInstPrefix: verifPick("pi", "+p_", "?"),
			DirectiveName: verifPick("dn", "+directive", "!d"), SkipProcInst: verifBool("skippi"), SkipDirectives: verifBool("skipd")}
		verifAssert(p.Copy() == p, "C14/copy-of-xml-preferences-loses-a-setting")
	case 1:
		p := YamlPreferences{Indent: verifIntRange("indent", 0, 8), ColorsEnabled: verifBool("colors"), LeadingContentPreProcessing: verifBool("lead"),
			PrintDocSeparators: verifBool("seps"), UnwrapScalar: verifBool("unwrap"), EvaluateTogether: verifBool("together")}
		verifAssert(p.Copy() == p, "C14/copy-of-yaml-preferences-loses-a-setting")
	case 2:
		p := JsonPreferences{Indent: verifIntRange("indent", 0, 8), ColorsEnabled: verifBool("colors"), UnwrapScalar: verifBool("unwrap")}
		verifAssert(p.Copy() == p, "C14/copy-of-json-preferences-loses-a-setting")
	default:
		p := PropertiesPreferences{UnwrapScalar: verifBool("unwrap"), KeyValueSeparator: verifPick("sep", " = ", "=", ": "), UseArrayBrackets: verifBool("brackets")}
		verifAssert(p.Copy() == p, "C14/copy-of-properties-preferences-loses-a-setting")
	}
	verifCover("C14/prefs-copy/end")
}

// VerifC14InExpressionXML: `to_xml` / `@xml` inside an expression write what `-o=xml` writes for the same value
// (directive, processing instruction, attributes, content), and `from_xml` reads it back to the same value.
func VerifC14InExpressionXML() {
	v := verifStrN("v", 1, "az")
	shape := verifChoice("shape", 4)
	var n *yaml.Node
	switch shape {
	case 0:
		n = vMap(vStr("+directive"), vStr("DOCTYPE r"+v), vStr("r"), vMap(vStr("k"), vStr(v)))
	case 1:
		n = vMap(vStr("+p_xml"), vStr("version=\"1.0\""), vStr("r"), vMap(vStr("+@a"), vStr(v), vStr("+content"), vStr("t"+v)))
	case 2:
		n = vMap(vStr("+p_xml"), vStr("version=\"1.0\""), vStr("+directive"), vStr("DOCTYPE r"), vStr("r"), vMap(vStr("i"), vSeq(vStr(v), vStr("w"))))
	default:
		n = vMap(vStr("r"), vMap(vStr("+@a"), vStr(v), vStr("c"), vMap(vStr("+directive"), vStr("x"))))
	}
	form := []string{"to_xml", "@xml", "to_xml(0)"}[verifChoice("form", 3)]
	label := form + " shape=" + verifItoa(int64(shape))
	res, err := vEval(vParse(form), vDoc(n))
	prefs := ConfiguredXMLPreferences // the settings `-o=xml` encodes with (a plain struct copy)
	if form != "to_xml" {
		prefs.Indent = 0
	}
	var sb strings.Builder
	w := bufio.NewWriter(c17Writer{&sb})
	printer := NewPrinter(NewXMLEncoder(prefs), NewSinglePrinterWriter(w))
	perr := printer.PrintResults(vDoc(n).AsList())
	_ = w.Flush()
	verifAssert((err == nil) == (perr == nil), "C14/in-expression-xml-fails-where-the-output-format-does-not "+label)
	if err != nil || perr != nil {
		verifCover("C14/inexpr-xml/error")
		return
	}
	verifAssert(res.Len() == 1, "C14/in-expression-xml-result-count "+label)
	if res.Len() != 1 {
		return
	}
	got := res.Front().Value.(*CandidateNode).Value
	want := sb.String()
	verifObserve("got", got)
	verifAssert(verifEqStr(got, want), "C14/in-expression-xml-differs-from-xml-output "+label)
	verifCover("C14/inexpr-xml/end")
}

// c14LuaNumeral: reference reader of a Lua 5.4 integer numeral as the encoder may write it (reference manual §3.1):
// decimal digits or 0x hexadecimal digits, optionally behind a unary minus. Lua has no unary plus, no octal or binary
// prefixes and no digit separators.
func c14LuaNumeral(t string) (int64, bool) {
	neg := false
	if len(t) > 0 && verifConcreteBool(t[0] == '-') {
		neg, t = true, t[1:]
	}
	if len(t) == 0 {
		return 0, false
	}
	var v int64
	if len(t) > 2 && verifConcreteBool(t[0] == '0' && (t[1] == 'x' || t[1] == 'X')) {
		for i := 2; i < len(t); i++ {
			c := t[i]
			switch {
			case verifConcreteBool(c >= '0' && c <= '9'):
				v = v*16 + int64(c-'0')
			case verifConcreteBool(c >= 'a' && c <= 'f'):
				v = v*16 + int64(c-'a') + 10
			case verifConcreteBool(c >= 'A' && c <= 'F'):
				v = v*16 + int64(c-'A') + 10
			default:
				return 0, false
			}
		}
	} else {
		for i := 0; i < len(t); i++ {
			c := t[i]
			if !verifConcreteBool(c >= '0' && c <= '9') {
				return 0, false
			}
			v = v*10 + int64(c-'0')
		}
	}
	if neg {
		v = -v
	}
	return v, true
}

// VerifC14LuaNumbers: an integer in any YAML spelling (decimal, signed, hexadecimal, octal, with digit separators;
// digits symbolic) is written to Lua as a numeral a Lua reader accepts and that denotes the same number.
func VerifC14LuaNumbers() {
	var text string
	var val int64
	if verifChoice("odd", 2) == 1 {
		odd := []string{"+12", "+0", "1_000", "0x1F", "0X1f", "-0", "0o17", "+0x10", "0x1_0", "-1_0"}
		vals := []int64{12, 0, 1000, 31, 31, 0, 15, 16, 16, -10}
		i := verifChoice("which", len(odd))
		text, val = odd[i], vals[i]
	} else {
		text, val = c15SpelledInt("n")
	}
	// is it an integer to yq at all? (the value the JSON route gives is the reference for "the same number")
	_, parsed, perr := parseInt64(text)
	if perr != nil {
		verifCover("C14/luanum/not-an-integer-to-yq")
		return
	}
	verifAssert(parsed == val, "C14/lua-number-harness-reference")
	var sb strings.Builder
	w := bufio.NewWriter(c17Writer{&sb})
	err := NewLuaEncoder(ConfiguredLuaPreferences).Encode(w, vDoc(vMap(vStr("k"), vInt(text))))
	_ = w.Flush()
	verifAssert(err == nil, "C14/lua-encode-error number")
	if err != nil {
		return
	}
	out := sb.String()
	if _, asIs := c14LuaNumeral(text); !asIs {
		// a spelling Lua does not read has to be rewritten: the decimal numeral of the value is what is expected
		verifAssert(verifEqStr(out, "return {\n\t[\"k\"] = "+verifItoa(val)+";\n};\n"), "C14/lua-number-is-no-lua-numeral")
		verifCover("C14/luanum/end")
		return
	}
	i := strings.Index(out, "= ")
	j := strings.Index(out, ";")
	verifAssert(i >= 0 && j > i, "C14/lua-output-shape number")
	if i < 0 || j <= i {
		return
	}
	got, ok := c14LuaNumeral(out[i+2 : j])
	verifObserve("numeral", out[i+2:j])
	verifAssert(ok, "C14/lua-number-is-no-lua-numeral")
	if ok {
		verifAssert(got == val, "C14/lua-number-denotes-another-value")
	}
	verifCover("C14/luanum/end")
}

// VerifC14LuaTables: the Lua decoder's conversion of a table (gopher-lua's LTable, its real Go code; built here through
// its API, no VM involved): a table whose keys are exactly 1..n becomes the sequence of its values; any other table
// becomes a map that holds EVERY pair (integer keys, also 0 and gaps, as integer keys; string keys as strings).
func VerifC14LuaTables() {
	t := &lua.LTable{}
	n := verifChoice("pairs", 4)
	intKeys := 0
	strKeys := 0
	isSeq := true
	nextIdx := 1
	var wantKeys []string
	for i := 0; i < n; i++ {
		val := lua.LString("v" + verifItoa(int64(i)))
		if verifChoice("keykind"+verifItoa(int64(i)), 2) == 0 {
			k := verifChoice("int"+verifItoa(int64(i)), 5) // 0..4
			dup := false
			for _, w := range wantKeys {
				if w == "I"+verifItoa(int64(k)) {
					dup = true
				}
			}
			if dup {
				return
			}
			t.RawSetInt(k, val)
			wantKeys = append(wantKeys, "I"+verifItoa(int64(k)))
			intKeys++
		} else {
			k := []string{"x", "y", "0", "1"}[verifChoice("str"+verifItoa(int64(i)), 4)]
			dup := false
			for _, w := range wantKeys {
				if w == "S"+k {
					dup = true
				}
			}
			if dup {
				return
			}
			t.RawSetString(k, val)
			wantKeys = append(wantKeys, "S"+k)
			strKeys++
		}
	}
	// is the key set exactly {1..n}?
	for idx := 1; idx <= n; idx++ {
		found := false
		for _, w := range wantKeys {
			if w == "I"+verifItoa(int64(idx)) {
				found = true
			}
		}
		isSeq = isSeq && found
	}
	_ = nextIdx
	node := (&luaDecoder{}).convertToYamlNode(nil, t)
	label := "pairs=" + verifItoa(int64(n))
	if n > 0 && isSeq {
		verifAssert(node.Kind == SequenceNode && len(node.Content) == n, "C14/lua-table-1..n-is-not-a-sequence "+label)
		verifCover("C14/luatable/sequence")
	} else if n > 0 {
		verifAssert(node.Kind == MappingNode, "C14/lua-table-with-other-keys-is-not-a-map "+label)
		if node.Kind == MappingNode {
			verifAssert(len(node.Content) == 2*n, "C14/lua-table-lost-pairs "+label)
			for _, w := range wantKeys {
				found := false
				for i := 0; i+1 < len(node.Content); i += 2 {
					kn := node.Content[i]
					if (w[0] == 'I' && kn.Tag == "!!int" && kn.Value == w[1:]) || (w[0] == 'S' && kn.Tag == "!!str" && kn.Value == w[1:]) {
						found = true
					}
				}
				verifAssert(found, "C14/lua-table-lost-a-key "+label)
			}
		}
		verifCover("C14/luatable/map")
	}
	verifCover("C14/luatable/end")
}

// VerifC14DecodeEachValue: a decode operator applied to several values in one evaluation (`.[] | @base64d`: one decoder
// object, initialised again for every value) gives each value what it gives that value alone - also when an earlier
// value was longer, empty, or malformed. Formats whose decoder the engine executes: base64, uri, yaml, xml.
func VerifC14DecodeEachValue() {
	type fm struct {
		op   string
		pool []string
	}
	fms := []fm{{"@base64d", []string{"Y2F0cw==", "", "YQ==", "Y2F0cw", "!!"}}, {"@urid", []string{"x%20y", "", "a", "%zz"}}, {"from_yaml", []string{"a: 1", "", "[1]", "# c", "a: [", "x"}}, {"from_xml", []string{"<a>1</a>", "", "<b/>", "<a>"}}}
	f := fms[verifChoice("format", len(fms))]
	verifXMLReal = true
	n := 2 + verifChoice("values", 2)
	seq := vSeq()
	var want []string
	wantErr := false
	for i := 0; i < n; i++ {
		v := f.pool[verifChoice("v"+verifItoa(int64(i)), len(f.pool))]
		seq.Content = append(seq.Content, vStr(v))
		alone, err := vEval(vParse(f.op), vDoc(vStr(v)))
		if err != nil {
			wantErr = true
		} else {
			want = append(want, vDumpList(alone))
		}
	}
	res, err := vEval(vParse(".[] | "+f.op), vDoc(seq))
	label := " op=" + f.op
	if wantErr {
		verifCover("C14/decode-each/error-expected")
		verifAssert(err != nil, "C14/decode-error-of-one-value-not-reported"+label)
		return
	}
	verifAssert(err == nil, "C14/decode-of-a-value-fails-after-another-value"+label)
	if err != nil {
		return
	}
	got := ""
	for i, r := range vNodes(res) {
		if i > 0 {
			got += " | "
		}
		got += vDump(r)
	}
	w := strings.Join(want, " | ")
	verifObserve("got", got)
	verifObserve("want", w)
	verifAssert(got == w, "C14/decoded-value-depends-on-the-values-decoded-before"+label)
	verifCover("C14/decode-each/end")
}

// VerifC14Base64RoundTrip: `@base64 | @base64d` is the identity on every byte string of up to 3 (thorough 6) bytes (0x00-0xFF), through
// yq's encoder, its padding reader and decoder, and the interpreted encoding/base64 (table lookups on solver bytes).
func VerifC14Base64RoundTrip() {
	s := verifStr("s", verifParam("b64len", 3), "\x00\xff")
	res, err := vEval(vParse("@base64 | @base64d"), vDoc(vStr(s)))
	verifAssert(err == nil && res.Len() == 1, "C14/base64-round-trip-failed")
	if err != nil || res.Len() != 1 {
		return
	}
	got := res.Front().Value.(*CandidateNode).Value
	verifAssert(verifEqStr(got, s), "C14/base64-round-trip-changed-the-value")
	verifCover("C14/base64-roundtrip/end")
}
