package yqlib

import (
	"bufio"
	"encoding/xml"
	"io"
	"strings"
	"unicode"
)

// C14 — codecs are faithful (claimed only where the escaping / structure is yq's own code).

// ---- (1) Lua string literals: yq's own escape table and long-bracket selection ----

// c14LuaRead: reference reader of a Lua string literal (Lua 5.4 reference manual §3.1): '…' / "…" with the
// escapes \a \b \f \n \r \t \v \\ \" \' \ddd (1-3 decimal digits), and long brackets [=*[ … ]=*] whose first
// newline is skipped.
func c14LuaRead(lit string) (val string, ok bool) {
	if len(lit) == 0 {
		return "", false
	}
	q := lit[0]
	if q == '[' {
		// long bracket of level n
		n := 0
		for 1+n < len(lit) && lit[1+n] == '=' {
			n++
		}
		if 1+n >= len(lit) || lit[1+n] != '[' {
			return "", false
		}
		i := 2 + n
		if i < len(lit) && verifConcreteBool(lit[i] == '\n') {
			i++
		}
		closer := "]" + strings.Repeat("=", n) + "]"
		// the literal ends at the FIRST occurrence of the closer
		for j := i; j+len(closer) <= len(lit); j++ {
			if verifConcreteBool(verifEqStr(lit[j:j+len(closer)], closer)) {
				if j+len(closer) != len(lit) {
					return "", false // text after the closing bracket: not one literal
				}
				return lit[i:j], true
			}
		}
		return "", false
	}
	if q != '"' && q != '\'' {
		return "", false
	}
	i := 1
	for i < len(lit) {
		c := lit[i]
		switch {
		case verifConcreteBool(c == q):
			return val, i == len(lit)-1
		case verifConcreteBool(c == '\n'):
			return "", false // unescaped newline is not allowed in a short literal
		case verifConcreteBool(c == '\\'):
			if i+1 >= len(lit) {
				return "", false
			}
			e := lit[i+1]
			i += 2
			switch {
			case verifConcreteBool(e == 'a'):
				val += "\a"
			case verifConcreteBool(e == 'b'):
				val += "\b"
			case verifConcreteBool(e == 'f'):
				val += "\f"
			case verifConcreteBool(e == 'n'):
				val += "\n"
			case verifConcreteBool(e == 'r'):
				val += "\r"
			case verifConcreteBool(e == 't'):
				val += "\t"
			case verifConcreteBool(e == 'v'):
				val += "\v"
			case verifConcreteBool(e == '\\'):
				val += "\\"
			case verifConcreteBool(e == '"'):
				val += "\""
			case verifConcreteBool(e == '\''):
				val += "'"
			case verifConcreteBool(e >= '0' && e <= '9'):
				d := int(verifConcreteInt(int(e-'0'), 0, 9))
				k := 1
				for k < 3 && i < len(lit) && verifConcreteBool(lit[i] >= '0' && lit[i] <= '9') {
					d = d*10 + verifConcreteInt(int(lit[i]-'0'), 0, 9)
					i++
					k++
				}
				if d > 255 {
					return "", false
				}
				val += string([]byte{byte(d)})
			default:
				return "", false
			}
		default:
			val += lit[i : i+1]
			i++
		}
	}
	return "", false
}

type c14Writer struct{ sb *strings.Builder }

func (w c14Writer) Write(p []byte) (int, error) { return w.sb.Write(p) }

var c14LuaStyles = []Style{0, SingleQuotedStyle, DoubleQuotedStyle, LiteralStyle}
var c14LuaStyleNames = []string{"plain", "single", "double", "literal"}

// VerifC14LuaString: reading back the emitted Lua literal yields exactly the string.
func VerifC14LuaString() {
	// bytes that the escape table and the bracket logic treat specially, plus ordinary ones
	alphabet := "\x00\x00\x07\x07\n\n\r\r\x0e\x0e\x1f\x1f\"\"''\\\\\x7f\x7f]]==[[aa00"
	s := verifStr("s", verifParam("maxlen", 2), alphabet)
	st := verifChoice("style", len(c14LuaStyles))
	node := &CandidateNode{Kind: ScalarNode, Tag: "!!str", Value: s, Style: c14LuaStyles[st]}
	enc := NewLuaEncoder(LuaPreferences{DocPrefix: "", DocSuffix: ""}).(*luaEncoder)
	var sb strings.Builder
	err := enc.encodeString(c14Writer{&sb}, node)
	verifAssert(err == nil, "C14/lua-encode-error")
	if err != nil {
		return
	}
	lit := sb.String()
	verifObserve("lit", lit)
	val, ok := c14LuaRead(lit)
	label := "style=" + c14LuaStyleNames[st]
	verifAssert(ok, "C14/lua-literal-not-well-formed "+label)
	if ok {
		verifAssert(verifEqStr(val, s), "C14/lua-literal-reads-back-differently "+label)
	}
	verifCover("C14/lua/end")
}

// ---- (2) base64 padding reader ----

type c14Chunked struct {
	data        string
	pos         int
	chunk       int
	eofWithData bool
}

func (r *c14Chunked) Read(p []byte) (int, error) {
	if r.pos >= len(r.data) {
		return 0, io.EOF
	}
	n := r.chunk
	if n > len(p) {
		n = len(p)
	}
	if n > len(r.data)-r.pos {
		n = len(r.data) - r.pos
	}
	copy(p, r.data[r.pos:r.pos+n])
	r.pos += n
	if r.pos >= len(r.data) && r.eofWithData {
		return n, io.EOF
	}
	return n, nil
}

// VerifC14Base64Padder: for every input length, chunking and buffer size the bytes delivered are the input
// followed by '=' up to a multiple of four.
func VerifC14Base64Padder() {
	total := verifChoice("len", 7)
	data := "QUJDREVG"[:total]
	// line breaks (which the base64 decoder skips) anywhere in the text, e.g. the newline `echo` appends
	switch verifChoice("newline", 3) {
	case 1:
		data += "\n"
	case 2:
		k := verifChoice("at", total+1)
		data = data[:k] + "\r\n" + data[k:]
	}
	src := &c14Chunked{data: data, chunk: verifChoice("chunk", 3) + 1, eofWithData: verifChoice("eofWithData", 2) == 1}
	bufSize := verifChoice("buf", 4) + 1
	p := &base64Padder{Reader: src}
	out := ""
	buf := make([]byte, bufSize)
	for iter := 0; iter < 40; iter++ {
		n, err := p.Read(buf)
		out += string(buf[:n])
		if err == io.EOF {
			break
		}
		if err != nil {
			verifFail("C14/base64-padder-error")
		}
	}
	want := data
	for k := total; k%4 != 0; k++ {
		want += "="
	}
	verifObserve("out", out)
	verifAssert(out == want, "C14/base64-padding")
	verifCover("C14/base64/end")
}

// ---- (3) CSV / TSV at record level through the real encoding/csv writer and reader ----

var c14Cells = []string{"a", "", "a,b", "a\"b", "x\ty", " lead", "two\nlines", "1", "true", "#c"}

// VerifC14CSV: arrays of flat objects survive encode → decode, including separators, quotes and newlines in fields.
func VerifC14CSV() {
	tsv := verifChoice("tsv", 2) == 1
	prefs := ConfiguredCsvPreferences
	if tsv {
		prefs = ConfiguredTsvPreferences
	}
	prefs.AutoParse = false
	rows := verifChoice("rows", 2) + 1
	h1, h2 := "h1", []string{"h2", "a,b", "q\"r", "x\ty"}[verifChoice("h2", 4)]
	seq := vSeq()
	var cells []string
	for r := 0; r < rows; r++ {
		// first row: every tricky cell in the first column; later rows and second column: a small pool
		var c1 string
		if r == 0 {
			c1 = c14Cells[verifChoice("c0a", len(c14Cells))]
		} else {
			c1 = []string{"a", "", "two\nlines"}[verifChoice("c"+verifItoa(int64(r))+"a", 3)]
		}
		c2 := []string{"z", "a,b", "a\"b", ""}[verifChoice("c"+verifItoa(int64(r))+"b", 4)]
		cells = append(cells, c1, c2)
		seq.Content = append(seq.Content, vMap(vStr(h1), vStr(c1), vStr(h2), vStr(c2)))
	}
	doc := vDoc(seq)
	var sb strings.Builder
	// as the printer does: the encoder writes into a bufio.Writer that is flushed afterwards
	bw := bufio.NewWriter(c14Writer{&sb})
	err := NewCsvEncoder(prefs).Encode(bw, doc)
	if err == nil {
		err = bw.Flush()
	}
	verifAssert(err == nil, "C14/csv-encode-error")
	if err != nil {
		return
	}
	text := sb.String()
	verifObserve("csv", text)
	dec := NewCSVObjectDecoder(prefs)
	if err := dec.Init(strings.NewReader(text)); err != nil {
		verifFail("C14/csv-decoder-init")
	}
	back, err := dec.Decode()
	verifAssert(err == nil && back != nil, "C14/csv-decode-error")
	if err != nil || back == nil {
		return
	}
	verifAssert(back.Kind == SequenceNode && len(back.Content) == rows, "C14/csv-row-count")
	if back.Kind != SequenceNode || len(back.Content) != rows {
		return
	}
	for r := 0; r < rows; r++ {
		o := back.Content[r]
		verifAssert(o.Kind == MappingNode && len(o.Content) == 4, "C14/csv-object-shape")
		if o.Kind == MappingNode && len(o.Content) == 4 {
			verifAssert(o.Content[0].Value == h1 && o.Content[2].Value == h2, "C14/csv-header-changed")
			verifAssert(o.Content[1].Value == cells[2*r] && o.Content[3].Value == cells[2*r+1], "C14/csv-cell-changed")
		}
	}
	verifCover("C14/csv/end")
}

// ---- (4) XML: decoding builds the value the token stream denotes ----

var c14XMLTexts = []string{"x", " x ", "café", "日本", "a b", " é ", "tab\tin", "ü", " \n lead", "trail é \n"}

// c14TrimRef: leading/trailing non-graphic characters and spaces removed (the documented meaning of trimNonGraphic).
func c14TrimRef(s string) string {
	rs := []rune(s)
	keep := func(r rune) bool { return unicode.IsGraphic(r) && !unicode.IsSpace(r) }
	i, j := 0, len(rs)
	for i < j && !keep(rs[i]) {
		i++
	}
	for j > i && !keep(rs[j-1]) {
		j--
	}
	return string(rs[i:j])
}

// VerifC14XMLDecode: <r><a>TEXT</a>[<a>TEXT2</a>]<b id="…">TEXT</b></r> delivered as library tokens decodes to a
// map with text content trimmed, repeated children as a sequence and attributes as prefixed keys.
func VerifC14XMLDecode() {
	t1 := c14XMLTexts[verifChoice("t1", len(c14XMLTexts))]
	t2 := c14XMLTexts[verifChoice("t2", 3)]
	repeated := verifChoice("repeated", 2) == 1
	el := func(name string, text string, attrs ...xml.Attr) []xml.Token {
		return []xml.Token{xml.StartElement{Name: xml.Name{Local: name}, Attr: attrs}, xml.CharData([]byte(text)), xml.EndElement{Name: xml.Name{Local: name}}}
	}
	toks := []xml.Token{xml.StartElement{Name: xml.Name{Local: "r"}}}
	toks = append(toks, el("a", t1)...)
	if repeated {
		toks = append(toks, el("a", t2)...)
	}
	toks = append(toks, el("b", t2, xml.Attr{Name: xml.Name{Local: "id"}, Value: t1})...)
	toks = append(toks, xml.EndElement{Name: xml.Name{Local: "r"}})
	verifXMLTokens = toks
	prefs := ConfiguredXMLPreferences
	dec := NewXMLDecoder(prefs)
	_ = dec.Init(nil)
	node, err := dec.Decode()
	verifAssert(err == nil && node != nil, "C14/xml-decode-error")
	if err != nil || node == nil {
		return
	}
	got := vDump(node)
	wantA := "<!!str " + c14TrimRef(t1) + ">"
	if repeated {
		wantA = "[<!!str " + c14TrimRef(t1) + ">, <!!str " + c14TrimRef(t2) + ">]"
	}
	want := "{<!!str r>: {<!!str a>: " + wantA + ", <!!str b>: {<!!str " + prefs.ContentName + ">: <!!str " + c14TrimRef(t2) + ">, <!!str " + prefs.AttributePrefix + "id>: <!!str " + t1 + ">}}}"
	verifObserve("got", got)
	verifObserve("want", want)
	verifAssert(got == want, "C14/xml-decoded-value-differs")
	verifCover("C14/xml/end")
}
