package yqlib

import (
	"container/list"
	"bufio"
	"errors"
	"io"
	"strings"
	"io/fs"
	"os"
	"time"
)

// C12 — in-place edit is all-or-nothing.
//
// The real NewWriteInPlaceHandler / CreateTempFile / createTempFile / changeOwner / FinishWriteInPlace /
// tryRenameFile / copyFileContents / safelyCloseFile / tryRemoveTempFile run against an abstract file system:
// for this property the check loads write_in_place_handler.go, file_utils.go and chown_linux.go from the
// current tree with their os.* / io.Copy / (*os.File) call sites mechanically redirected to the functions
// below (see "rewrites" in checks.json). Every call may fail (one solver Boolean per call), the process may be
// killed before any step, and the temp dir may be on another file system (rename fails, copy fallback runs).

const (
	c12Absent  = 0
	c12Old     = 1
	c12New     = 2
	c12Partial = 3
	c12Empty   = 4
)

type c12File struct {
	content int
	mode    uint32
}

type c12Crash struct{}

type c12State struct {
	files    map[string]*c12File
	handles  map[*os.File]string
	noTrunc  map[*os.File]string // handles opened for writing without O_TRUNC -> what the file held when opened
	step     int
	crashAt  int
	sameFS   bool
	closeMayLoseData bool
	oldMode  uint32
	ops      string
	lastOp   string
	dead     bool
	fallback bool // the rename failed and the copy fallback opened the target for writing
	symlink  map[string]bool   // names that are symbolic links (Stat follows them, Lstat does not)
	noFaults bool              // front-matter harness: no injected failures
	text     map[string]string // front-matter harness: real bytes of files (source text, what was written)
}

var c12 *c12State

type c12Info struct{ mode uint32 }

func (i c12Info) Name() string       { return "f" }
func (i c12Info) Size() int64        { return 1 }
func (i c12Info) Mode() fs.FileMode  { return fs.FileMode(i.mode) }
func (i c12Info) ModTime() time.Time { return time.Time{} }
func (i c12Info) IsDir() bool        { return false }
func (i c12Info) Sys() any           { return nil }

var c12ErrNotExist = errors.New("file does not exist")

// c12Step: a point at which the process can be killed (before the operation takes effect).
func c12Step(op string) {
	if c12.dead {
		// the process is gone: deferred calls that run while the harness unwinds have no effect
		panic(c12Crash{})
	}
	c12.step++
	c12.lastOp = op
	c12.ops += op + " "
	if c12.step == c12.crashAt {
		c12.dead = true
		panic(c12Crash{})
	}
}

func c12Fail(op string) bool {
	if c12.noFaults {
		return false
	}
	return verifConcreteBool(verifBool("fail_" + op + "_" + verifItoa(int64(c12.step))))
}

func verifOSTempDir() string { return "/tmp" }

func verifOSIsNotExist(err error) bool { return err == c12ErrNotExist }

func verifOSStat(name string) (fs.FileInfo, error) {
	c12Step("stat")
	if name == "/tmp" {
		return c12Info{mode: 0o700}, nil
	}
	if c12Fail("stat") {
		return nil, errors.New("stat failed")
	}
	f, ok := c12.files[name]
	if !ok || f.content == c12Absent {
		return nil, c12ErrNotExist
	}
	return c12Info{mode: f.mode}, nil
}

// verifOSLstat: like Stat, but a symbolic link is described itself (mode 0777 | ModeSymlink), not its target
func verifOSLstat(name string) (fs.FileInfo, error) {
	info, err := verifOSStat(name)
	if err == nil && c12.symlink[name] {
		return c12Info{mode: 0o777 | uint32(fs.ModeSymlink)}, nil
	}
	return info, err
}

func verifOSMkdir(_ string, _ fs.FileMode) error { return nil }

func verifOSCreateTemp(_ string, _ string) (*os.File, error) {
	c12Step("createtemp")
	if c12Fail("createtemp") {
		return nil, errors.New("createtemp failed")
	}
	h := new(os.File)
	c12.files["/tmp/temp1"] = &c12File{content: c12Empty, mode: 0o600}
	c12.handles[h] = "/tmp/temp1"
	return h, nil
}

func verifOSChmod(name string, mode fs.FileMode) error {
	c12Step("chmod")
	if c12Fail("chmod") {
		return errors.New("chmod failed")
	}
	if f, ok := c12.files[name]; ok {
		f.mode = uint32(mode)
	}
	return nil
}

func verifOSChown(_ string, _ int, _ int) error {
	c12Step("chown")
	if c12Fail("chown") {
		return errors.New("chown failed")
	}
	return nil
}

func verifOSRename(from, to string) error {
	c12Step("rename")
	if !c12.sameFS {
		return errors.New("invalid cross-device link")
	}
	if c12Fail("rename") {
		return errors.New("rename failed")
	}
	f, ok := c12.files[from]
	if !ok || f.content == c12Absent {
		return c12ErrNotExist
	}
	// atomic replacement: content and mode of the source
	c12.files[to] = &c12File{content: f.content, mode: f.mode}
	f.content = c12Absent
	return nil
}

func verifOSRemove(name string) error {
	c12Step("remove")
	if c12Fail("remove") {
		return errors.New("remove failed")
	}
	if f, ok := c12.files[name]; ok {
		f.content = c12Absent
	}
	return nil
}

func verifOSOpen(name string) (*os.File, error) {
	c12Step("open")
	if c12Fail("open") {
		return nil, errors.New("open failed")
	}
	f, ok := c12.files[name]
	if !ok || f.content == c12Absent {
		return nil, c12ErrNotExist
	}
	h := new(os.File)
	c12.handles[h] = name
	return h, nil
}

func verifOSCreate(name string) (*os.File, error) {
	c12Step("create")
	if c12Fail("create") {
		return nil, errors.New("create failed")
	}
	if name == "t.yml" {
		c12.fallback = true
	}
	f, ok := c12.files[name]
	if !ok || f.content == c12Absent {
		c12.files[name] = &c12File{content: c12Empty, mode: 0o644}
	} else {
		f.content = c12Empty // O_TRUNC takes effect immediately; the mode of an existing file is kept
	}
	h := new(os.File)
	c12.handles[h] = name
	return h, nil
}

// verifOSOpenFile: the general open. Without O_TRUNC an existing file keeps its bytes: whatever is then written
// over it from offset 0 leaves the tail of the old content in place when the new content is shorter.
func verifOSOpenFile(name string, flag int, perm fs.FileMode) (*os.File, error) {
	if flag&(os.O_WRONLY|os.O_RDWR) == 0 {
		return verifOSOpen(name)
	}
	if flag&os.O_TRUNC != 0 && flag&os.O_CREATE != 0 {
		return verifOSCreate(name)
	}
	c12Step("openfile")
	if c12Fail("openfile") {
		return nil, errors.New("open failed")
	}
	if name == "t.yml" {
		c12.fallback = true
	}
	f, ok := c12.files[name]
	exists := ok && f.content != c12Absent
	if !exists {
		if flag&os.O_CREATE == 0 {
			return nil, c12ErrNotExist
		}
		c12.files[name] = &c12File{content: c12Empty, mode: uint32(perm)}
		f = c12.files[name]
	} else if flag&os.O_EXCL != 0 && flag&os.O_CREATE != 0 {
		return nil, errors.New("file exists")
	} else if flag&os.O_TRUNC != 0 {
		f.content = c12Empty
	}
	h := new(os.File)
	c12.handles[h] = name
	if flag&os.O_TRUNC == 0 && flag&os.O_APPEND == 0 {
		c12.noTrunc[h] = verifItoa(int64(f.content))
	}
	if flag&os.O_APPEND != 0 && f.content != c12Empty {
		c12.noTrunc[h] = "append"
	}
	return h, nil
}

func verifIOCopy(dst io.Writer, src io.Reader) (int64, error) {
	d := c12.files[c12.handles[dst.(*os.File)]]
	s := c12.files[c12.handles[src.(*os.File)]]
	c12Step("copy-begin")
	if s.content != c12Empty {
		d.content = c12Partial
	}
	if c12Fail("copy") {
		return 0, errors.New("copy failed midway")
	}
	c12Step("copy-end")
	d.content = s.content
	if was, ok := c12.noTrunc[dst.(*os.File)]; ok && was != verifItoa(c12Empty) {
		// written over (or after) existing bytes that were never truncated away
		if was == "append" || verifConcreteBool(verifBool("newContentShorterThanOld")) {
			d.content = c12Partial
		}
	}
	return 1, nil
}

func verifFileName(f *os.File) string { return c12.handles[f] }

func verifFileSync(f *os.File) error {
	c12Step("sync")
	if c12Fail("sync") {
		return errors.New("sync failed")
	}
	return nil
}

func verifFileClose(f *os.File) error {
	c12Step("close")
	if c12Fail("close") {
		if c12.closeMayLoseData {
			if file, ok := c12.files[c12.handles[f]]; ok && file.content == c12New {
				file.content = c12Partial // write-behind data lost (POSIX leaves the state after a failed close unspecified)
			}
		}
		return errors.New("close failed")
	}
	return nil
}

// c12Write: the printer writing the results into the temp file (a model of bufio.Writer.Flush → File.Write).
func c12Write(f *os.File, ok bool) {
	file := c12.files[c12.handles[f]]
	c12Step("write-begin")
	file.content = c12Partial
	if !ok {
		return
	}
	c12Step("write-end")
	file.content = c12New
}

func VerifC12InPlace() {
	c12 = &c12State{files: map[string]*c12File{}, handles: map[*os.File]string{}, noTrunc: map[*os.File]string{}, symlink: map[string]bool{}}
	// the file operand may be a symbolic link: its permission bits are those of what it points to
	c12.symlink["t.yml"] = verifConcreteBool(verifBool("targetIsSymlink"))
	c12.oldMode = uint32(verifIntRange("mode", 0, 0o777))
	c12.files["t.yml"] = &c12File{content: c12Old, mode: c12.oldMode}
	c12.crashAt = verifChoice("crashBeforeStep", verifParam("maxsteps", 18)+1) // 0 = no crash
	c12.sameFS = verifConcreteBool(verifBool("tempDirOnSameFileSystem"))
	c12.closeMayLoseData = verifConcreteBool(verifBool("failedCloseLosesData"))
	evalOK := verifConcreteBool(verifBool("evaluationSucceeds"))
	writeOK := verifConcreteBool(verifBool("writeToTempSucceeds"))

	crashed := false
	exitErr := false
	func() {
		defer func() {
			if r := recover(); r != nil {
				if _, ok := r.(c12Crash); ok {
					crashed = true
					return
				}
				panic(r)
			}
		}()
		// the glue of cmd.evaluateSequence / evaluateAll, read as written:
		//   out, err = handler.CreateTempFile(); if err != nil { return err }
		//   defer func() { if cmdError == nil { cmdError = handler.FinishWriteInPlace(completedSuccessfully) } }()
		//   ... evaluate and print into out ...; completedSuccessfully = err == nil; return err
		h := NewWriteInPlaceHandler("t.yml")
		f, err := h.CreateTempFile()
		if err != nil {
			exitErr = true
			return
		}
		completed := false
		if evalOK {
			c12Write(f, writeOK)
			completed = writeOK
		}
		if !completed {
			exitErr = true // evaluation error is returned; the deferred finish does not run
			return
		}
		if err := h.FinishWriteInPlace(true); err != nil {
			exitErr = true
		}
	}()
	t := c12.files["t.yml"]
	where := "via=rename"
	if c12.fallback {
		where = "via=copy-fallback"
	}
	verifObserve("ops", c12.ops)
	verifObserve("target", t.content)
	if crashed {
		verifCover("C12/crashed")
		verifAssert(t.content == c12Old || t.content == c12New, "C12/kill-leaves-truncated-or-partial-target "+where+" before="+c12.lastOp)
		return
	}
	if c12.crashAt != 0 {
		return // the crash point lies beyond the end of this run
	}
	lossy := ""
	if c12.closeMayLoseData {
		lossy = " (failed close may lose data)"
	}
	if exitErr {
		verifCover("C12/exit-error")
		verifAssert(t.content == c12Old && t.mode == c12.oldMode, "C12/error-exit-but-target-changed "+where+" after="+c12.lastOp+lossy)
	} else {
		verifCover("C12/exit-ok")
		verifAssert(t.content == c12New, "C12/success-exit-but-target-not-complete-new "+where+lossy)
		verifAssert(t.mode == c12.oldMode, "C12/permission-bits-changed "+where)
	}
	verifCover("C12/end")
}

// ---- --front-matter: the split of the input file and the appendix of the printer ----

// verifFMReader: the bytes of an opened file (front_matter.go wraps the *os.File in a bufio.Reader)
// verifFileStat models (*os.File).Stat: the size is the length of the file's text, the mode the recorded one.
func verifFileStat(f *os.File) (fs.FileInfo, error) {
	name := c12.handles[f]
	if t, ok := c12.text[name]; ok {
		return c12SizedInfo{c12Info{mode: 0o644}, int64(len(t))}, nil
	}
	return c12Info{mode: 0o644}, nil
}

type c12SizedInfo struct {
	c12Info
	size int64
}

func (i c12SizedInfo) Size() int64 { return i.size }

func verifFMReader(f *os.File) io.Reader { return strings.NewReader(c12.text[c12.handles[f]]) }

func verifFileWriteString(f *os.File, s string) (int, error) {
	c12Step("writestring")
	name := c12.handles[f]
	c12.text[name] = c12.text[name] + s
	return len(s), nil
}

// VerifC12FrontMatter: for every file text, Split() divides it into the YAML front matter (written to the temporary
// file) and the rest (left in the content reader) without losing, duplicating or reordering a byte; the rest is
// empty or starts at a `---` line; and the printer appends exactly that rest after the results.
func VerifC12FrontMatter() {
	c12 = &c12State{files: map[string]*c12File{}, handles: map[*os.File]string{}, noTrunc: map[*os.File]string{}, symlink: map[string]bool{}, text: map[string]string{}, noFaults: true, sameFS: true}
	text := verifStr("text", verifParam("fmlen", 6), "\n~")
	c12.files["t.md"] = &c12File{content: c12Old, mode: 0o644}
	c12.text["t.md"] = text
	h := NewFrontMatterHandler("t.md")
	err := h.Split()
	verifAssert(err == nil, "C12/front-matter-split-error")
	if err != nil {
		return
	}
	front := c12.text[h.GetYamlFrontMatterFilename()]
	// what --front-matter=process does next: the results are printed, then the content reader is appended
	var sb strings.Builder
	var events []string
	printer := NewPrinter(&c10Encoder{events: &events}, NewSinglePrinterWriter(bufio.NewWriter(c17Writer{&sb})))
	printer.SetAppendix(h.GetContentReader())
	doc := vDoc(vMap(vStr("k"), vStr("v")))
	results := doc.AsList()
	if verifChoice("expressionYieldsNothing", 2) == 1 {
		results = list.New() // e.g. `select(.nope)`: no result is printed, the text after the front matter still is
	}
	perr := printer.PrintResults(results)
	verifAssert(perr == nil, "C12/front-matter-print-error")
	if perr != nil {
		return
	}
	rest := sb.String()
	verifObserve("front", front)
	verifObserve("rest", rest)
	verifAssert(verifEqStr(front+rest, text), "C12/front-matter-split-loses-or-duplicates-bytes")
	// the rest is nothing, or begins with the `---` that closes the front matter - however short it is (a file that is
	// YAML to its last byte has no rest: a last line of one or two bytes belongs to the front matter)
	if len(rest) > 0 {
		verifAssert(len(rest) >= 3 && verifConcreteBool(rest[0] == '-' && rest[1] == '-' && rest[2] == '-'), "C12/front-matter-rest-does-not-start-at-a-separator")
	}
	verifCover("C12/frontmatter/end")
}

// VerifC12FrontMatterLong: files longer than the buffers the handler reads through (bufio's 4096 bytes): front matter
// and the text after it, each possibly long, come back byte for byte.
func VerifC12FrontMatterLong() {
	c12 = &c12State{files: map[string]*c12File{}, handles: map[*os.File]string{}, noTrunc: map[*os.File]string{}, symlink: map[string]bool{}, text: map[string]string{}, noFaults: true, sameFS: true}
	lens := []int{0, 1, 4085, 4086, 4087, 4096, 4097, 8200, 12300}
	frontLen := lens[verifChoice("frontLen", 4)]
	restLen := lens[verifChoice("restLen", len(lens))]
	c := verifStrN("c", 1, "az")
	front := "---\nk: " + c + strings.Repeat("v", frontLen) + "\n"
	rest := "---\n" + c + strings.Repeat("t", restLen) + verifPick("end", "", "\n")
	text := front + rest
	c12.files["t.md"] = &c12File{content: c12Old, mode: 0o644}
	c12.text["t.md"] = text
	h := NewFrontMatterHandler("t.md")
	err := h.Split()
	verifAssert(err == nil, "C12/front-matter-split-error long")
	if err != nil {
		return
	}
	gotFront := c12.text[h.GetYamlFrontMatterFilename()]
	var sb strings.Builder
	var events []string
	printer := NewPrinter(&c10Encoder{events: &events}, NewSinglePrinterWriter(bufio.NewWriter(c17Writer{&sb})))
	printer.SetAppendix(h.GetContentReader())
	perr := printer.PrintResults(vDoc(vMap(vStr("k"), vStr("v"))).AsList())
	verifAssert(perr == nil, "C12/front-matter-print-error long")
	if perr != nil {
		return
	}
	verifAssert(verifEqStr(gotFront, front), "C12/front-matter-differs long")
	verifAssert(verifEqStr(sb.String(), rest), "C12/text-after-front-matter-not-preserved long")
	verifCover("C12/frontmatter-long/end")
}


// c12FaultyFile: the temporary file of an in-place run as the printer sees it: it takes `room` bytes and then fails
// (disk full, quota, I/O error).
type c12FaultyFile struct {
	room    int
	written *int
}

func (f c12FaultyFile) Write(p []byte) (int, error) {
	if *f.written+len(p) > f.room {
		n := f.room - *f.written
		if n < 0 {
			n = 0
		}
		*f.written += n
		return n, errors.New("write: no space left on device")
	}
	*f.written += len(p)
	return len(p), nil
}

// VerifC12PrinterReportsWriteFaults: writing the results to the temporary file goes through the printer and its
// buffered writer. When the file takes fewer bytes than the results have - none at all, all but the last, anything in
// between - PrintResults must return an error (then -i leaves the original alone): the fault may only show up in the
// final flush, for results smaller than the buffer. 1-3 documents, YAML / props / csv / xml output.
func VerifC12PrinterReportsWriteFaults() {
	n := 1 + verifChoice("documents", 3)
	format := []string{"yaml", "props", "csv", "xml", "json-stub"}[verifChoice("format", 4)]
	mkPrinter := func(w io.Writer) Printer {
		f, err := FormatFromString(format)
		if err != nil {
			verifFail("C12/format-lookup")
		}
		return NewPrinter(f.EncoderFactory(), NewSinglePrinterWriter(w))
	}
	docs := func() []*CandidateNode {
		var out []*CandidateNode
		for i := 0; i < n; i++ {
			var d *CandidateNode
			if format == "csv" {
				d = vDocAt(vSeq(vSeq(vStr("a"), vInt(verifItoa(int64(i))))), uint(i), 0, "f.yml")
			} else {
				d = vDocAt(vMap(vStr("a"), vInt(verifItoa(int64(i))), vStr("b"), vStr("text")), uint(i), 0, "f.yml")
			}
			out = append(out, d)
		}
		return out
	}
	// how many bytes the results have
	total := 0
	okWriter := c12FaultyFile{room: 1 << 30, written: &total}
	p := mkPrinter(okWriter)
	for _, d := range docs() {
		if err := p.PrintResults(d.AsList()); err != nil {
			verifFail("C12/print-error-without-a-fault")
		}
	}
	if total == 0 {
		verifFail("C12/nothing-printed")
	}
	room := 0
	switch verifChoice("room", 3) {
	case 1:
		room = total - 1
	case 2:
		room = total / 2
	}
	written := 0
	p = mkPrinter(c12FaultyFile{room: room, written: &written})
	var firstErr error
	for _, d := range docs() {
		if err := p.PrintResults(d.AsList()); err != nil && firstErr == nil {
			firstErr = err
		}
	}
	verifAssert(firstErr != nil, "C12/write-fault-on-the-temporary-file-not-reported format="+format)
	verifCover("C12/write-faults/end")
}
