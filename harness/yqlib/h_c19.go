package yqlib

import (
	"bufio"
	"bytes"
	"errors"
	"io"
	"strings"

	yaml "gopkg.in/yaml.v3"
)

// C19 — exit status and output tell the truth about what happened (library layer).

type c19Writer struct {
	fail   bool
	writes *int
	bytes  *int
	text   *strings.Builder // when set, what was written
}

func (w c19Writer) Write(p []byte) (int, error) {
	*w.writes = *w.writes + 1
	if w.fail {
		return 0, errors.New("write failed")
	}
	*w.bytes = *w.bytes + len(p)
	if w.text != nil {
		w.text.Write(p)
	}
	return len(p), nil
}

// c19Scalar: a scalar whose tag and spelling are solver variables.
func c19Scalar(name string) (*yaml.Node, bool) {
	switch verifChoice(name+"_kind", 4) {
	case 0:
		return vS("!!null", verifPick(name+"_null", "null", "~", "")), false
	case 1:
		s := verifPick(name+"_bool", "true", "false", "True", "False", "TRUE", "FALSE")
		isFalse := verifOr(verifEqStr(s, "false"), verifOr(verifEqStr(s, "False"), verifEqStr(s, "FALSE")))
		return vS("!!bool", s), verifConcreteBool(!isFalse)
	case 2:
		return vS("!!int", verifPick(name+"_int", "0", "1", "-1")), true
	default:
		return vS("!!str", verifPick(name+"_str", "", "false", "null", "x")), true
	}
}

// VerifC19PrintedAnything: PrintedAnything() (which -e turns into the exit status) is true exactly when some
// printed result is neither null nor false.
func VerifC19PrintedAnything() {
	n := verifChoice("results", 3)
	l := vSeq()
	anyTruthy := false
	for i := 0; i < n; i++ {
		nd, truthy := c19Scalar("r" + verifItoa(int64(i)))
		l.Content = append(l.Content, nd)
		anyTruthy = anyTruthy || truthy
	}
	doc := vDoc(l)
	var events []string
	w, b := 0, 0
	printer := NewPrinter(&c10Encoder{events: &events}, NewSinglePrinterWriter(c19Writer{writes: &w, bytes: &b}))
	res, err := vEval(vParse(".[]"), doc)
	if err != nil {
		verifFail("C19/eval")
	}
	err = printer.PrintResults(res)
	verifAssert(err == nil, "C19/print-error")
	verifAssert(printer.PrintedAnything() == anyTruthy, "C19/printed-anything-wrong")
	verifCover("C19/printed/end")
}

var c19Formats = []string{"csv", "tsv", "toml", "base64", "uri", "shell", "lua"}

// c19Tree: a bounded tree for the encoders; returns the node and a shape code.
//   0 scalar(str) 1 scalar(int) 2 [s,s] 3 [[s],[s]] 4 [{k:s},{k:s}] 5 [{k:[s]}] 6 {k:s} 7 [] 8 [[s],{k:s}] 9 [{k:s},[s]] 10 [s,[s]]
//   11 [{[a]:s}] 12 [{k:{n:s}}] 13 [[s,[s]]] 14 [{k:s},{k:[s]}]
func c19Tree(shape int) *yaml.Node {
	s := func() *yaml.Node { return vStr("v") }
	switch shape {
	case 0:
		return vStr("hello")
	case 1:
		return vInt("7")
	case 2:
		return vSeq(s(), s())
	case 3:
		return vSeq(vSeq(s()), vSeq(s()))
	case 4:
		return vSeq(vMap(vStr("k"), s()), vMap(vStr("k"), s()))
	case 5:
		return vSeq(vMap(vStr("k"), vSeq(s())))
	case 6:
		return vMap(vStr("k"), s())
	case 7:
		return vSeq()
	case 8:
		return vSeq(vSeq(s()), vMap(vStr("k"), s()))
	case 9:
		return vSeq(vMap(vStr("k"), s()), vSeq(s()))
	case 10:
		return vSeq(s(), vSeq(s()))
	case 11: // [{[a]: s}] — an object whose key is no scalar
		return vSeq(vMap(vSeq(vStr("a")), s()))
	case 12: // [{k: {n: s}}] — an object that is not flat
		return vSeq(vMap(vStr("k"), vMap(vStr("n"), s())))
	case 13: // [[s, [s]]] — a row with a nested array
		return vSeq(vSeq(s(), vSeq(s())))
	default: // [{k: s}, {k: [s]}] — the second object is not flat
		return vSeq(vMap(vStr("k"), s()), vMap(vStr("k"), vSeq(s())))
	}
}

// c19Representable: can the format represent the shape (per the format's documentation in yq)?
func c19Representable(format string, shape int) bool {
	switch format {
	case "csv", "tsv":
		// scalars, arrays of scalars, arrays of arrays of scalars, arrays of flat objects
		return shape == 0 || shape == 1 || shape == 2 || shape == 3 || shape == 4 || shape == 7
	case "toml":
		return shape == 0 || shape == 1
	case "base64", "uri":
		return shape == 0
	}
	return true
}

// VerifC19Encoders: through the real printer, an output format reports an error exactly when it cannot
// represent the result or the underlying writer fails; it never returns success after dropping output.
func VerifC19Encoders() {
	fi := verifChoice("format", len(c19Formats))
	format := c19Formats[fi]
	shape := verifChoice("shape", 15)
	writerFails := verifConcreteBool(verifBool("writerFails"))
	f, err := FormatFromString(format)
	if err != nil {
		verifFail("C19/format-lookup")
	}
	enc := f.EncoderFactory()
	w, b := 0, 0
	printer := NewPrinter(enc, NewSinglePrinterWriter(c19Writer{fail: writerFails, writes: &w, bytes: &b}))
	doc := vDoc(c19Tree(shape))
	errP := printer.PrintResults(doc.AsList())
	label := "format=" + format + " shape=" + verifItoa(int64(shape))
	rep := c19Representable(format, shape)
	expectOutput := shape != 7 // an empty sequence may legitimately print nothing in csv
	if errP == nil {
		verifCover("C19/encoders/ok")
		verifAssert(rep, "C19/unrepresentable-result-reported-as-success "+label)
		if expectOutput || format == "lua" || format == "shell" {
			if !(shape == 7 && format == "shell") {
				verifAssert(!writerFails, "C19/writer-failure-reported-as-success "+label)
			}
		}
		if rep && !writerFails && expectOutput {
			verifAssert(b > 0, "C19/success-with-empty-output "+label)
		}
	} else {
		verifCover("C19/encoders/error")
		verifAssert(!rep || writerFails, "C19/representable-result-fails "+label)
	}
	verifCover("C19/encoders/end")
}

var c19Files = []string{"a.yml", "a.yaml", "dir.d/a.json", "a.xml", "a.toml", "a.csv", "a.tsv", "a.properties", "a.lua", "A.JSON", "a.b.json", "noext", "", "-", "a.", ".hidden", "a.unknown", "a.y", "a.j"}
var c19Expect = []string{"yaml", "yaml", "json", "xml", "toml", "csv", "tsv", "props", "lua", "json", "json", "yaml", "yaml", "yaml", "yaml?", "?", "unknown", "yaml", "json"}

// VerifC19FormatFromFilename: the format chosen automatically is the one named by the file's extension.
func VerifC19FormatFromFilename() {
	i := verifChoice("file", len(c19Files))
	name := FormatStringFromFilename(c19Files[i])
	f, err := FormatFromString(name)
	want := c19Expect[i]
	switch want {
	case "unknown":
		verifAssert(err != nil, "C19/unknown-extension-accepted "+c19Files[i])
	case "?", "yaml?":
		// corner spellings: either an error (caller falls back to yaml) or yaml
		verifAssert(err != nil || f == YamlFormat, "C19/odd-filename-picks-other-format "+c19Files[i])
	default:
		verifAssert(err == nil && f != nil && f.FormalName == want, "C19/extension-picks-wrong-format "+c19Files[i])
	}
	verifCover("C19/format/end")
}

var _ io.Writer = c19Writer{}

// VerifC19NulSeparated: with -0 (NUL separated output) every format that reports success has written the value
// followed by one NUL — also the formats whose encoders buffer their output (csv, tsv, xml).
func VerifC19NulSeparated() {
	formats := []string{"csv", "tsv", "xml", "shell", "lua", "uri", "props"}
	fi := verifChoice("format", len(formats))
	f, err := FormatFromString(formats[fi])
	if err != nil {
		verifFail("C19/format-lookup")
	}
	x := verifStrN("x", 1, "az")
	marker := "v" + x + "w"
	var n *yaml.Node
	switch formats[fi] {
	case "csv", "tsv":
		n = vSeq(vStr(marker), vStr("z"))
	case "uri":
		n = vStr(marker)
	default:
		n = vMap(vStr("k"), vStr(marker))
	}
	var text strings.Builder
	w, b := 0, 0
	printer := NewPrinter(f.EncoderFactory(), NewSinglePrinterWriter(c19Writer{writes: &w, bytes: &b, text: &text}))
	printer.SetNulSepOutput(true)
	errP := printer.PrintResults(vDoc(n).AsList())
	label := "format=" + formats[fi]
	if errP != nil {
		verifCover("C19/nul/error")
		return
	}
	out := text.String()
	verifObserve("out", out)
	verifAssert(strings.Contains(out, marker), "C19/nul-separated-output-lost-the-value "+label)
	verifAssert(len(out) > 0 && out[len(out)-1] == 0, "C19/nul-separated-output-not-terminated-by-NUL "+label)
	verifCover("C19/nul/end")
}

// VerifC19NulExact: `yq -0 .a` (unwrapped scalars, NUL separated) writes each string result byte for byte followed
// by one NUL — whatever the value ends in (a carriage return, a line feed, both); a value that contains a NUL itself
// is an error, not a shortened or split result.
func VerifC19NulExact() {
	v1 := verifStr("v1", verifParam("nullen", 2), "\x00\x7f")
	v2 := verifStr("v2", 1, "\x00\x7f")
	prefs := NewDefaultYamlPreferences()
	prefs.UnwrapScalar = true
	var text strings.Builder
	w, b := 0, 0
	printer := NewPrinter(NewYamlEncoder(prefs), NewSinglePrinterWriter(c19Writer{writes: &w, bytes: &b, text: &text}))
	printer.SetNulSepOutput(true)
	res, err := vEval(vParse(".[]"), vDoc(vSeq(vStr(v1), vStr(v2))))
	if err != nil {
		verifFail("C19/eval")
	}
	errP := printer.PrintResults(res)
	hasNul := strings.IndexByte(v1, 0) >= 0 || strings.IndexByte(v2, 0) >= 0
	if errP != nil {
		verifAssert(hasNul, "C19/nul-separated-output-fails-on-a-value-without-NUL")
		verifCover("C19/nulexact/error")
		return
	}
	verifAssert(!hasNul, "C19/nul-separated-output-accepts-a-value-with-NUL")
	verifAssert(verifEqStr(text.String(), v1+"\x00"+v2+"\x00"), "C19/nul-separated-output-is-not-the-value-byte-for-byte")
	verifCover("C19/nulexact/end")
}

// VerifC19ExitStatusAlias: -e looks through aliases: a result that is an alias of false or null is no match.
func VerifC19ExitStatusAlias() {
	target, truthy := c19Scalar("t")
	target.Anchor = "x"
	doc := vDoc(vMap(vStr("t"), target, vStr("r"), &yaml.Node{Kind: yaml.AliasNode, Value: "x", Alias: target}))
	var events []string
	w, b := 0, 0
	printer := NewPrinter(&c10Encoder{events: &events}, NewSinglePrinterWriter(c19Writer{writes: &w, bytes: &b}))
	res, err := vEval(vParse(".r"), doc)
	if err != nil || res.Len() != 1 {
		verifFail("C19/eval")
	}
	verifAssert(printer.PrintResults(res) == nil, "C19/print-error")
	verifAssert(printer.PrintedAnything() == truthy, "C19/exit-status-ignores-what-an-alias-stands-for")
	verifCover("C19/alias/end")
}

// VerifC19EveryFileEvaluated: a successful run (no error) over several YAML files has evaluated and printed every
// document of every file: the number of documents the evaluator reports, and the number of results the printer was
// handed for `.`, equal the sums of what each file gives on its own — a file that holds only comments, a separator
// or nothing included. One decoder serves all files, as in the command.
func VerifC19EveryFileEvaluated() {
	nfiles := 2 + verifChoice("files", 2)
	var picks []int
	for i := 0; i < nfiles; i++ {
		picks = append(picks, verifChoice("file"+verifItoa(int64(i)), len(c10Texts)))
	}
	run := func(texts []string) (docs uint, printed int, ok bool) {
		var events []string
		var out bytes.Buffer
		printer := NewPrinter(&c10Encoder{events: &events}, NewSinglePrinterWriter(&out))
		ev := NewStreamEvaluator()
		dec := NewYamlDecoder(NewDefaultYamlPreferences())
		exp := vParse(".")
		for i, t := range texts {
			n, err := ev.Evaluate("f"+verifItoa(int64(i))+".yml", strings.NewReader(t), exp, printer, dec)
			if err != nil {
				return 0, 0, false
			}
			docs += n
		}
		for _, e := range events {
			if strings.HasPrefix(e, "NODE ") {
				printed++
			}
		}
		return docs, printed, true
	}
	var texts []string
	wantDocs, wantPrinted := uint(0), 0
	allOK := true
	for _, p := range picks {
		texts = append(texts, c10Texts[p])
		d, pr, ok := run([]string{c10Texts[p]})
		allOK = allOK && ok
		wantDocs += d
		wantPrinted += pr
	}
	docs, printed, ok := run(texts)
	verifAssert(ok == allOK, "C19/success-of-a-run-depends-on-the-neighbour-files")
	if !ok || !allOK {
		verifCover("C19/everyfile/error")
		return
	}
	verifAssert(docs == wantDocs, "C19/exit-0-although-a-document-was-not-evaluated")
	verifAssert(printed == wantPrinted, "C19/exit-0-although-a-result-was-not-printed")
	verifCover("C19/everyfile/end")
}

// VerifC19StreamFailures: a stream of 2-3 documents through the real stream evaluator with an expression that fails
// for some documents and not for others - among the failures those whose error value is io.EOF itself (from_yaml and
// friends on an empty string hand the inner decoder's end-of-input through): success exactly when every document
// evaluates on its own, and then every document's results are printed.
func VerifC19StreamFailures() {
	docs := []string{"a: \"x: 1\"\n", "a: \"\"\n", "a: \"[\"\n", "a: 5\n", "a: \" \"\n", "b: 1\n"}
	exprs := []string{".a | from_yaml", ".a | @base64d", ".a | test(\"[\")", ".a | from_csv", ".a | to_number", ".a | from_yaml | .x", ".a |= from_yaml", ".a | @urid", ".a | from_tsv"}
	expr := exprs[verifChoice("expr", len(exprs))]
	n := 2 + verifChoice("documents", 2)
	run := func(text string) (printed int, ok bool) {
		var events []string
		var out bytes.Buffer
		printer := NewPrinter(&c10Encoder{events: &events}, NewSinglePrinterWriter(&out))
		ev := NewStreamEvaluator()
		if _, err := ev.Evaluate("f.yml", strings.NewReader(text), vParse(expr), printer, NewYamlDecoder(NewDefaultYamlPreferences())); err != nil {
			return 0, false
		}
		for _, e := range events {
			if strings.HasPrefix(e, "NODE ") {
				printed++
			}
		}
		return printed, true
	}
	text := ""
	allOK := true
	want := 0
	for i := 0; i < n; i++ {
		d := docs[verifChoice("doc"+verifItoa(int64(i)), len(docs))]
		if i > 0 {
			text += "---\n"
		}
		text += d
		p, ok := run(d)
		allOK = allOK && ok
		want += p
	}
	verifObserve("text", text)
	got, ok := run(text)
	label := " expr=" + expr
	verifAssert(ok == allOK, "C19/stream-succeeds-although-a-document-failed (or fails although none did)"+label)
	if !ok || !allOK {
		verifCover("C19/stream-failures/error")
		return
	}
	verifAssert(got == want, "C19/exit-0-although-a-result-was-not-printed"+label)
	verifCover("C19/stream-failures/end")
}

// c19FailingReader delivers its text and then fails (a directory given as a file, a disk error, a closed pipe).
type c19FailingReader struct {
	data string
	pos  int
}

func (r *c19FailingReader) Read(p []byte) (int, error) {
	if r.pos < len(r.data) && len(p) > 0 {
		n := copy(p, r.data[r.pos:])
		r.pos += n
		return n, nil
	}
	return 0, errors.New("read: input/output error")
}

// VerifC19ReadErrors: an input that cannot be read to its end is a failure for every decoder the engine executes
// (yaml, json over the reader stub, csv, tsv, xml, uri, base64): reading documents until the decoder stops ends with
// an error that is NOT the clean end of input - whether the failure comes at once, after a complete document or in
// the middle of one.
func VerifC19ReadErrors() {
	type fm struct {
		name   string
		texts  []string
		make   func() Decoder
	}
	verifXMLReal = true
	fms := []fm{
		{"yaml", []string{"", "a: 1\n", "a: [1,"}, func() Decoder { return NewYamlDecoder(NewDefaultYamlPreferences()) }},
		{"json", []string{"", "{\"a\":1}", "{\"a\":"}, func() Decoder { return NewJSONDecoder() }},
		{"csv", []string{"", "a,b\n1,2\n", "a,b\n1,"}, func() Decoder { return NewCSVObjectDecoder(ConfiguredCsvPreferences) }},
		{"tsv", []string{"", "a\tb\n1\t2\n"}, func() Decoder { return NewCSVObjectDecoder(ConfiguredTsvPreferences) }},
		{"xml", []string{"", "<a>1</a>", "<a>1"}, func() Decoder { return NewXMLDecoder(NewDefaultXmlPreferences()) }},
		{"uri", []string{"", "x%20y"}, func() Decoder { return NewUriDecoder() }},
		{"base64", []string{"", "YQ==", "YQ"}, func() Decoder { return NewBase64Decoder() }},
	}
	f := fms[verifChoice("format", len(fms))]
	text := f.texts[verifChoice("text", 3)%len(f.texts)]
	dec := f.make()
	label := " format=" + f.name
	if err := dec.Init(&c19FailingReader{data: text}); err != nil {
		verifAssert(!errors.Is(err, io.EOF), "C19/failed-read-reported-as-end-of-input"+label)
		verifCover("C19/read-errors/end")
		return
	}
	var last error
	for i := 0; i < 4 && last == nil; i++ {
		_, last = dec.Decode()
	}
	verifAssert(last != nil, "C19/decoder-delivers-documents-without-end-from-a-failing-input"+label)
	if last != nil {
		verifAssert(!errors.Is(last, io.EOF), "C19/failed-read-reported-as-end-of-input"+label)
	}
	verifCover("C19/read-errors/end")
}

// files written through --split-exp (printer_writer.go is loaded with os.MkdirAll( and os.Create( redirected here)
type c19SplitFile struct {
	name string
	data *[]byte
}

func (f c19SplitFile) Write(p []byte) (int, error) {
	*f.data = append(*f.data, p...)
	return len(p), nil
}

var c19SplitFiles []c19SplitFile

func verifSplitMkdirAll(_ string, _ uint32) error { return nil }
func verifSplitCreate(name string) (c19SplitFile, error) {
	for _, old := range c19SplitFiles {
		if old.name == name {
			*old.data = nil // as os.Create: an existing file is emptied
			return old, nil
		}
	}
	f := c19SplitFile{name: name, data: new([]byte)}
	c19SplitFiles = append(c19SplitFiles, f)
	return f, nil
}

// VerifC19SplitFiles: results split into files (--split-exp, one file per result): when the run reports success, the
// files together hold exactly the bytes the same results give on one output - for every output format, small and
// beyond-one-buffer results (an encoder that buffers privately and a writer that is flushed elsewhere lose the tail).
func VerifC19SplitFiles() {
	format := []string{"yaml", "props", "csv", "tsv", "xml", "shell", "lua"}[verifChoice("format", 7)]
	big := verifChoice("size", 2) == 1
	n := 1 + verifChoice("results", 2)
	mk := func(i int) *CandidateNode {
		val := "v" + verifItoa(int64(i))
		if big {
			val = strings.Repeat("0123456789abcdef", 300) + val // 4800 bytes: more than one 4096-byte buffer
		}
		if format == "csv" || format == "tsv" {
			return vDocAt(vSeq(vSeq(vStr("a"), vStr(val))), uint(i), 0, "f.yml")
		}
		return vDocAt(vMap(vStr("a"), vStr(val)), uint(i), 0, "f.yml")
	}
	f, err := FormatFromString(format)
	if err != nil {
		verifFail("C19/format-lookup")
	}
	// one output
	var sb strings.Builder
	single := NewPrinter(f.EncoderFactory(), NewSinglePrinterWriter(bufio.NewWriter(c17Writer{&sb})))
	for i := 0; i < n; i++ {
		if err := single.PrintResults(mk(i).AsList()); err != nil {
			verifFail("C19/single-output-failed")
		}
	}
	// split
	c19SplitFiles = nil
	InitExpressionParser()
	// the name expression gives every result a file of its own, or the same file to all of them
	nameExp := []string{"$index", "\"out\"", ".a | length"}[verifChoice("name", 3)]
	split := NewPrinter(f.EncoderFactory(), NewMultiPrinterWriter(vParse(nameExp), f))
	for i := 0; i < n; i++ {
		if err := split.PrintResults(mk(i).AsList()); err != nil {
			verifCover("C19/split/error")
			return
		}
	}
	total := 0
	for _, sf := range c19SplitFiles {
		total += len(*sf.data)
	}
	if nameExp == "$index" {
		verifAssert(len(c19SplitFiles) == n, "C19/split-file-count format="+format)
	}
	want := len(sb.String())
	verifObserve("bytes", int64(total))
	verifAssert(total == want, "C19/exit-0-although-split-files-miss-bytes format="+format)
	verifCover("C19/split/end")
}
