package yqlib

import (
	"bufio"
	"strings"
)

// Harnesses that run yaml.v3's own scanner, parser and node builder (interpreted from their SSA by the engine) on
// text with symbolic bytes, under yq's yamlDecoder.

// VerifC11YAMLBytes: every byte string up to the length bound over a YAML alphabet goes through the real yaml.v3
// scanner/parser and yq's decoder (leading-content pre-processing, node conversion): documents or an error, never a
// crash or a hang.
// yamlAlphabets: the byte sets the YAML harnesses draw their texts from (one per path): block structure with
// comments, anchors and aliases; flow collections and quoting; block scalars, tags, directives and tabs.
var yamlAlphabets = []string{"aa::  --\n\n[[]]##&&**", "aa::  \n\n{{}},,\"\"''", "aa::  \n\n||>>!!%%\t\t??"}

func VerifC11YAMLBytes() {
	text := verifStr("text", verifParam("yamllen", 3), yamlAlphabets[verifChoice("alphabet", len(yamlAlphabets))])
	dec := NewYamlDecoder(NewDefaultYamlPreferences())
	err := dec.Init(strings.NewReader(text))
	docs := 0
	for err == nil && docs < 8 {
		var n *CandidateNode
		n, err = dec.Decode()
		if err == nil {
			_ = vDump(n)
			docs++
		}
	}
	verifAssert(docs < 8, "C11/yaml-decoder-delivers-documents-without-end")
	if docs > 0 {
		verifCover("C11/yamlbytes/document")
	}
	verifCover("C11/yamlbytes/end")
}

// VerifC05IdentityBytes: `yq .` over every YAML text up to the length bound (symbolic bytes over a YAML alphabet),
// through the real yaml.v3 scanner, parser and emitter (all interpreted) and yq's decoder, printer and encoder:
// where the input is accepted, the output is accepted too, holds the same number of documents with the same data,
// and a second pass reproduces the output byte for byte.
func VerifC05IdentityBytes() {
	text := verifStr("text", verifParam("yamllen", 3), yamlAlphabets[verifChoice("alphabet", len(yamlAlphabets))])
	out1, ok1 := c05IdentityStrict(text)
	if !ok1 {
		verifCover("C05/identity-bytes/rejected")
		return
	}
	verifObserve("out1", out1)
	// structural class of the input (decided by the real decoder): the printer writes a document whose root is a
	// scalar "unwrapped" and an input without any document through a path of its own — both are recorded findings
	d1, okd1 := c05Data(text)
	class := " [documents with collection roots]"
	if okd1 && d1 == "" {
		class = " [input without a document]"
	} else if okd1 && verifConcreteBool(strings.Contains(d1, "DOC <")) {
		class = " [a document that is a scalar]"
	} else if okd1 && verifConcreteBool(strings.Contains(d1, "KEY[") || strings.Contains(d1, "KEY{")) {
		class = " [a map key that is a collection]"
	}
	out2, ok2 := c05IdentityStrict(out1)
	verifAssert(ok2, "C05/output-of-the-identity-is-not-accepted-again"+class)
	if !ok2 {
		return
	}
	verifObserve("out2", out2)
	verifAssert(verifEqStr(out2, out1), "C05/identity-not-idempotent-on-its-own-output"+class)
	// same documents, same data
	d2, okd2 := c05Data(out1)
	verifAssert(okd1 && okd2 && verifEqStr(d1, d2), "C05/identity-changed-the-data"+class)
	verifCover("C05/identity-bytes/end")
}

// c05IdentityStrict: what `yq .` prints for the text; ok=false when the text is rejected (by the decoder at any
// document, or by the printer).
func c05IdentityStrict(text string) (string, bool) {
	prefs := NewDefaultYamlPreferences()
	var sb strings.Builder
	printer := NewPrinter(NewYamlEncoder(prefs), NewSinglePrinterWriter(bufio.NewWriter(c17Writer{&sb})))
	// the loop the command runs: one evaluator, one decoder, the identity expression
	ev := NewStreamEvaluator()
	docs, err := ev.Evaluate("f.yml", strings.NewReader(text), vParse("."), printer, NewYamlDecoder(prefs))
	if err != nil {
		return "", false
	}
	if docs == 0 {
		// as EvaluateFiles does for input without any document: the expression is evaluated on nothing
		if err := ev.EvaluateNew(".", printer); err != nil {
			return "", false
		}
	}
	return sb.String(), true
}

// c05Data: the data model value of every document of a YAML stream (kinds, resolved tags, values, key order).
func c05Data(text string) (string, bool) {
	dec := NewYamlDecoder(NewDefaultYamlPreferences())
	if err := dec.Init(strings.NewReader(text)); err != nil {
		return "", false
	}
	out := ""
	for i := 0; i < 8; i++ {
		n, err := dec.Decode()
		if err != nil {
			if err.Error() == "EOF" {
				return out, true
			}
			return "", false
		}
		out += "DOC " + c05DataDump(n) + "\n"
	}
	return "", false
}

// c05DataDump: the data model value of a node: kinds, resolved tags, scalar values, order. Every spelling of null is
// the same value; at the root "written as nothing" is kept apart because the printer treats it differently.
func c05DataDump(n *CandidateNode) string {
	if n.Kind == ScalarNode && n.Tag == "!!null" {
		return "<!!null>"
	}
	switch n.Kind {
	case SequenceNode:
		s := "["
		if n.Tag != "!!seq" {
			s = n.Tag + " ["
		}
		for i, c := range n.Content {
			if i > 0 {
				s += ", "
			}
			s += c05DataDump(c)
		}
		return s + "]"
	case MappingNode:
		s := "{"
		if n.Tag != "!!map" {
			s = n.Tag + " {"
		}
		for i := 0; i+1 < len(n.Content); i += 2 {
			if i > 0 {
				s += ", "
			}
			if n.Content[i].Kind != ScalarNode {
				s += "KEY" // marks keys that are collections (or aliases): the structural class of the input
			}
			s += c05DataDump(n.Content[i]) + ": " + c05DataDump(n.Content[i+1])
		}
		return s + "}"
	case AliasNode:
		return "*" + c05DataDump(n.Alias)
	}
	return vDump(n)
}

// VerifC10RealFilesBytes: VerifC10RealFiles with the finite list of texts replaced by EVERY pair of short YAML texts
// (symbolic bytes, interpreted yaml.v3): what the shared evaluator, decoder and printer deliver for file one followed
// by file two is what they deliver for file one alone followed by what they deliver for file two alone (documents,
// leading content, file indices), in sequence mode and in eval-all mode.
func VerifC10RealFilesBytes() {
	alphabet := yamlAlphabets[0]
	t0 := verifStr("file0", verifParam("len0", 2), alphabet)
	t1 := verifStr("file1", verifParam("len1", 2), alphabet)
	evalAll := verifChoice("evalAll", 2) == 1
	both, okBoth := c10RunFiles([]string{t0, t1}, 0, evalAll)
	first, okFirst := c10RunFiles([]string{t0}, 0, evalAll)
	second, okSecond := c10RunFiles([]string{t1}, 1, evalAll)
	mode := " mode=eval"
	if evalAll {
		mode = " mode=eval-all"
	}
	if !okFirst {
		verifCover("C10/real-bytes/first-file-rejected")
		return // the run stops at the first file
	}
	verifAssert(okBoth == okSecond, "C10/real-files-error-depends-on-neighbour-file"+mode)
	if !okBoth || !okSecond {
		return
	}
	got := strings.Join(both, "; ")
	want := strings.Join(append(append([]string{}, first...), second...), "; ")
	verifObserve("got", got)
	verifObserve("want", want)
	verifAssert(verifEqStr(got, want), "C10/file-result-depends-on-neighbour-file"+mode)
	verifCover("C10/real-bytes/end")
}

// c05StreamTexts: multi-document streams whose documents are scalars, nulls, booleans and collections in every
// order: the printer decides from what it printed before whether a `---` is due.
var c05StreamTexts = []string{"~\n---\na: 1\n", "false\n---\ntrue\n", "null\n---\n~\n---\nx: 1\n", "a: 1\n---\n~\n---\nb: 2\n", "- 1\n---\nfalse\n---\n- 2\n",
	"---\n~\n---\nfalse\n---\n0\n", "a: 1\n---\nb: 2\n---\nc: 3\n", "x\n---\ny\n", "false\n---\nfalse\n---\na: 1\n", "{}\n---\n[]\n---\n~\n", "a: 1\n---\n# only a comment\n---\nb: 2\n"}

// VerifC05StreamDocuments: `yq .` on multi-document streams (finite list; yaml.v3 natively): the output holds the
// same number of documents with the same data, whatever the documents are (null, false, scalars first or last), and
// a second pass reproduces it.
func VerifC05StreamDocuments() {
	ti := verifChoice("text", len(c05StreamTexts))
	text := c05StreamTexts[ti]
	label := " text=" + verifItoa(int64(ti))
	out1, ok1 := c05IdentityStrict(text)
	verifAssert(ok1, "C05/identity-failed stream"+label)
	if !ok1 {
		return
	}
	verifObserve("out", out1)
	d1, okd1 := c05Data(text)
	d2, okd2 := c05Data(out1)
	verifAssert(okd1 && okd2, "C05/output-of-the-identity-is-not-accepted-again stream"+label)
	if okd1 && okd2 {
		verifAssert(d1 == d2, "C05/identity-changed-the-documents stream"+label)
	}
	out2, ok2 := c05IdentityStrict(out1)
	verifAssert(ok2 && out2 == out1, "C05/identity-not-idempotent stream"+label)
	verifCover("C05/stream-docs/end")
}

// VerifC05DecoratedCollections: `yq .` on collections that carry a decoration (explicit tag, anchor, both) in flow and
// block style, at the root, under a key and inside a sequence, with children from the spellings of null (nothing, ~,
// null), the empty string and ordinary scalars: accepted, same data (a null stays a null, '' stays a string), the
// collection keeps its tag, second pass identical. Texts are built from solver choices (finite domain: yaml.v3 runs
// natively).
func VerifC05DecoratedCollections() {
	deco := []string{"", "!custom ", "&x ", "&x !custom ", "!!set ", "!!map ", "!!seq ", "!!omap "}[verifChoice("deco", 8)]
	isMap := verifChoice("kind", 2) == 0
	flow := verifChoice("flow", 2) == 0
	if (deco == "!!seq " || deco == "!!omap ") && isMap {
		return
	}
	if (deco == "!!set " || deco == "!!map ") && !isMap {
		return
	}
	vals := []string{"", "~", "null", "''", "x", "1"}
	v1 := vals[verifChoice("v1", len(vals))]
	v2 := vals[verifChoice("v2", len(vals))]
	if deco == "!!set " && (v1 != "" && v1 != "~" && v1 != "null" || v2 != "" && v2 != "~" && v2 != "null") {
		return
	}
	place := verifChoice("place", 3)
	var body string
	if flow {
		if isMap {
			body = "{a: " + v1 + ", b: " + v2 + "}"
			if deco == "!!set " && verifChoice("bareKeys", 2) == 1 {
				body = "{a, b}"
			}
		} else {
			if v1 == "" || v2 == "" {
				return // a flow sequence has no empty entries
			}
			body = "[" + v1 + ", " + v2 + "]"
		}
	}
	var text string
	switch place {
	case 0:
		if flow {
			text = deco + body + "\n"
		} else if isMap {
			text = deco + "\na: " + v1 + "\nb: " + v2 + "\n"
			if deco != "" {
				text = "--- " + text
			}
		} else {
			text = deco + "\n- " + v1 + "\n- " + v2 + "\n"
			if deco != "" {
				text = "--- " + text
			}
		}
	case 1:
		if flow {
			text = "k: " + deco + body + "\nz: 1\n"
		} else if isMap {
			text = "k: " + deco + "\n  a: " + v1 + "\n  b: " + v2 + "\nz: 1\n"
		} else {
			text = "k: " + deco + "\n  - " + v1 + "\n  - " + v2 + "\nz: 1\n"
		}
	default:
		if flow {
			text = "- " + deco + body + "\n- z\n"
		} else if isMap {
			if deco != "" {
				text = "- " + deco + "\n  a: " + v1 + "\n  b: " + v2 + "\n- z\n"
			} else {
				text = "- a: " + v1 + "\n  b: " + v2 + "\n- z\n"
			}
		} else {
			if deco != "" {
				text = "- " + deco + "\n  - " + v1 + "\n  - " + v2 + "\n- z\n"
			} else {
				text = "- - " + v1 + "\n  - " + v2 + "\n- z\n"
			}
		}
	}
	verifObserve("text", text)
	d1, okd1 := c05Data(text)
	if !okd1 {
		verifCover("C05/decorated/rejected")
		return
	}
	out1, ok1 := c05IdentityStrict(text)
	verifAssert(ok1, "C05/identity-failed decorated-collection")
	if !ok1 {
		return
	}
	verifObserve("out", out1)
	d2, okd2 := c05Data(out1)
	verifAssert(okd2, "C05/output-of-the-identity-is-not-accepted-again decorated-collection")
	if okd2 {
		verifAssert(d1 == d2, "C05/identity-changed-the-documents decorated-collection")
	}
	out2, ok2 := c05IdentityStrict(out1)
	verifAssert(ok2 && out2 == out1, "C05/identity-not-idempotent decorated-collection")
	verifCover("C05/decorated/end")
}

// VerifC05FilesKeepComments: `yq . f1 f2 [f3]` with one decoder, evaluator and printer for the whole run, as the
// command has: every comment of every file is in the output - also when a later file holds nothing but comments,
// or is empty, or starts with a separator.
func VerifC05FilesKeepComments() {
	texts := []string{"x: 1\n", "# only a comment\n# second line\n", "# c\nb: 2\n", "---\ny: 2\n", "", "a: 1\n---\n# mid\nb: 2\n", "--- # t\nz: 3\n", "# lone\n\n"}
	n := 2 + verifChoice("files", 2)
	prefs := NewDefaultYamlPreferences()
	var sb strings.Builder
	printer := NewPrinter(NewYamlEncoder(prefs), NewSinglePrinterWriter(bufio.NewWriter(c17Writer{&sb})))
	ev := NewStreamEvaluator()
	dec := NewYamlDecoder(prefs)
	exp := vParse(".")
	want := 0
	any := uint(0)
	for i := 0; i < n; i++ {
		t := texts[verifChoice("file"+verifItoa(int64(i)), len(texts))]
		want += strings.Count(t, "#")
		docs, err := ev.Evaluate("f"+verifItoa(int64(i))+".yml", strings.NewReader(t), exp, printer, dec)
		if err != nil {
			verifFail("C05/files-evaluate-error")
			return
		}
		any += docs
	}
	if any == 0 {
		// no document in any file: the command evaluates the expression on nothing, comments of such a run are the
		// recorded class [input without a document]
		verifCover("C05/files-comments/no-document")
		return
	}
	out := sb.String()
	verifObserve("out", out)
	verifAssert(strings.Count(out, "#") == want, "C05/a-file's-comments-are-missing-from-the-output-of-several-files")
	verifCover("C05/files-comments/end")
}
