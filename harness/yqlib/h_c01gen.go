package yqlib

// C01 — generated programs. The fixed table of h_c01.go samples the language; this harness lets the solver
// choose the program itself: a typed abstract syntax tree with at most `size` operator nodes is drawn from the
// grammar below (one verifChoice per syntax node, so the engine explores every tree within the bound), rendered
// with explicit parentheses, parsed and evaluated by the real code, and compared with the reference evaluator
// composed from the same combinators as the table (c01Bin, c01Pipe, c01Var …). The data stays symbolic.
//
//   ctx R (current node = the document root)            ctx N (current node = a number)
//   N ::= .b | .m.k | .a[] | .a[0] | .a[-1] | 1 | 2 | $v       Nn ::= . | 1 | 2 | (Nn + Nn) | (Nn * Nn) | (Nn + $v) | (Nn - Nn)
//       | (N + N) | (N - N) | (N * N) | (S | .[]) | (S | length) | (N as $v | N) | (N as $v ireduce (0; . + $v))
//   S ::= .a | .e | [N] | (S + S) | (S | reverse) | (S | unique) | (S | sort) | (S | .[1:]) | (S | map(Nn)) | (S | map(select(Bn)))
//   B ::= (N == N) | (N != N) | (N < N) | (N >= N) | (B and B) | (B or B) | (B | not) | ([B] | any) | ([B] | all) | (S | has(1)) | has("a") | has("zz")
//   Bn ::= (Nn == Nn) | (Nn > Nn) | (Nn != Nn)
//   T ::= N | S | B | (T , T) | (select(B) | T) | {"k": N} | (B // N) | (S | to_entries) | (S | keys) | (N as $v | T)
//
// The grammar is typed so that no generated program leaves the documented fragment by a type error; what is
// still open (value-creating operators on an empty context: a literal, `[…]`, `$v` after `select` dropped the
// root) is marked c01Open by the reference and only counted.

var c01GenCtr int
var c01GenBudget int
var c01Env [3]*c01V
var c01EnvDepth int

func c01Ch(n int) int {
	c01GenCtr++
	return verifChoice("g"+verifItoa(int64(c01GenCtr)), n)
}

// c01G: a generated program. t is the fully parenthesised text; m is the same program with only the parentheses
// the precedence table requires (used by C09's generated check); prec/top describe the outermost operator.
type c01G struct {
	t    string
	f    c01F
	m    string
	prec int
	top  string
}

// the precedence table of the core operators as documented / exercised by VerifC09Table (higher binds tighter)
const (
	c01PUnion = 10
	c01PLogic = 20
	c01PPipe  = 30
	c01PRed   = 35
	c01PCmp   = 40
	c01PArith = 42
	c01PMul   = 43
	c01PAtom  = 100
)

func c01OpPrec(op string) int {
	switch op {
	case ",":
		return c01PUnion
	case "and", "or":
		return c01PLogic
	case "|":
		return c01PPipe
	case "==", "!=", "<", ">", "<=", ">=":
		return c01PCmp
	}
	if op == "*" {
		return c01PMul
	}
	return c01PArith // + - //
}

func c01Assoc(op string) bool {
	return op == "|" || op == "," || op == "+" || op == "*" || op == "and" || op == "or"
}

func c01At(t string, f c01F) c01G { return c01G{t: t, f: f, m: t, prec: c01PAtom} }

// c01AtM: an atom-like form (function call, [..], {..}) whose inside is rendered minimally in m
func c01AtM(t, m string, f c01F) c01G { return c01G{t: t, f: f, m: m, prec: c01PAtom} }

func c01Wrap(c c01G, parent int, op string) string {
	if c.prec > parent || (c.prec == parent && c.top == op && c01Assoc(op)) {
		return c.m
	}
	return "(" + c.m + ")"
}

// c01Bn: x OP y
func c01Bn(x c01G, op string, y c01G, f c01F) c01G {
	p := c01OpPrec(op)
	return c01G{t: "(" + x.t + " " + op + " " + y.t + ")", f: f, m: c01Wrap(x, p, op) + " " + op + " " + c01Wrap(y, p, op), prec: p, top: op}
}

// c01As: X as $v | Y — `as` binds like an assignment (40), the body follows a pipe (30)
func c01As(x c01G, slot int, y c01G, f c01F) c01G {
	v := c01VarName(slot)
	return c01G{t: "(" + x.t + " as " + v + " | " + y.t + ")", f: f, m: c01Wrap(x, c01PCmp, "as") + " as " + v + " | " + c01Wrap(y, c01PPipe, "|"), prec: c01PPipe, top: "|"}
}

// c01Red: X as $v ireduce (INIT; . OP $v)
func c01Red(x c01G, slot int, init, op string, f c01F) c01G {
	v := c01VarName(slot)
	body := " ireduce (" + init + "; . " + op + " " + v + ")"
	return c01G{t: "(" + x.t + " as " + v + body + ")", f: f, m: c01Wrap(x, c01PCmp, "as") + " as " + v + body, prec: c01PRed, top: "ireduce"}
}

// c01PipeFn: x | FN   (FN a function name or bracket traversal: an atom)
func c01PipeFn(x c01G, fn string, f c01F) c01G {
	return c01Bn(x, "|", c01At(fn, nil), f)
}

// value-creating leaves: on an empty context yq still creates one value (valueOperator, collectOperator,
// getVariableOperator); the documentation does not fix that, so it is outside the compared region.
var c01GenCreates bool // set while generating: the subtree holds a value-creating operator

func c01GenLit(v *c01V) c01F {
	c01GenCreates = true
	return func(in []*c01V) ([]*c01V, bool) {
		if len(in) == 0 {
			c01Open = true
			return nil, true
		}
		return c01Lit(v)(in)
	}
}

func c01GenVar(i int) c01F {
	c01GenCreates = true
	return func(in []*c01V) ([]*c01V, bool) {
		if len(in) != 1 {
			c01Open = true // `stream | $v`: yq yields the variable once, not once per current node
			return nil, true
		}
		return []*c01V{c01Env[i]}, true
	}
}

func c01GenCollect(f c01F) c01F {
	c01GenCreates = true
	return func(in []*c01V) ([]*c01V, bool) {
		if len(in) == 0 {
			c01Open = true
			return nil, true
		}
		return c01Collect(f)(in)
	}
}

// c01GenBind: `F as $v | body`, body reading c01Env[slot]
func c01GenBind(f c01F, slot int, body c01F) c01F {
	c01GenCreates = true
	bind := c01GenBindEach(f, slot, body)
	return func(in []*c01V) ([]*c01V, bool) {
		if len(in) == 0 {
			c01Open = true // `as` on an empty context: the body still runs once (value-creating bodies yield a value)
			return nil, true
		}
		return bind(in)
	}
}

func c01GenBindEach(f c01F, slot int, body c01F) c01F {
	return c01Var(f, func(x *c01V) c01F {
		return func(in []*c01V) ([]*c01V, bool) {
			old := c01Env[slot]
			c01Env[slot] = x
			r, ok := body(in)
			c01Env[slot] = old
			return r, ok
		}
	})
}

// c01GenReduce: `F as $v ireduce (0; . + $v)` — folds the results of F, per input node.
func c01GenReduce(f c01F, mul bool) c01F {
	c01GenCreates = true
	each := c01GenReduceEach(f, mul)
	return func(in []*c01V) ([]*c01V, bool) {
		if len(in) == 0 {
			c01Open = true // reduce on an empty context still yields its initial value: value-creating, not fixed by the documentation
			return nil, true
		}
		return each(in)
	}
}

func c01GenReduceEach(f c01F, mul bool) c01F {
	return c01Each(func(v *c01V) ([]*c01V, bool) {
		xs, ok := f([]*c01V{v})
		if !ok {
			return nil, false
		}
		var acc int64
		if mul {
			acc = 1
		}
		for _, x := range xs {
			if x.k != 2 {
				c01Open = true
				return nil, true
			}
			if mul {
				acc *= x.i
			} else {
				acc += x.i
			}
		}
		return []*c01V{c01Int(acc)}, true
	})
}

func c01VarName(i int) string { return "$v" + verifItoa(int64(i)) }

func c01Take() bool {
	if c01GenBudget <= 0 {
		return false
	}
	return true
}

// ---- ctx R ----

func c01GenN() c01G {
	nl := 7
	if c01EnvDepth > 0 {
		nl = 8
	}
	total := nl
	if c01Take() {
		total = nl + 7
	}
	c := c01Ch(total)
	a := c01Key("a")
	switch c {
	case 0:
		return c01At(".b", c01Key("b"))
	case 1:
		return c01At(".m.k", c01Pipe(c01Key("m"), c01Key("k")))
	case 2:
		return c01At(".a[]", c01Pipe(a, c01Splat))
	case 3:
		return c01At(".a[0]", c01Pipe(a, c01Index(0)))
	case 4:
		return c01At(".a[-1]", c01Pipe(a, c01Index(-1)))
	case 5:
		return c01At("1", c01GenLit(c01Int(1)))
	case 6:
		return c01At("2", c01GenLit(c01Int(2)))
	}
	if c == 7 && c01EnvDepth > 0 {
		i := c01Ch(c01EnvDepth)
		return c01At(c01VarName(i), c01GenVar(i))
	}
	c01GenBudget--
	switch c - nl {
	case 0:
		x, y := c01GenN(), c01GenN()
		return c01Bn(x, "+", y, c01Bin(x.f, y.f, c01GenAdd))
	case 1:
		x, y := c01GenN(), c01GenN()
		return c01Bn(x, "-", y, c01Bin(x.f, y.f, c01GenArith("-")))
	case 2:
		x, y := c01GenN(), c01GenN()
		return c01Bn(x, "*", y, c01Bin(x.f, y.f, c01GenArith("*")))
	case 3:
		s := c01GenS()
		return c01PipeFn(s, ".[]", c01Pipe(s.f, c01Splat))
	case 4:
		s := c01GenS()
		return c01PipeFn(s, "length", c01Pipe(s.f, c01Length))
	case 5:
		x := c01GenN()
		slot := c01EnvDepth
		if slot >= len(c01Env) {
			return x
		}
		c01EnvDepth++
		y := c01GenN()
		c01EnvDepth--
		return c01As(x, slot, y, c01GenBind(x.f, slot, y.f))
	default:
		x := c01GenN()
		slot := c01EnvDepth
		if slot >= len(c01Env) {
			return x
		}
		if c01Ch(2) == 0 {
			return c01Red(x, slot, "0", "+", c01GenReduce(x.f, false))
		}
		return c01Red(x, slot, "1", "*", c01GenReduce(x.f, true))
	}
}

// arithmetic inside the typed fragment: a null operand (an index past the end) leaves it
func c01GenAdd(a, b *c01V) (*c01V, bool) {
	if a.k == 0 || b.k == 0 {
		c01Open = true
	}
	return c01Add(a, b)
}

func c01GenArith(op string) func(a, b *c01V) (*c01V, bool) {
	f := c01Arith(op)
	return func(a, b *c01V) (*c01V, bool) {
		if a.k == 0 || b.k == 0 {
			c01Open = true
		}
		return f(a, b)
	}
}

func c01GenS() c01G {
	total := 2
	if c01Take() {
		total = 10
	}
	c := c01Ch(total)
	switch c {
	case 0:
		return c01At(".a", c01Key("a"))
	case 1:
		return c01At(".e", c01Key("e"))
	}
	c01GenBudget--
	switch c {
	case 2:
		x := c01GenN()
		return c01AtM("["+x.t+"]", "["+x.m+"]", c01GenCollect(x.f))
	case 3:
		x, y := c01GenS(), c01GenS()
		return c01Bn(x, "+", y, c01Bin(x.f, y.f, c01Add))
	case 4:
		x := c01GenS()
		return c01PipeFn(x, "reverse", c01Pipe(x.f, c01Reverse))
	case 5:
		x := c01GenS()
		return c01PipeFn(x, "unique", c01Pipe(x.f, c01Unique))
	case 6:
		x := c01GenS()
		return c01PipeFn(x, "sort", c01Pipe(x.f, c01GenSort))
	case 7:
		x := c01GenS()
		return c01PipeFn(x, ".[1:]", c01Pipe(x.f, c01Slice(1)))
	case 8:
		x := c01GenS()
		n := c01GenNn()
		return c01Bn(x, "|", c01AtM("map("+n.t+")", "map("+n.m+")", nil), c01Pipe(x.f, c01MapF(n.f)))
	default:
		x := c01GenS()
		b := c01GenBn()
		return c01Bn(x, "|", c01AtM("map(select("+b.t+"))", "map(select("+b.m+"))", nil), c01Pipe(x.f, c01MapF(c01Select(b.f))))
	}
}

// c01GenSort: sort of a sequence of integers; anything else (a null from an index past the end) is outside.
var c01GenSort = c01Each(func(v *c01V) ([]*c01V, bool) {
	if v.k == 4 {
		for _, x := range v.items {
			if x.k != 2 {
				c01Open = true
				return nil, true
			}
		}
	}
	return c01Sort([]*c01V{v})
})

func c01GenB() c01G {
	total := 2
	if c01Take() {
		total = 12
	}
	c := c01Ch(total)
	switch c {
	case 0:
		return c01At("has(\"a\")", c01Has("a", 0))
	case 1:
		return c01At("has(\"zz\")", c01Has("zz", 0))
	}
	c01GenBudget--
	cmp := func(op string) c01G {
		x, y := c01GenN(), c01GenN()
		return c01Bn(x, op, y, c01Bin(x.f, y.f, c01Cmp(op)))
	}
	switch c {
	case 2:
		return cmp("==")
	case 3:
		return cmp("!=")
	case 4:
		return cmp("<")
	case 5:
		return cmp(">=")
	case 6:
		x, y := c01GenB(), c01GenB()
		return c01Bn(x, "and", y, c01BinSC(x.f, y.f, c01Logic("and"), c01Short("and")))
	case 7:
		x, y := c01GenB(), c01GenB()
		return c01Bn(x, "or", y, c01BinSC(x.f, y.f, c01Logic("or"), c01Short("or")))
	case 8:
		x := c01GenB()
		return c01PipeFn(x, "not", c01Pipe(x.f, c01Not))
	case 9:
		x := c01GenB()
		return c01Bn(c01AtM("["+x.t+"]", "["+x.m+"]", nil), "|", c01At("any", nil), c01Pipe(c01GenCollect(x.f), c01Quant(false)))
	case 10:
		x := c01GenB()
		return c01Bn(c01AtM("["+x.t+"]", "["+x.m+"]", nil), "|", c01At("all", nil), c01Pipe(c01GenCollect(x.f), c01Quant(true)))
	default:
		x := c01GenS()
		return c01PipeFn(x, "has(1)", c01Pipe(x.f, c01Has("", 1)))
	}
}

// ---- ctx N ----

func c01GenNn() c01G {
	total := 3
	if c01Take() {
		total = 6
		if c01EnvDepth > 0 {
			total = 7
		}
	}
	c := c01Ch(total)
	switch c {
	case 0:
		return c01At(".", c01Self)
	case 1:
		return c01At("1", c01GenLit(c01Int(1)))
	case 2:
		return c01At("2", c01GenLit(c01Int(2)))
	}
	c01GenBudget--
	switch c {
	case 3:
		x, y := c01GenNn(), c01GenNn()
		return c01Bn(x, "+", y, c01Bin(x.f, y.f, c01GenAdd))
	case 4:
		x, y := c01GenNn(), c01GenNn()
		return c01Bn(x, "*", y, c01Bin(x.f, y.f, c01GenArith("*")))
	case 5:
		x, y := c01GenNn(), c01GenNn()
		return c01Bn(x, "-", y, c01Bin(x.f, y.f, c01GenArith("-")))
	default:
		x := c01GenNn()
		i := c01Ch(c01EnvDepth)
		return c01Bn(x, "+", c01At(c01VarName(i), nil), c01Bin(x.f, c01GenVar(i), c01GenAdd))
	}
}

func c01GenBn() c01G {
	op := []string{"==", ">", "!="}[c01Ch(3)]
	x, y := c01GenNn(), c01GenNn()
	return c01Bn(x, op, y, c01Bin(x.f, y.f, c01Cmp(op)))
}

// ---- top level ----

func c01GenT() c01G {
	total := 3
	if c01Take() {
		total = 10
	}
	c := c01Ch(total)
	switch c {
	case 0:
		return c01GenN()
	case 1:
		return c01GenS()
	case 2:
		return c01GenB()
	}
	c01GenBudget--
	switch c {
	case 3:
		x, y := c01GenT(), c01GenT()
		return c01Bn(x, ",", y, c01Union(x.f, y.f))
	case 4:
		b := c01GenB()
		saved := c01GenCreates
		c01GenCreates = false
		x := c01GenT()
		creates := c01GenCreates
		c01GenCreates = saved || creates
		sel := c01Select(b.f)
		return c01Bn(c01AtM("select("+b.t+")", "select("+b.m+")", nil), "|", x, func(in []*c01V) ([]*c01V, bool) {
			m, ok := sel(in)
			if !ok {
				return nil, false
			}
			if len(m) == 0 && creates {
				c01Open = true // a value-creating operator somewhere in T, evaluated on an empty context
				return nil, true
			}
			return x.f(m)
		})
	case 5:
		x := c01GenN()
		return c01AtM("{\"k\": "+x.t+"}", "{\"k\": "+c01Wrap(x, 15, ":")+"}", c01GenObject("k", x.f))
	case 6:
		b := c01GenB()
		x := c01GenN()
		return c01Bn(b, "//", x, c01Alt(b.f, x.f))
	case 7:
		x := c01GenS()
		return c01PipeFn(x, "to_entries", c01Pipe(x.f, c01ToEntries))
	case 8:
		x := c01GenS()
		return c01PipeFn(x, "keys", c01Pipe(x.f, c01Keys))
	default:
		x := c01GenN()
		slot := c01EnvDepth
		if slot >= len(c01Env) {
			return x
		}
		c01EnvDepth++
		y := c01GenT()
		c01EnvDepth--
		return c01As(x, slot, y, c01GenBind(x.f, slot, y.f))
	}
}

func c01GenObject(key string, f c01F) c01F {
	c01GenCreates = true
	return func(in []*c01V) ([]*c01V, bool) {
		if len(in) == 0 {
			c01Open = true
			return nil, true
		}
		return c01Object(key, f)(in)
	}
}

// VerifC01Generated: every program of the grammar with at most `size` operator nodes, on the symbolic document.
func VerifC01Generated() {
	c01GenCtr, c01EnvDepth = 0, 0
	c01GenCreates = false
	c01GenBudget = verifParam("size", 1)
	g := c01GenT()
	verifObserve("program", g.t)
	n := 2
	if verifParam("alen_sym", 0) == 1 {
		n = verifChoice("alen", 3)
	}
	var xv []*c01V
	aSeq := vSeq()
	for i := 0; i < n; i++ {
		d := verifStrN("x"+verifItoa(int64(i)), 1, "03")
		iv, _ := parseInt64ForHarness(d)
		xv = append(xv, &c01V{k: 2, i: iv, s: d})
		aSeq.Content = append(aSeq.Content, vInt(d))
	}
	bd := verifStrN("b", 1, "03")
	bv, _ := parseInt64ForHarness(bd)
	md := verifStrN("mk", 1, "03")
	mv, _ := parseInt64ForHarness(md)
	doc := vDoc(vMap(vStr("a"), aSeq, vStr("b"), vInt(bd), vStr("s"), vStr("k"), vStr("m"), vMap(vStr("k"), vInt(md)), vStr("e"), vSeq()))
	evalAll := verifChoice("evalAll", 2) == 1
	doc.EvaluateTogether = evalAll
	before := vDumpFull(doc)
	ref := c01Map([]string{"a", "b", "s", "m", "e"}, []*c01V{c01Seq(xv...), {k: 2, i: bv, s: bd}, c01Str("k"), c01Map([]string{"k"}, []*c01V{{k: 2, i: mv, s: md}}), c01Seq()})
	c01Empty, c01Open = false, false
	want, wantOK := g.f([]*c01V{ref})
	res, err := vEval(vParse(g.t), doc)
	label := "generated"
	if evalAll {
		label += " mode=eval-all"
	}
	if c01Open {
		verifCover("C01/gen/open-region")
		return
	}
	if c01Empty {
		label += " [empty operand stream]"
	}
	if !wantOK {
		verifCover("C01/gen/error-expected")
		verifAssert(err != nil, "C01/error-not-reported "+label)
		return
	}
	verifAssert(err == nil, "C01/unexpected-error "+label)
	if err != nil {
		return
	}
	got := vDumpList(res)
	verifObserve("got", got)
	verifObserve("want", c01DumpList(want))
	verifAssert(verifEqStr(got, c01DumpList(want)), "C01/result-differs-from-reference "+label)
	// generated programs contain no assignment: the document must be what it was (C08's obligation, checked here
	// as well because the programs are at hand)
	verifAssert(verifEqStr(vDumpFull(doc), before), "C01/generated-read-only-program-changed-its-input "+label)
	verifCover("C01/gen/end")
}

// VerifC01DeepMatchLemma proves, on the real deepMatch, the summary the engine uses when one side of `==` is the
// text of a computed number: a pattern that contains neither `*` nor `?` matches exactly the equal name.
func VerifC01DeepMatchLemma() {
	L := verifParam("lemmalen", 3)
	name := verifStr("name", L, "")
	pat := verifStr("pat", L, "")
	for i := 0; i < len(pat); i++ {
		verifAssume(pat[i] != '*' && pat[i] != '?')
	}
	got := deepMatch(name, pat)
	verifAssert(got == verifEqStr(name, pat), "C01/lemma-deepmatch-without-wildcards-is-equality")
	verifCover("C01/lemma/end")
}
