package yqlib

import (
	"math"

	yaml "gopkg.in/yaml.v3"
)

// C15 — sort, min/max and the comparison operators agree on one consistent total order.

type c15Val struct {
	node   *CandidateNode
	cls    int // 0 null, 1 bool, 2 int (full 64-bit range, integer atom), 3 str, 4 int spelled with symbolic digits
	num    int64
	str    string
	truthy bool
	name   string
}

var c15ClassNames = []string{"null", "bool", "int", "str", "intdigits"}

// c15Scalar: tag class is a path split; the value inside the class is a solver variable.
func c15Scalar(name string, classes int, strLen int) c15Val {
	cls := verifChoice(name+"_cls", classes)
	v := c15Val{cls: cls, name: c15ClassNames[cls]}
	switch cls {
	case 0:
		v.node = &CandidateNode{Kind: ScalarNode, Tag: "!!null", Value: verifPick(name+"_null", "null", "~", "")}
	case 1:
		s := verifPick(name+"_bool", "true", "false", "True", "FALSE")
		v.truthy = verifOr(verifEqStr(s, "true"), verifEqStr(s, "True"))
		v.node = &CandidateNode{Kind: ScalarNode, Tag: "!!bool", Value: s}
	case 2:
		v.num = verifInt64(name + "_int")
		v.node = &CandidateNode{Kind: ScalarNode, Tag: "!!int", Value: verifItoa(v.num)}
	case 3:
		v.str = verifStr(name+"_str", strLen, "")
		v.node = &CandidateNode{Kind: ScalarNode, Tag: "!!str", Value: v.str}
	case 4:
		d := verifStr(name+"_digits", 2, "09")
		verifAssume(len(d) >= 1)
		for i := 0; i < len(d); i++ {
			v.num = v.num*10 + int64(d[i]-'0')
		}
		v.node = &CandidateNode{Kind: ScalarNode, Tag: "!!int", Value: d}
	}
	return v
}

// c15Encodable: the integer-atom encoding cannot be compared bytewise with symbolic strings; that pairing is
// covered by the digit-spelled class instead.
func c15Encodable(a, b c15Val) bool {
	return !((a.cls == 2 && b.cls == 3) || (a.cls == 3 && b.cls == 2))
}

func c15Cmp(a, b c15Val) int {
	return sortableNodeArray(nil).compare(a.node, b.node, vRFC3339)
}

// refLess: the stated preorder where it is defined (null < bool < others; false < true; ints numerically;
// strings bytewise). int vs str is left open by the statement: defined=false.
func c15RefLess(a, b c15Val) (less bool, equal bool, defined bool) {
	ca, cb := a.cls, b.cls
	if ca == 4 {
		ca = 2
	}
	if cb == 4 {
		cb = 2
	}
	ra, rb := ca, cb
	if ra > 2 {
		ra = 2
	}
	if rb > 2 {
		rb = 2
	}
	if ra != rb {
		return ra < rb, false, true
	}
	switch {
	case ca == 0 && cb == 0:
		// two nulls: the statement only places nulls first; yq orders different spellings of null among
		// themselves, which is a refinement of the preorder, not a contradiction of it
		return false, false, false
	case ca == 1 && cb == 1:
		return verifAnd(verifNot(a.truthy), b.truthy), a.truthy == b.truthy, true
	case ca == 2 && cb == 2:
		return a.num < b.num, a.num == b.num, true
	case ca == 3 && cb == 3:
		return verifLessStr(a.str, b.str), verifEqStr(a.str, b.str), true
	}
	return false, false, false
}

// VerifC15Pairs: antisymmetry and agreement with the stated preorder on every pair of scalars.
func VerifC15Pairs() {
	L := verifParam("strlen", 2)
	x := c15Scalar("x", 5, L)
	y := c15Scalar("y", 5, L)
	if !c15Encodable(x, y) {
		return
	}
	combo := x.name + "," + y.name
	cxy := c15Cmp(x, y)
	cyx := c15Cmp(y, x)
	verifObserve("cxy<0", cxy < 0)
	verifObserve("cxy>0", cxy > 0)
	verifAssert(verifAnd((cxy < 0) == (cyx > 0), (cxy == 0) == (cyx == 0)), "C15/antisymmetric "+combo)
	less, eq, defined := c15RefLess(x, y)
	if defined {
		verifAssert((cxy < 0) == less, "C15/agrees-less "+combo)
		verifAssert((cxy == 0) == eq, "C15/agrees-equal "+combo)
	}
	verifCover("C15/pairs/end")
}

// VerifC15Triples: transitivity of <= on every triple of scalars.
func VerifC15Triples() {
	L := verifParam("strlen", 1)
	x := c15Scalar("x", 5, L)
	y := c15Scalar("y", 5, L)
	z := c15Scalar("z", 5, L)
	if !c15Encodable(x, y) || !c15Encodable(y, z) || !c15Encodable(x, z) {
		return
	}
	combo := x.name + "," + y.name + "," + z.name
	cxy := c15Cmp(x, y)
	cyz := c15Cmp(y, z)
	cxz := c15Cmp(x, z)
	verifAssert(verifImplies(verifAnd(cxy <= 0, cyz <= 0), cxz <= 0), "C15/transitive "+combo)
	verifAssert(verifImplies(verifAnd(cxy == 0, cyz == 0), cxz == 0), "C15/equivalence-transitive "+combo)
	verifCover("C15/triples/end")
}

// VerifC15CompareOps: < <= > >= (compareScalars) agree with the sort comparator wherever they are defined.
func VerifC15CompareOps() {
	L := verifParam("strlen", 2)
	x := c15Scalar("x", 5, L)
	y := c15Scalar("y", 5, L)
	if !c15Encodable(x, y) {
		return
	}
	combo := x.name + "," + y.name
	cxy := c15Cmp(x, y)
	orEqual := verifChoice("orEqual", 2) == 1
	greater := verifChoice("greater", 2) == 1
	opName := "<"
	if greater {
		opName = ">"
	}
	if orEqual {
		opName += "="
	}
	got, err := compareScalars(Context{}, compareTypePref{OrEqual: orEqual, Greater: greater}, x.node, y.node)
	if err != nil {
		verifCover("C15/ops/error")
		// comparison operators are defined for number/number and string/string (and null); elsewhere an error is acceptable
		xi, yi := x.cls == 2 || x.cls == 4, y.cls == 2 || y.cls == 4
		verifAssert(!((xi && yi) || (x.cls == 3 && y.cls == 3)), "C15/ops-error-on-comparable "+opName+" "+combo)
		return
	}
	if ((x.cls == 2 || x.cls == 4) && (y.cls == 2 || y.cls == 4)) || (x.cls == 3 && y.cls == 3) {
		var want bool
		switch opName {
		case "<":
			want = cxy < 0
		case "<=":
			want = cxy <= 0
		case ">":
			want = cxy > 0
		default:
			want = cxy >= 0
		}
		verifObserve("got", got)
		verifAssert(got == want, "C15/ops-agree-with-sort-order "+opName+" "+combo)
	}
	verifCover("C15/ops/end")
}

// c15SpelledInt: an integer written with symbolic bytes in one of YAML's spellings; value computed by a
// reference reader (plain Go over the same bytes).
func c15SpelledInt(name string) (string, int64) {
	switch verifChoice(name+"_spelling", 4) {
	case 0: // decimal, optional sign, 1-2 digits
		neg := verifBool(name + "_neg")
		d := verifStr(name+"_dec", 2, "09")
		verifAssume(len(d) >= 1)
		var v int64
		for i := 0; i < len(d); i++ {
			v = v*10 + int64(d[i]-'0')
		}
		if verifConcreteBool(neg) {
			return "-" + d, -v
		}
		return d, v
	case 1: // hex
		d := verifStrN(name+"_hex", 1, "09af")
		c := d[0]
		var v int64
		if verifConcreteBool(c <= '9') {
			v = int64(c - '0')
		} else {
			v = int64(c-'a') + 10
		}
		return "0x" + d, v
	case 2: // octal
		d := verifStr(name+"_oct", 2, "07")
		verifAssume(len(d) >= 1)
		var v int64
		for i := 0; i < len(d); i++ {
			v = v*8 + int64(d[i]-'0')
		}
		return "0o" + d, v
	default: // underscore separated decimal
		a := verifStrN(name+"_ua", 1, "19")
		b := verifStrN(name+"_ub", 1, "09")
		return a + "_" + b, int64(a[0]-'0')*10 + int64(b[0]-'0')
	}
}

// VerifC15Spelled: numbers compare by numeric value whatever their spelling (real parseInt64 / strconv SSA).
func VerifC15Spelled() {
	xs, xv := c15SpelledInt("x")
	ys, yv := c15SpelledInt("y")
	x := &CandidateNode{Kind: ScalarNode, Tag: "!!int", Value: xs}
	y := &CandidateNode{Kind: ScalarNode, Tag: "!!int", Value: ys}
	c := sortableNodeArray(nil).compare(x, y, vRFC3339)
	verifObserve("xs", xs)
	verifObserve("ys", ys)
	verifObserve("c<0", c < 0)
	verifAssert((c < 0) == (xv < yv), "C15/spelled-less")
	verifAssert((c == 0) == (xv == yv), "C15/spelled-equal")
	lt, err := compareScalars(Context{}, compareTypePref{}, x, y)
	verifAssert(err == nil, "C15/spelled-compare-op-error")
	if err == nil {
		verifAssert(lt == (xv < yv), "C15/spelled-compare-op")
	}
	verifCover("C15/spelled/end")
}

// VerifC15Sort: sort returns an ordered, stable permutation and is idempotent (real sort.Stable SSA).
func VerifC15Sort() {
	n := verifChoice("n", verifParam("maxn", 3)+1)
	items := make([]*CandidateNode, 0)
	vals := make([]int64, 0)
	seq := vSeq()
	for i := 0; i < n; i++ {
		v := verifInt64("e" + verifItoa(int64(i)))
		// keep differences inside int64 so that the (separately reported) subtraction overflow is not what is measured here
		verifAssume(verifAnd(v > -1000000, v < 1000000))
		vals = append(vals, v)
		// element = {k: v, id: i}; sort_by(.k) must keep ids of equal keys in input order
		seq.Content = append(seq.Content, vMap(vStr("k"), vInt(verifItoa(v)), vStr("id"), vInt(verifItoa(int64(i)))))
	}
	_ = items
	doc := vDoc(seq)
	res, err := vEval(vParse("sort_by(.k)"), doc)
	verifAssert(err == nil, "C15/sort-error")
	if err != nil {
		return
	}
	out := res.Front().Value.(*CandidateNode)
	verifAssert(verifAnd(res.Len() == 1, len(out.Content) == n), "C15/sort-length")
	if len(out.Content) != n {
		return
	}
	// read back (k, id) of each output element
	used := make([]bool, n)
	prevK := int64(0)
	prevID := 0
	for i := 0; i < n; i++ {
		el := out.Content[i]
		id64, _ := parseInt(el.Content[3].Value)
		id := verifConcreteInt(id64, 0, n-1)
		verifAssert(!used[id], "C15/sort-permutation")
		used[id] = true
		k := vals[id]
		verifAssert(verifEqStr(el.Content[1].Value, verifItoa(k)), "C15/sort-element-intact")
		if i > 0 {
			verifAssert(prevK <= k, "C15/sort-ordered")
			verifAssert(verifImplies(prevK == k, prevID < id), "C15/sort-stable")
		}
		prevK, prevID = k, id
	}
	// idempotent
	res2, err2 := vEval(vParse("sort_by(.k)"), out)
	verifAssert(err2 == nil, "C15/sort-error")
	if err2 == nil {
		verifAssert(verifEqStr(vDump(res2.Front().Value.(*CandidateNode)), vDump(out)), "C15/sort-idempotent")
	}
	verifCover("C15/sort/end")
}

// VerifC15SortLarge: stability, order and permutation on sequences longer than the library's insertion-sort
// thresholds (12 for sort.Sort's pdqsort, 20 for sort.Stable's blocks), where an unstable or mis-merging sort
// first shows. Keys are two-valued; a few of them are solver variables, the rest a fixed interleaving.
func VerifC15SortLarge() {
	n := verifParam("largen", 14)
	seq := vSeq()
	keys := make([]int64, n)
	for i := 0; i < n; i++ {
		var k int64
		if i == 0 || i == n/2 || i == n-1 {
			k = int64(verifIntRange("k"+verifItoa(int64(i)), 0, 1))
		} else {
			k = int64((i + 1) % 2)
		}
		keys[i] = k
		seq.Content = append(seq.Content, vMap(vStr("k"), vInt(verifItoa(k)), vStr("id"), vInt(verifItoa(int64(i)))))
	}
	res, err := vEval(vParse("sort_by(.k)"), vDoc(seq))
	verifAssert(err == nil && res.Len() == 1, "C15/sort-error")
	if err != nil || res.Len() != 1 {
		return
	}
	out := res.Front().Value.(*CandidateNode)
	verifAssert(len(out.Content) == n, "C15/sort-length")
	if len(out.Content) != n {
		return
	}
	used := make([]bool, n)
	prevK, prevID := int64(0), 0
	for i := 0; i < n; i++ {
		id64, _ := parseInt(out.Content[i].Content[3].Value)
		id := verifConcreteInt(id64, 0, n-1)
		verifAssert(!used[id], "C15/sort-permutation large")
		used[id] = true
		k := keys[id]
		if i > 0 {
			verifAssert(prevK <= k, "C15/sort-ordered large")
			verifAssert(verifImplies(prevK == k, prevID < id), "C15/sort-stable large")
		}
		prevK, prevID = k, id
	}
	verifCover("C15/sortlarge/end")
}

// VerifC15MixedNumbers: a float against an integer in any of YAML's integer spellings (and two floats): the
// comparator is antisymmetric and follows the numeric order. Floats are drawn from a finite set of spellings
// (floating-point arithmetic stays concrete), integers likewise.
func VerifC15MixedNumbers() {
	floats := []string{"2.5", "-1.5", "16.0", "1e1", "0.5", "15.5", "-0.0", "31.0"}
	fvals := []float64{2.5, -1.5, 16, 10, 0.5, 15.5, 0, 31}
	ints := []string{"0x10", "0X1F", "0o17", "16", "1_0", "-2", "0", "0xf", "3"}
	ivals := []float64{16, 31, 15, 16, 10, -2, 0, 15, 3}
	fi := verifChoice("float", len(floats))
	x := &CandidateNode{Kind: ScalarNode, Tag: "!!float", Value: floats[fi]}
	xv := fvals[fi]
	var y *CandidateNode
	var yv float64
	if verifChoice("otherIsFloat", 2) == 1 {
		fj := verifChoice("float2", len(floats))
		y, yv = &CandidateNode{Kind: ScalarNode, Tag: "!!float", Value: floats[fj]}, fvals[fj]
	} else {
		ij := verifChoice("int", len(ints))
		y, yv = &CandidateNode{Kind: ScalarNode, Tag: "!!int", Value: ints[ij]}, ivals[ij]
	}
	cxy := sortableNodeArray(nil).compare(x, y, vRFC3339)
	cyx := sortableNodeArray(nil).compare(y, x, vRFC3339)
	label := x.Value + " vs " + y.Value
	verifAssert((cxy < 0) == (cyx > 0) && (cxy == 0) == (cyx == 0), "C15/antisymmetric float-mixed "+label)
	verifAssert((cxy < 0) == (xv < yv) && (cxy > 0) == (xv > yv), "C15/agrees-numeric float-mixed "+label)
	verifCover("C15/mixed/end")
}

// VerifC15OddNumbers: numbers in spellings the integer reader does not take (signed hex, binary, beyond 64 bits, a
// mistagged scalar) and the infinities, against each other and against ordinary numbers: sorting never crashes, the
// comparator stays antisymmetric, follows the numeric order wherever both have a numeric value, and `<`, `>=`, min
// agree with it there.
func VerifC15OddNumbers() {
	type num struct {
		tag, text string
		val       float64
		hasVal    bool
	}
	big := 1e308
	inf := big * 10
	nums := []num{{"!!int", "-0x10", 0, false}, {"!!int", "0b101", 0, false}, {"!!int", "9223372036854775808", 9223372036854775808, true},
		{"!!int", "abc", 0, false}, {"!!int", "1", 1, true}, {"!!int", "0x10", 16, true}, {"!!float", "15.5", 15.5, true},
		{"!!float", ".inf", inf, true}, {"!!float", "-.inf", -inf, true}, {"!!float", "+.Inf", inf, true}, {"!!int", "-9223372036854775808", -9223372036854775808, true},
		{"!!float", "1e400", inf, false}, {"!!int", "0o17", 15, true}}
	i, j := verifChoice("x", len(nums)), verifChoice("y", len(nums))
	a, b := nums[i], nums[j]
	x := &CandidateNode{Kind: ScalarNode, Tag: a.tag, Value: a.text}
	y := &CandidateNode{Kind: ScalarNode, Tag: b.tag, Value: b.text}
	cxy := sortableNodeArray(nil).compare(x, y, vRFC3339)
	cyx := sortableNodeArray(nil).compare(y, x, vRFC3339)
	label := a.text + " vs " + b.text
	verifAssert((cxy < 0) == (cyx > 0) && (cxy == 0) == (cyx == 0), "C15/antisymmetric odd-numbers "+label)
	if a.hasVal && b.hasVal {
		verifAssert((cxy < 0) == (a.val < b.val) && (cxy > 0) == (a.val > b.val), "C15/agrees-numeric odd-numbers "+label)
	}
	// an integer beyond 64 bits has a numeric value for sorting; the comparison operators report an error for it
	// (not defined there), which is no disagreement
	if a.hasVal && b.hasVal && a.text != "9223372036854775808" && b.text != "9223372036854775808" {
		doc := func() *CandidateNode { return vDoc(vSeq(vS(a.tag, a.text), vS(b.tag, b.text))) }
		for _, op := range []string{"<", ">="} {
			res, err := vEval(vParse(".[0] "+op+" .[1]"), doc())
			verifAssert(err == nil && res.Len() == 1, "C15/compare-error odd-numbers "+op+" "+label)
			if err == nil && res.Len() == 1 {
				want := cxy < 0
				if op == ">=" {
					want = cxy >= 0
				}
				verifAssert(res.Front().Value.(*CandidateNode).Value == vBoolStr(want), "C15/compare-op-disagrees-with-sort odd-numbers "+op+" "+label)
			}
		}
		res, err := vEval(vParse("min"), doc())
		verifAssert(err == nil && res.Len() == 1, "C15/min-error odd-numbers "+label)
		if err == nil && res.Len() == 1 {
			want := a.text
			if cyx < 0 {
				want = b.text
			}
			verifAssert(res.Front().Value.(*CandidateNode).Value == want, "C15/min-disagrees-with-sort odd-numbers "+label)
		}
	}
	res, err := vEval(vParse("sort"), vDoc(vSeq(vS(a.tag, a.text), vS(b.tag, b.text))))
	verifAssert(err == nil && res.Len() == 1 && len(res.Front().Value.(*CandidateNode).Content) == 2, "C15/sort-error odd-numbers "+label)
	verifCover("C15/odd/end")
}

// VerifC15MinMax: min and max of a sequence of numbers or of strings are elements of it that no other element
// undercuts / exceeds under the sort comparator.
func VerifC15MinMax() {
	n := verifChoice("n", verifParam("maxn", 3)) + 1
	strs := verifChoice("strings", 2) == 1
	L := verifParam("strlen", 2)
	seq := vSeq()
	var nodes []*CandidateNode
	for i := 0; i < n; i++ {
		var c *CandidateNode
		if verifChoice("null"+verifItoa(int64(i)), 2) == 1 {
			// a null among the elements, at any position: it comes before everything else, as in sort
			c = &CandidateNode{Kind: ScalarNode, Tag: "!!null", Value: "null"}
			seq.Content = append(seq.Content, vNull())
		} else if strs {
			c = &CandidateNode{Kind: ScalarNode, Tag: "!!str", Value: verifStr("s"+verifItoa(int64(i)), L, "")}
			seq.Content = append(seq.Content, vStr(c.Value))
		} else {
			v := verifInt64("e" + verifItoa(int64(i)))
			c = &CandidateNode{Kind: ScalarNode, Tag: "!!int", Value: verifItoa(v)}
			seq.Content = append(seq.Content, vInt(c.Value))
		}
		nodes = append(nodes, c)
	}
	wantMax := verifChoice("max", 2) == 1
	op := "min"
	if wantMax {
		op = "max"
	}
	res, err := vEval(vParse(op), vDoc(seq))
	verifAssert(err == nil && res.Len() == 1, "C15/minmax-error "+op)
	if err != nil || res.Len() != 1 {
		return
	}
	r := res.Front().Value.(*CandidateNode)
	isElement := false
	for _, c := range nodes {
		isElement = verifOr(isElement, verifAnd(c.Tag == r.Tag, verifEqStr(c.Value, r.Value)))
		cmp := sortableNodeArray(nil).compare(r, c, vRFC3339)
		if wantMax {
			verifAssert(cmp >= 0, "C15/max-is-exceeded-by-an-element")
		} else {
			verifAssert(cmp <= 0, "C15/min-is-undercut-by-an-element")
		}
	}
	verifAssert(isElement, "C15/minmax-result-is-not-an-element "+op)
	verifCover("C15/minmax/end")
}

// VerifC15SortKeys: sort_keys changes key order only — same entries, keys ascending, each value still under its key.
func VerifC15SortKeys() {
	n := verifChoice("n", 4)
	m := vMap()
	var keys, vals []string
	for i := 0; i < n; i++ {
		k := verifStrN("k"+verifItoa(int64(i)), 1, "ad")
		for _, p := range keys {
			verifAssume(!verifEqStr(p, k))
		}
		v := verifStrN("v"+verifItoa(int64(i)), 1, "09")
		keys, vals = append(keys, k), append(vals, v)
		m.Content = append(m.Content, vStr(k), vInt(v))
	}
	res, err := vEval(vParse("sort_keys(.)"), vDoc(m))
	verifAssert(err == nil && res.Len() == 1, "C15/sort-keys-error")
	if err != nil || res.Len() != 1 {
		return
	}
	out := res.Front().Value.(*CandidateNode)
	verifAssert(out.Kind == MappingNode && len(out.Content) == 2*n, "C15/sort-keys-entry-count")
	if out.Kind != MappingNode || len(out.Content) != 2*n {
		return
	}
	for i := 0; i < n; i++ {
		k, v := out.Content[2*i].Value, out.Content[2*i+1].Value
		if i > 0 {
			verifAssert(verifLessStr(out.Content[2*i-2].Value, k), "C15/sort-keys-not-ascending")
		}
		found := false
		for j := range keys {
			found = verifOr(found, verifAnd(verifEqStr(keys[j], k), verifEqStr(vals[j], v)))
		}
		verifAssert(found, "C15/sort-keys-separated-a-value-from-its-key")
	}
	verifCover("C15/sortkeys/end")
}

// VerifC15SortKeysSameSpelling: keys of different type may share their spelling (1 and "1"); sort_keys keeps every
// entry (key type, key text and value together), orders by key text and keeps entries of equal text in input order.
func VerifC15SortKeysSameSpelling() {
	n := 2 + verifChoice("n", 2)
	m := vMap()
	var keys, vals []string
	var isInt []bool
	for i := 0; i < n; i++ {
		k := verifStrN("k"+verifItoa(int64(i)), 1, "09")
		ki := verifBool("int" + verifItoa(int64(i)))
		for j := range keys {
			verifAssume(verifOr(!verifEqStr(keys[j], k), isInt[j] != ki))
		}
		v := verifStrN("v"+verifItoa(int64(i)), 1, "09")
		keys, vals, isInt = append(keys, k), append(vals, v), append(isInt, ki)
		if ki {
			m.Content = append(m.Content, vInt(k), vInt(v))
		} else {
			kn := vStr(k)
			kn.Style = yaml.DoubleQuotedStyle
			m.Content = append(m.Content, kn, vInt(v))
		}
	}
	res, err := vEval(vParse("sort_keys(.)"), vDoc(m))
	verifAssert(err == nil && res.Len() == 1, "C15/sort-keys-same-spelling-error")
	if err != nil || res.Len() != 1 {
		return
	}
	out := res.Front().Value.(*CandidateNode)
	verifAssert(out.Kind == MappingNode && len(out.Content) == 2*n, "C15/sort-keys-lost-an-entry-with-a-shared-spelling")
	if out.Kind != MappingNode || len(out.Content) != 2*n {
		return
	}
	pos := make([]int, n) // position in the output of input entry j
	for j := 0; j < n; j++ {
		found := false
		for i := 0; i < n; i++ {
			k, v := out.Content[2*i], out.Content[2*i+1]
			if (k.Tag == "!!int") == isInt[j] && verifEqStr(k.Value, keys[j]) && verifEqStr(v.Value, vals[j]) {
				found = true
				pos[j] = i
			}
		}
		verifAssert(found, "C15/sort-keys-entry-missing-or-separated-from-its-value")
		if !found {
			return
		}
	}
	for i := 1; i < n; i++ {
		verifAssert(!verifLessStr(out.Content[2*i].Value, out.Content[2*i-2].Value), "C15/sort-keys-not-ascending")
	}
	for a := 0; a < n; a++ {
		for b := a + 1; b < n; b++ {
			if verifEqStr(keys[a], keys[b]) {
				verifAssert(pos[a] < pos[b], "C15/sort-keys-equal-spellings-reordered")
			}
		}
	}
	verifCover("C15/sortkeys-same-spelling/end")
}


// c15ExactCmpIntFloat: the exact numeric order of an int64 and a finite float64 (no rounding anywhere: the float is
// split into its integral part, which fits an int64 whenever the float lies inside the int64 range, and the rest).
func c15ExactCmpIntFloat(i int64, f float64) int {
	if f >= 9223372036854775808.0 {
		return -1
	}
	if f < -9223372036854775808.0 {
		return 1
	}
	t := int64(f) // truncation toward zero, exact inside the range
	if i < t {
		return -1
	}
	if i > t {
		return 1
	}
	rest := f - float64(t) // exact: |rest| < 1 and representable
	if rest > 0 {
		return -1
	}
	if rest < 0 {
		return 1
	}
	return 0
}

type c15Num struct {
	node  *CandidateNode
	isInt bool
	i     int64
	f     float64
}

func c15Number(name string, isInt bool) c15Num {
	if isInt {
		i := verifInt64(name)
		return c15Num{node: &CandidateNode{Kind: ScalarNode, Tag: "!!int", Value: verifItoa(i)}, isInt: true, i: i}
	}
	f := math.Float64frombits(uint64(verifInt64(name)))
	verifAssume(!math.IsNaN(f) && !math.IsInf(f, 0))
	return c15Num{node: &CandidateNode{Kind: ScalarNode, Tag: "!!float", Value: verifFtoa(f)}, f: f}
}

func c15ExactCmp(a, b c15Num) int {
	switch {
	case a.isInt && b.isInt:
		if a.i < b.i {
			return -1
		} else if a.i > b.i {
			return 1
		}
		return 0
	case a.isInt:
		return c15ExactCmpIntFloat(a.i, b.f)
	case b.isInt:
		return -c15ExactCmpIntFloat(b.i, a.f)
	}
	if a.f < b.f {
		return -1
	} else if a.f > b.f {
		return 1
	}
	return 0
}

func c15Sign(c int) int {
	if c < 0 {
		return -1
	} else if c > 0 {
		return 1
	}
	return 0
}

// VerifC15IntFloat: "numbers by numeric value whatever their spelling" for every 64-bit integer against every finite
// float64 (both solver variables; the float is the float-format text of an arbitrary bit pattern): the sort
// comparator is antisymmetric, agrees with the exact numeric order, and `<` / `>=` agree with it.
func VerifC15IntFloat() {
	kinds := verifChoice("kinds", 3) // int-float, float-int, float-float
	a := c15Number("a", kinds == 0)
	b := c15Number("b", kinds == 1)
	label := []string{"int-float", "float-int", "float-float"}[kinds]
	cab := c15Sign(sortableNodeArray(nil).compare(a.node, b.node, vRFC3339))
	cba := c15Sign(sortableNodeArray(nil).compare(b.node, a.node, vRFC3339))
	verifAssert(cab == -cba, "C15/antisymmetric number-spellings "+label)
	want := c15ExactCmp(a, b)
	verifAssert(cab == want, "C15/agrees-numeric number-spellings "+label)
	lt, err := compareScalars(Context{}, compareTypePref{OrEqual: false, Greater: false}, a.node, b.node)
	verifAssert(err == nil && lt == (want < 0), "C15/less-than-disagrees-with-numeric-order "+label)
	ge, err := compareScalars(Context{}, compareTypePref{OrEqual: true, Greater: true}, a.node, b.node)
	verifAssert(err == nil && ge == (want >= 0), "C15/greater-or-equal-disagrees-with-numeric-order "+label)
	verifCover("C15/intfloat/end")
}

// VerifC15Timestamps: time stamps (finite set of spellings: UTC, numeric zone offsets on either side, date only) —
// the sort comparator is antisymmetric and follows the instants, and `<`, `<=`, `>`, `>=` agree with it; two
// spellings of one instant are equal under all of them.
func VerifC15Timestamps() {
	stamps := []string{"2021-01-01T00:00:00Z", "2021-01-01T05:30:00+05:30", "2020-12-31T17:00:00-07:00", "2021-01-01T00:00:00+00:00",
		"2021-01-01T00:00:01Z", "2020-12-31T23:59:59Z", "2021-01-01", "2021-01-01T01:00:00+01:00", "2021-01-02T00:00:00+13:00"}
	secs := []int64{0, 0, 0, 0, 1, -1, 0, 0, 39600}
	i, j := verifChoice("x", len(stamps)), verifChoice("y", len(stamps))
	x := &CandidateNode{Kind: ScalarNode, Tag: "!!timestamp", Value: stamps[i]}
	y := &CandidateNode{Kind: ScalarNode, Tag: "!!timestamp", Value: stamps[j]}
	label := stamps[i] + " vs " + stamps[j]
	cxy := c15Sign(sortableNodeArray(nil).compare(x, y, vRFC3339))
	cyx := c15Sign(sortableNodeArray(nil).compare(y, x, vRFC3339))
	want := 0
	if secs[i] < secs[j] {
		want = -1
	} else if secs[i] > secs[j] {
		want = 1
	}
	verifAssert(cxy == -cyx, "C15/antisymmetric timestamps "+label)
	verifAssert(cxy == want, "C15/agrees-with-instants timestamps "+label)
	ctx := Context{}
	ctx.SetDateTimeLayout(vRFC3339)
	for _, op := range []struct {
		name           string
		orEqual, great bool
		want           bool
	}{{"<", false, false, want < 0}, {"<=", true, false, want <= 0}, {">", false, true, want > 0}, {">=", true, true, want >= 0}} {
		got, err := compareScalars(ctx, compareTypePref{OrEqual: op.orEqual, Greater: op.great}, x, y)
		verifAssert(err == nil, "C15/compare-error timestamps "+op.name+" "+label)
		if err == nil {
			verifAssert(got == op.want, "C15/compare-op-disagrees-with-instants timestamps "+op.name+" "+label)
		}
	}
	verifCover("C15/timestamps/end")
}

// VerifC15Aliases: an alias stands for its anchored node, also as an element that is sorted or compared:
//   x: &x V   s: [*x, A, B]
// `.s | sort`, min, max and `.s[0] < .s[1]` give what they give on the exploded document.
func VerifC15Aliases() {
	v, a, b := verifInt64("v"), verifInt64("a"), verifInt64("b")
	build := func() *CandidateNode {
		x := vInt(verifItoa(v))
		x.Anchor = "x"
		return vDoc(vMap(vStr("x"), x, vStr("s"), vSeq(&yaml.Node{Kind: yaml.AliasNode, Value: "x", Alias: x}, vInt(verifItoa(a)), vInt(verifItoa(b)))))
	}
	ops := []string{".s | sort", ".s | min", ".s | max", ".s[0] < .s[1]", ".s[1] >= .s[0]", ".s | sort_by(.)", ".s | unique | length"}
	oi := verifChoice("op", len(ops))
	label := "op=" + ops[oi]
	plain, err1 := vEval(vParse(ops[oi]+" | explode(.)"), build())
	exploded, err2 := vEval(vParse("explode(.) | "+ops[oi]), build())
	verifAssert((err1 == nil) == (err2 == nil), "C15/operator-fails-on-an-alias-element-only "+label)
	if err1 != nil || err2 != nil {
		verifCover("C15/aliases/error")
		return
	}
	verifAssert(verifEqStr(vDumpList(plain), vDumpList(exploded)), "C15/alias-element-not-ordered-as-what-it-stands-for "+label)
	verifCover("C15/aliases/end")
}

// VerifC15SortByManyKeys: sort_by with an expression that yields a different NUMBER of keys per element
// (`sort_by(.t[])`): the key lists are ordered lexicographically, a proper prefix before its extensions - one total
// preorder, so the result is ordered, stable and a permutation whatever the arrangement of the input.
func VerifC15SortByManyKeys() {
	n := 2 + verifChoice("n", verifParam("manyn", 2))
	seq := vSeq()
	lens := make([]int, n)
	keys := make([][2]int64, n)
	for i := 0; i < n; i++ {
		lens[i] = verifChoice("len"+verifItoa(int64(i)), 3)
		t := vSeq()
		for j := 0; j < lens[i]; j++ {
			d := verifStrN("k"+verifItoa(int64(i))+verifItoa(int64(j)), 1, "02")
			keys[i][j], _ = parseInt64ForHarness(d)
			t.Content = append(t.Content, vInt(d))
		}
		seq.Content = append(seq.Content, vMap(vStr("t"), t, vStr("id"), vInt(verifItoa(int64(i)))))
	}
	res, err := vEval(vParse("sort_by(.t[])"), vDoc(seq))
	verifAssert(err == nil && res.Len() == 1, "C15/sort-error many-keys")
	if err != nil || res.Len() != 1 {
		return
	}
	out := res.Front().Value.(*CandidateNode)
	verifAssert(len(out.Content) == n, "C15/sort-length many-keys")
	if len(out.Content) != n {
		return
	}
	// lexicographic order of the key lists, a prefix first: -1, 0, 1 as a solver term per pair
	less := func(a, b int) (lt bool, eq bool) {
		la, lb := lens[a], lens[b]
		lt, eq = false, true
		for j := 0; j < 2; j++ {
			if j >= la || j >= lb {
				break
			}
			lt = verifOr(lt, verifAnd(eq, keys[a][j] < keys[b][j]))
			eq = verifAnd(eq, keys[a][j] == keys[b][j])
		}
		m := la
		if lb < m {
			m = lb
		}
		_ = m
		if la < lb {
			lt = verifOr(lt, eq)
			eq = false
		} else if la > lb {
			eq = false
		}
		return
	}
	used := make([]bool, n)
	prev := -1
	for i := 0; i < n; i++ {
		el := out.Content[i]
		id64, _ := parseInt(el.Content[3].Value)
		id := verifConcreteInt(id64, 0, n-1)
		verifAssert(!used[id], "C15/sort-permutation many-keys")
		used[id] = true
		if prev >= 0 {
			gt, _ := less(id, prev)
			verifAssert(!gt, "C15/sort-ordered many-keys")
			_, eq := less(prev, id)
			verifAssert(verifImplies(eq, prev < id), "C15/sort-stable many-keys")
		}
		prev = id
	}
	verifCover("C15/sort-many-keys/end")
}
