package yqlib

import (
	"bufio"
	"container/list"
	"encoding/xml"
	"io"
	"strings"

	"github.com/alecthomas/participle/v2/lexer"
	yaml "gopkg.in/yaml.v3"
)

// C11 — every input is answered with a result or an error, never a crash or a hang (yq's own code).
//
// The engine turns every Go runtime check (nil dereference, index/slice bounds, failed type assertion,
// division by zero, explicit panic) into a proof obligation and every loop into an unwinding assertion, so a
// harness here only has to drive the code: any feasible panic is reported with the input that triggers it.

// ---- (1) operator handlers over documents of every root kind, incl. empty ones, with symbolic indices ----

var c11Docs = []string{"null", "scalar-int", "scalar-str", "empty-seq", "empty-map", "seq-ints", "seq-mixed-numbers", "map", "seq-of-maps", "nested", "seq-with-null", "merge-inline-map", "merge-list-with-inline-map", "merge-scalar", "alias-to-scalar-as-merge",
	"alias-of-anchored-null", "alias-of-anchored-scalar", "aliases-of-containers-in-a-sequence", "tag-and-kind-disagree", "seq-of-maps-keys-and-values-swapped", "seq-of-sequences-tagged-map", "seq-of-maps-tagged-seq"}

func c11Doc(which int, x string) *CandidateNode {
	var n *yaml.Node
	switch which {
	case 0:
		n = vNull()
	case 1:
		n = vInt(x)
	case 2:
		n = vStr("s" + x)
	case 3:
		n = vSeq()
	case 4:
		n = vMap()
	case 5:
		n = vSeq(vInt(x), vInt("2"), vInt("1"))
	case 6:
		n = vSeq(vInt("1"), vInt("0x1"+x), vS("!!float", "2.5"), vInt("0o7"))
	case 7:
		n = vMap(vStr("a"), vInt(x), vStr("b"), vStr("t"))
	case 8:
		n = vSeq(vMap(vStr("a"), vInt(x)), vMap(vStr("a"), vInt("0"), vStr("b"), vNull()))
	case 9:
		n = vMap(vStr("a"), vSeq(vInt(x), vSeq(vInt("2"))), vStr("b"), vMap(vStr("c"), vNull()))
	case 10:
		n = vSeq(vNull(), vInt(x))
	case 11: // `<<: {b: 1}`: a merge key whose value is a mapping written in place, not an alias
		n = vMap(vStr("a"), vMap(&yaml.Node{Kind: yaml.ScalarNode, Tag: "!!merge", Value: "<<"}, vMap(vStr("b"), vInt(x)), vStr("c"), vInt("2")))
	case 12: // `<<: [*m, {b: 1}]`
		m := vMap(vStr("d"), vInt("4"))
		m.Anchor = "m"
		n = vMap(vStr("m"), m, vStr("a"), vMap(&yaml.Node{Kind: yaml.ScalarNode, Tag: "!!merge", Value: "<<"},
			vSeq(&yaml.Node{Kind: yaml.AliasNode, Value: "m", Alias: m}, vMap(vStr("b"), vInt(x))), vStr("c"), vInt("2")))
	case 13: // `<<: 5`
		n = vMap(vStr("a"), vMap(&yaml.Node{Kind: yaml.ScalarNode, Tag: "!!merge", Value: "<<"}, vInt(x)))
	case 14: // `<<: *s` where s anchors a scalar
		sc := vInt(x)
		sc.Anchor = "s"
		n = vMap(vStr("s"), sc, vStr("a"), vMap(&yaml.Node{Kind: yaml.ScalarNode, Tag: "!!merge", Value: "<<"}, &yaml.Node{Kind: yaml.AliasNode, Value: "s", Alias: sc}))
	case 15: // an anchor on a null value (`n: &x ~`, also the empty `n: &x`) and aliases of it
		nn := vNull()
		if x == "1" {
			nn.Value = "~"
		} else if x == "3" {
			nn.Value = ""
		}
		nn.Anchor = "x"
		al := func() *yaml.Node { return &yaml.Node{Kind: yaml.AliasNode, Value: "x", Alias: nn} }
		n = vMap(vStr("n"), nn, vStr("a"), al(), vStr("b"), vSeq(al()), vStr("c"), vMap(vStr("d"), al()))
	case 16:
		sc := vStr("t" + x)
		sc.Anchor = "y"
		al := func() *yaml.Node { return &yaml.Node{Kind: yaml.AliasNode, Value: "y", Alias: sc} }
		n = vMap(vStr("s"), sc, vStr("a"), al(), vStr("b"), vMap(vStr("c"), al()))
	case 17:
		sq := vSeq(vInt(x))
		sq.Anchor = "z"
		em := vMap()
		em.Anchor = "e"
		n = vSeq(sq, &yaml.Node{Kind: yaml.AliasNode, Value: "z", Alias: sq}, em, &yaml.Node{Kind: yaml.AliasNode, Value: "e", Alias: em})
	case 18: // `[!!map [1], !!seq {a: 1}, !!str [2]]`: explicit tags that disagree with the node kind
		a := vSeq(vInt(x))
		a.Tag = "!!map"
		b := vMap(vStr("a"), vInt("1"))
		b.Tag = "!!seq"
		c := vSeq(vInt("2"))
		c.Tag = "!!str"
		n = vSeq(a, b, c)
	case 19: // maps whose keys are the values of the other one
		n = vSeq(vMap(vStr("a"), vStr("b")), vMap(vStr("b"), vStr("a")), vMap(vStr("a"), vStr("b"), vStr("b"), vStr("c")))
	case 20: // `[!!map [1], !!map [1, 2, 3]]`
		a, b := vSeq(vInt(x)), vSeq(vInt("1"), vInt("2"), vInt("3"))
		a.Tag, b.Tag = "!!map", "!!map"
		n = vSeq(a, b)
	default: // `[!!seq {a: 1}, !!seq {}]`
		a, b := vMap(vStr("a"), vInt(x)), vMap()
		a.Tag, b.Tag = "!!seq", "!!seq"
		n = vSeq(a, b)
	}
	return vDoc(n)
}

var c11Exprs = []string{
	".[7770001:7770002]", ".[7770001:]", ".[0:7770002]", ".[7770001]", ".a[7770001]", ".[7770001].a", "del(.[7770001])", ".[7770001] = 1", ".[7770001] |= . + 1",
	"sort", "sort_by(.a)", "sort_by(.)", "unique", "unique_by(.a)", "group_by(.a)", "reverse", "flatten", "flatten(0)", "min", "max", "any", "all", "length", "keys", "to_entries", "from_entries", "with_entries(.)",
	"map(.a)", "map_values(. + 1)", "pick([\"a\"])", "pick([7770001])", "omit([\"a\"])", "omit([7770001])", "has(\"a\")", "has(7770001)", "contains(1)", "contains([1])", "join(\",\")", "split(\",\")", ". + 1", ". - 1", ". * 2", ". / 2", ". % 2", ". % 0", ". / 0",
	". + [1]", ". - [1]", ". * {\"a\": 1}", ". + {\"a\": 1}", ". + \"s\"", ". * \"s\"", ". // 1", ". == 1", ". < 1", ". >= \"a\"", ". and true", ". or false", "not", "select(. == 1)", "..", "...", ".[]", ".[] as $x | $x", ".[] as $i ireduce (0; . + $i)",
	"{(.a): 1}", "{\"k\": .[]}", "[.[] | .a]", "to_number", "to_string", "upcase", "trim", "test(\"a\")", "sub(\"a\", \"b\")", "match(\"a\")", "capture(\"(?P<n>a)\")", "path", "parent", "parent(2)", "key", "tag", "kind", "style", "anchor", "alias", "line", "column",
	"explode(.)", "splitDoc", "document_index", "filename", "pivot", "array_to_map", "sort_keys(.)", "sort_keys(..)", "del(.a)", "del(.[])", "del(..)", ".a = .b", ".. |= .", ".[] += 1", "with(.a; . = 1)", "setpath([\"a\", 7770001]; 1)", "delpaths([[\"a\"]])", "eval(\".a\")",
	"(.a, .b) = 1", ".a.b.c = 1", ".[\"a\"]", ".a?", ".[]?", ".a[]?", ". tag = \"!!str\"", ". style=\"flow\"", ". anchor = \"x\"", ".a alias = \"x\"", ". line_comment = \"c\"", "... comments=\"\"", "to_entries | from_entries", "[.[] | select(.a == 1)]",
	// operands that are sequences of maps, maps of maps; values reached through aliases
	". - [{\"b\": \"a\"}]", ". - [.[0]]", "[.[0]] - .", "contains([{\"b\": \"c\"}])", ".[0] | contains({\"b\": \"a\"})", "unique_by(.b)", ".[] |= . + {\"z\": 1}", ".a.b", ".a[0]", ".a[]", ".a.b = 1", ".b[0].c", ".c.d.e", ".a |= . + 1",
	"(.a | alias) as $n | .", ".x alias = \"nope\" | .x.y", ".a alias = \"x\" | .a.b", ".a alias = \"x\" | .a[0]", ".a alias = \"x\" | .a[]", ".a alias = \"x\" | .a[1:]", ".a alias = \"x\" | .a | length",
	".a alias = \"x\" | .a | keys", ".a alias = \"x\" | explode(.)", ".a alias = \"x\" | .a + 1", ".a alias = \"x\" | [.a] | sort", ".a alias = \"x\" | .a == 1", ".a alias = \"x\" | .. | tag", ".[] | keys", ".[] | length", ".[] | to_entries", "map(pivot)", ".[] | pivot", "[.[] | tag]", ".[] | sort_keys(.)", ".[] | flatten", ".[] | reverse", ".[] | has(0)", ".[] | has(\"a\")",
}

func VerifC11Operators() {
	e := verifChoice("expr", len(c11Exprs))
	if only := verifParam("only", -1); only >= 0 && only != e {
		return
	}
	if c11Exprs[e] == "" {
		return
	}
	d := verifChoice("doc", len(c11Docs))
	x := []string{"0", "1", "3"}[verifChoice("x", 3)]
	exp := vParse(c11Exprs[e])
	// indices are solver variables where the document is (or may become) a sequence; against maps an index is
	// matched as a key pattern, which needs its digits: there a few concrete values are used instead
	seqLike := d == 0 || d == 3 || d == 5 || d == 6 || d == 8 || d == 10 || d >= 17
	if d >= 11 && d <= 14 && e%4 != 0 && !strings.Contains(c11Exprs[e], "explode") && !strings.Contains(c11Exprs[e], "..") && !strings.Contains(c11Exprs[e], ".a") {
		return // merge-key documents: a quarter of the expressions plus everything that explodes, recurses or reads .a
	}
	idx := func(name string) string {
		if seqLike && !strings.Contains(c11Exprs[e], ".a[") && !strings.Contains(c11Exprs[e], "\"a\", 777") {
			return verifItoa(int64(verifIntRange(name, -5, 5)))
		}
		return []string{"-4", "-1", "0", "1", "4"}[verifChoice(name, 5)]
	}
	if vSubst(exp, "7770001", "!!int", "7770001") > 0 {
		vSubst(exp, "7770001", "!!int", idx("i"))
	}
	if vSubst(exp, "7770002", "!!int", "7770002") > 0 {
		vSubst(exp, "7770002", "!!int", idx("j"))
	}
	doc := c11Doc(d, x)
	// any panic inside is the finding; an error or a result are both fine
	res, err := vEval(exp, doc)
	if err == nil {
		_ = vDumpList(res)
		verifCover("C11/operators/result")
	} else {
		verifCover("C11/operators/error")
	}
	verifCover("C11/operators/end")
}

// ---- (2) the parser pipeline over token sequences built by the real rule actions ----

var c11TokenClasses = []string{"1", ".a", ".", "+", "|", ",", "=", "|=", ":", "(", ")", "[", "]", ".[", "{", "}", "select", "length", "\"s\"", "$v", "as", "..", "-", "*"}

func c11RawToken(cls int) *token {
	raw := c11TokenClasses[cls]
	var a yqAction
	switch raw {
	case "1":
		a = numberValue()
	case ".a":
		a = pathToken(false)
	case ".":
		a = opToken(selfReferenceOpType)
	case "+":
		a = opToken(addOpType)
	case "|":
		a = opToken(pipeOpType)
	case ",":
		a = opToken(unionOpType)
	case "=":
		a = assignOpToken(false)
	case "|=":
		a = assignOpToken(true)
	case ":":
		a = opToken(createMapOpType)
	case "(":
		a = literalToken(openBracket, false)
	case ")":
		a = literalToken(closeBracket, true)
	case "[":
		a = literalToken(openCollect, false)
	case "]":
		a = literalToken(closeCollect, true)
	case ".[":
		a = literalToken(traverseArrayCollect, false)
	case "{":
		a = literalToken(openCollectObject, false)
	case "}":
		a = literalToken(closeCollectObject, true)
	case "select":
		a = opToken(selectOpType)
	case "length":
		a = opToken(lengthOpType)
	case "\"s\"":
		a = stringValue()
	case "$v":
		a = getVariableOpToken()
	case "as":
		a = opTokenWithPrefs(assignVariableOpType, nil, assignVarPreferences{})
	case "..":
		a = recursiveDecentOpToken(false)
	case "-":
		a = opToken(subtractOpType)
	default:
		a = multiplyWithPrefs(multiplyOpType)
	}
	t, err := a(lexer.Token{Value: raw})
	if err != nil {
		verifFail("C11/token-action-error")
	}
	return t
}

func VerifC11Tokens() {
	n := verifChoice("len", verifParam("maxlen", 3)) + 1
	var toks []*token
	for i := 0; i < n; i++ {
		toks = append(toks, c11RawToken(verifChoice("t"+verifItoa(int64(i)), len(c11TokenClasses))))
	}
	p := &expressionParserImpl{pathPostFixer: newExpressionPostFixer()}
	ops, err := p.pathPostFixer.ConvertToPostfix(postProcessTokens(toks))
	if err == nil {
		tree, err2 := p.createExpressionTree(ops)
		if err2 == nil && tree != nil {
			// a parsed tree must also evaluate without crashing
			_, _ = vEval(tree, c11Doc(9, "1"))
			verifCover("C11/tokens/parsed")
		}
	}
	verifCover("C11/tokens/end")
}

// ---- (3) decoder glue over library event streams: XML ----

// verifXMLDecoder stands in for *xml.Decoder (decoder_xml.go is loaded with xml.NewDecoder( redirected here).
// It delivers an arbitrary token sequence: under RawToken the library checks no nesting at all.
type verifXMLDecoder struct {
	Strict        bool
	CharsetReader func(label string, input io.Reader) (io.Reader, error)
	toks          []xml.Token
	pos           int
	real          *xml.Decoder // set when the harness asks for the library's own tokenizer over the input text
}

var verifXMLTokens []xml.Token

// verifXMLReal: hand decodeXML the real encoding/xml decoder (interpreted from its SSA) instead of a token stub.
var verifXMLReal bool

func verifXMLNewDecoder(r io.Reader) *verifXMLDecoder {
	if verifXMLReal {
		return &verifXMLDecoder{real: xml.NewDecoder(r)}
	}
	return &verifXMLDecoder{toks: verifXMLTokens}
}

func (d *verifXMLDecoder) RawToken() (xml.Token, error) {
	if d.real != nil {
		d.real.Strict = d.Strict
		return d.real.RawToken()
	}
	if d.pos >= len(d.toks) {
		return nil, io.EOF
	}
	t := d.toks[d.pos]
	d.pos++
	return t, nil
}
func (d *verifXMLDecoder) Token() (xml.Token, error) {
	if d.real != nil {
		d.real.Strict = d.Strict
		return d.real.Token()
	}
	return d.RawToken()
}

var c11XMLKinds = []string{"start-a", "start-b-attr", "end", "chardata", "blank-chardata", "comment", "procinst", "directive"}

func c11XMLToken(kind int) xml.Token {
	switch kind {
	case 0:
		return xml.StartElement{Name: xml.Name{Local: "a"}}
	case 1:
		return xml.StartElement{Name: xml.Name{Local: "b"}, Attr: []xml.Attr{{Name: xml.Name{Local: "id"}, Value: "1"}}}
	case 2:
		return xml.EndElement{Name: xml.Name{Local: "a"}}
	case 3:
		return xml.CharData([]byte("text"))
	case 4:
		return xml.CharData([]byte(" \n"))
	case 5:
		return xml.Comment([]byte(" c "))
	case 6:
		return xml.ProcInst{Target: "xml", Inst: []byte("version=\"1.0\"")}
	default:
		return xml.Directive([]byte("DOCTYPE x"))
	}
}

// VerifC11XML: decodeXML + convertToYamlNode over every token sequence up to the length bound.
func VerifC11XML() {
	n := verifChoice("len", verifParam("maxlen", 4)+1)
	verifXMLTokens = nil
	balanced := true
	depth := 0
	for i := 0; i < n; i++ {
		k := verifChoice("k"+verifItoa(int64(i)), len(c11XMLKinds))
		verifXMLTokens = append(verifXMLTokens, c11XMLToken(k))
		if k == 0 || k == 1 {
			depth++
		}
		if k == 2 {
			depth--
			if depth < 0 {
				balanced = false
			}
		}
	}
	dec := NewXMLDecoder(ConfiguredXMLPreferences)
	_ = dec.Init(nil)
	node, err := dec.Decode()
	if err == nil && node != nil {
		_ = vDumpFull(node)
		verifCover("C11/xml/decoded")
	}
	if !balanced {
		verifCover("C11/xml/unbalanced")
	}
	verifCover("C11/xml/end")
}

// ---- (4) arbitrary input bytes: CSV / TSV ----

// VerifC11CSVBytes: every byte sequence up to the bound through utfbom.Skip, the interpreted encoding/csv Reader
// and yq's object decoder (header row, short and long records, quotes opened and never closed, bare CR, BOM
// prefixes): a result or an error, never a panic or an endless loop.
func VerifC11CSVBytes() {
	s := verifStr("csv", verifParam("maxlen", 4), "")
	prefs := NewDefaultCsvPreferences()
	if verifChoice("tsv", 2) == 1 {
		prefs = NewDefaultTsvPreferences()
	}
	prefs.AutoParse = false // cell text is not handed to the YAML parser (native library)
	dec := NewCSVObjectDecoder(prefs)
	if err := dec.Init(strings.NewReader(s)); err != nil {
		verifCover("C11/csv/init-error")
		return
	}
	for i := 0; i < 4; i++ {
		n, err := dec.Decode()
		if err != nil {
			verifCover("C11/csv/error-or-eof")
			break
		}
		verifAssert(n != nil, "C11/csv-decode-returned-nil-without-error")
		verifCover("C11/csv/decoded")
	}
	verifCover("C11/csv/end")
}

// ---- (5) expression strings ----

var c11ExprAlphabet = []string{".", "a", "[", "]", "(", ")", "|", ",", "\"", "1", " ", "*", "{", "}", ":", "$", "=", "-", "+", "/", "?", "#", "\n", "<", "!", "@", "%", "\\"}

// VerifC11ExprStrings: every expression string up to the length bound over an alphabet of the characters the
// lexer rules key on goes through the lexer (engine model over the real rule table), the real token actions,
// post-processing, shunting-yard and tree builder, and — when it parses — is evaluated on a small document:
// an answer or an error, never a panic.
func VerifC11ExprStrings() {
	n := verifChoice("len", verifParam("maxlen", 3)) + 1
	text := ""
	for i := 0; i < n; i++ {
		text += c11ExprAlphabet[verifChoice("c"+verifItoa(int64(i)), len(c11ExprAlphabet))]
	}
	InitExpressionParser()
	tree, err := ExpressionParser.ParseExpression(text)
	if err != nil {
		verifCover("C11/exprs/rejected")
		return
	}
	if tree != nil {
		_, _ = vEval(tree, c11Doc(9, "1"))
		_, _ = vEval(tree, c11Doc(5, "1"))
	}
	verifCover("C11/exprs/parsed")
}

// ---- (6) operators that carry a number in their spelling ----

var c11ParamNames = []string{"flatten", "to_yaml", "toyaml", "to_xml", "toxml", "to_json", "tojson", "parent", "to_props", "sort_by", "has", "pick", "omit", "split", "join"}
var c11ParamFill = []string{"", "0", "1", "12", "007", "99999999999999999999", "-1", " 0", "0 ", " 0 ", "\t2", "2\t", "1 2", "a", "1,2", "0x2", "1.5", "\"1\"", " "}

// VerifC11ParamOps: NAME(ARG) for every operator whose lexer rule reads a number out of its own spelling — and a few
// that take an expression — with digits, blanks, signs, overflowing and non-numeric text between the parentheses:
// the lexer rule (real pattern, engine model), the rule's token action (extractNumberParameter and friends), the
// parser and the evaluator answer or refuse, they do not panic.
func VerifC11ParamOps() {
	name := c11ParamNames[verifChoice("name", len(c11ParamNames))]
	fill := c11ParamFill[verifChoice("arg", len(c11ParamFill))]
	prefix := []string{"", ".a | ", ".[] | "}[verifChoice("prefix", 3)]
	text := prefix + name + "(" + fill + ")"
	InitExpressionParser()
	tree, err := ExpressionParser.ParseExpression(text)
	if err != nil {
		verifCover("C11/params/rejected")
		return
	}
	if tree != nil {
		_, _ = vEval(tree, c11Doc(9, "1"))
		_, _ = vEval(tree, c11Doc(5, "1"))
	}
	verifCover("C11/params/parsed")
}

// VerifC11Encoders: every output format, with its preference flags chosen by the solver, applied to results of every
// small shape — empty keys, empty strings, nulls, empty and nested collections, scalars at the root — gives output or
// an error, never a crash.
func VerifC11Encoders() {
	k := verifStr("k", 1, "az__09")
	v := verifStr("v", 1, "az  ")
	var n *yaml.Node
	switch verifChoice("shape", 10) {
	case 0:
		n = vMap(vStr(k), vStr(v))
	case 1:
		n = vMap(vStr(k), vMap(vStr(""), vStr(v)))
	case 2:
		n = vMap(vStr(k), vSeq(vStr(v), vNull(), vMap()))
	case 3:
		n = vSeq(vMap(vStr(k), vStr(v)), vMap(vStr(""), vNull()))
	case 4:
		n = vStr(v)
	case 5:
		n = vNull()
	case 6:
		n = vSeq()
	case 7:
		n = vMap()
	case 8:
		n = vSeq(vSeq(vStr(v), vStr(k)), vSeq())
	default:
		n = vMap(vInt("1"), vStr(v), vS("!!bool", "true"), vSeq(vStr(k)), vNull(), vStr("x"))
	}
	var enc Encoder
	switch verifChoice("format", 8) {
	case 0:
		enc = NewLuaEncoder(LuaPreferences{DocPrefix: "return ", DocSuffix: ";\n", UnquotedKeys: verifBool("unquoted"), Globals: verifBool("globals")})
	case 1:
		enc = NewPropertiesEncoder(PropertiesPreferences{UnwrapScalar: verifBool("unwrap"), KeyValueSeparator: " = ", UseArrayBrackets: verifBool("brackets")})
	case 2:
		enc = NewShellVariablesEncoder()
	case 3:
		enc = NewCsvEncoder(ConfiguredCsvPreferences)
	case 4:
		enc = NewCsvEncoder(ConfiguredTsvPreferences)
	case 5:
		prefs := NewDefaultXmlPreferences()
		prefs.Indent = verifChoice("indent", 2) * 2
		enc = NewXMLEncoder(prefs)
	case 6:
		enc = NewTomlEncoder()
	default:
		enc = NewUriEncoder() // (base64 runs in a native library on concrete text only: C14)
	}
	var sb strings.Builder
	w := bufio.NewWriter(c17Writer{&sb})
	printer := NewPrinter(enc, NewSinglePrinterWriter(w))
	doc := vDoc(n)
	if verifChoice("unresolvedAlias", 2) == 1 {
		// `alias = "name"` makes a node an alias whose target is only known once the output is read again
		if _, err := vEval(vParse("(.. | select(tag == \"!!str\")) alias = \"later\""), doc); err != nil {
			return
		}
	}
	if err := printer.PrintResults(doc.AsList()); err != nil {
		verifCover("C11/encoders/error")
	} else {
		verifCover("C11/encoders/output")
	}
	// the run goes on: the same printer and encoder write the next documents (counters an encoder keeps between
	// documents - an indent level, a "first document" flag - must not run away)
	for i := 1; i <= 2; i++ {
		next := vDocAt(vMap(vStr("p"), vInt("1"), vStr("q"), vMap(vStr("r"), vSeq(vInt("2")))), uint(i), 0, "f.yml")
		_ = printer.PrintResults(next.AsList())
	}
	verifCover("C11/encoders/end")
}

// VerifC11EncodeBytes: the in-expression encoders on text that is not valid UTF-8 (what csv/tsv/properties input,
// @base64d, @urid, strenv and load_str deliver): a stray 0xFF, truncated and overlong sequences, surrogates, at the
// start, in the middle and at the END of the string (an optional ASCII byte on either side): a result or an
// error, never a crash.
func VerifC11EncodeBytes() {
	mids := []string{"\xff", "a\xffb", "\xc3\xa9", "\xc3", "\xe2\x82", "\xe2\x82\xac", "'\xff", "\xff'", "\xf0\x9f", "\x80a",
		"\xc3\xa9'\xfe x", "\xc0\xaf", "\xed\xa0\x80", "\xf4\x90\x80\x80", "\xef\xbf\xbd", "\xff\xfe\xfd", "caf\xe9", "\xe9"}
	mid := mids[verifChoice("mid", len(mids))]
	text := []string{"", "a"}[verifChoice("p", 2)] + mid + []string{"", "a", "'"}[verifChoice("q", 3)]
	ops := []string{"@sh", "@uri", "[.] | @csv", "[.] | @tsv", "{\"k\": .} | to_props", "{\"k\": .} | to_xml", "@urid", "{(.): 1} | to_props", "{\"k\": .} | to_yaml | length"}
	op := ops[verifChoice("op", len(ops))]
	if _, err := vEval(vParse(op), vDoc(vStr(text))); err != nil {
		verifCover("C11/encode-bytes/error")
	}
	verifCover("C11/encode-bytes/end")
}

// VerifC11SelfReferences: YAML lets an alias stand inside the node its anchor names (a: &a {<<: *a}). yq's operators
// follow aliases and merge keys by plain recursion (traverse, explode, the JSON and properties encoders), so such a
// document must not reach them as a cyclic graph: either the decoder rejects it or the graph it builds is acyclic
// (bounded walk through Content and Alias), and then the usual operators run on it (result or error).
func VerifC11SelfReferences() {
	texts := []string{"a: &a {<<: *a}\n", "a: &a {b: *a}\n", "a: &a [*a]\n", "a: &a {k: {<<: *a}}\n", "&r {a: *r}\n", "a: &a {<<: [*a]}\n", "a: &a [[*a], 1]\n", "a: &a {? *a : 1}\n",
		"a: &a 1\nb: *a\n", "a: &a {x: 1}\nb: {<<: *a}\n", "a: &a {x: &a 1, y: *a}\n"}
	ti := verifChoice("text", len(texts))
	dec := NewYamlDecoder(NewDefaultYamlPreferences())
	if dec.Init(strings.NewReader(texts[ti])) != nil {
		verifFail("C11/decoder-init")
	}
	doc, err := dec.Decode()
	if err != nil {
		verifCover("C11/self-reference/rejected")
		return
	}
	var depth func(n *CandidateNode, d int) bool
	depth = func(n *CandidateNode, d int) bool {
		if n == nil {
			return true
		}
		if d > 40 {
			return false
		}
		if n.Kind == AliasNode && !depth(n.Alias, d+1) {
			return false
		}
		for _, c := range n.Content {
			if !depth(c, d+1) {
				return false
			}
		}
		return true
	}
	acyclic := depth(doc, 0)
	verifAssert(acyclic, "C11/decoded-document-contains-itself (the operators that follow aliases recurse without end)")
	if !acyclic {
		return
	}
	ops := []string{".a.x", "explode(.)", "[..] | length", ".a | keys", ".a[]", "to_yaml", ".a | length", ".b.x", "to_props"}
	_, _ = vEval(vParse(ops[verifChoice("op", len(ops))]), doc)
	verifCover("C11/self-reference/end")
}

// VerifC11AppendixWithSplit: --front-matter=process together with --split-exp: the text after the front matter has no
// result to name its file after. The printer must answer with an error (or write it), not crash.
func VerifC11AppendixWithSplit() {
	InitExpressionParser()
	nameExp := vParse([]string{"$index", ".a", "\"out\""}[verifChoice("name", 3)])
	pw := NewMultiPrinterWriter(nameExp, YamlFormat)
	printer := NewPrinter(NewYamlEncoder(NewDefaultYamlPreferences()), pw)
	printer.SetAppendix(strings.NewReader("body\n"))
	// no results at all (an expression that selects nothing): the appendix is all there is to print
	if err := printer.PrintResults(list.New()); err != nil {
		verifCover("C11/appendix-split/error")
	}
	verifCover("C11/appendix-split/end")
}
