package yqlib

import (
	"strings"

	"github.com/alecthomas/participle/v2/lexer"
)

// C09 — parsing honours operator precedence, grouping and bracket discipline.
//
// (1) VerifC09ShuntingYard: the real postProcessTokens → ConvertToPostfix → createExpressionTree run on token
//     sequences whose binary operators carry SYMBOLIC precedences; the solver decides, for every assignment of
//     precedences, that the resulting tree binds tighter operators first, keeps operand order, and that
//     parentheses override precedence and redundant parentheses change nothing.
// (2) VerifC09Table: the precedence / arity of every real binary operator equals the documented table.
// (3) VerifC09Brackets: for every token-class sequence up to N, the real pipeline (tokens made by the real rule
//     actions) rejects exactly the sequences with unbalanced brackets or missing operands.

func c09Operand(name string) *token {
	return &token{TokenType: operationToken, Operation: createValueOperation(1, name), CheckForPostTraverse: false}
}

func c09BinOp(name string, prec int) *token {
	ot := &operationType{Type: name, NumArgs: 2, Precedence: uint(prec)}
	return &token{TokenType: operationToken, Operation: &Operation{OperationType: ot, StringValue: name}}
}

func c09Tree(tokens []*token) (*ExpressionNode, error) {
	p := &expressionParserImpl{pathPostFixer: newExpressionPostFixer()}
	ops, err := p.pathPostFixer.ConvertToPostfix(postProcessTokens(tokens))
	if err != nil {
		return nil, err
	}
	return p.createExpressionTree(ops)
}

// c09Shape: canonical text of a tree, operands by name, operators by name.
func c09Shape(n *ExpressionNode) string {
	if n == nil {
		return "_"
	}
	if n.LHS == nil && n.RHS == nil {
		return n.Operation.StringValue
	}
	return "(" + c09Shape(n.LHS) + " " + n.Operation.OperationType.Type + " " + c09Shape(n.RHS) + ")"
}

func c09Leaves(n *ExpressionNode) string {
	if n == nil {
		return ""
	}
	if n.LHS == nil && n.RHS == nil {
		return n.Operation.StringValue
	}
	return c09Leaves(n.LHS) + c09Leaves(n.RHS)
}

// c09PrecOK: no operator node has a looser-binding operator as a direct child (grouped nodes are atomic:
// their operator types are listed in `atomic`).
func c09PrecOK(n *ExpressionNode, atomic map[*operationType]bool) bool {
	if n == nil || (n.LHS == nil && n.RHS == nil) {
		return true
	}
	ok := true
	p := n.Operation.OperationType.Precedence
	for _, c := range []*ExpressionNode{n.LHS, n.RHS} {
		if c != nil && (c.LHS != nil || c.RHS != nil) && !atomic[c.Operation.OperationType] {
			ok = verifAnd(ok, c.Operation.OperationType.Precedence >= p)
		}
		ok = verifAnd(ok, c09PrecOK(c, atomic))
	}
	return ok
}

func c09Open() *token  { return &token{TokenType: openBracket, Match: "("} }
func c09Close() *token { return &token{TokenType: closeBracket, Match: ")", CheckForPostTraverse: true} }

func VerifC09ShuntingYard() {
	nops := verifChoice("nops", verifParam("maxops", 3)) + 1 // 1..maxops binary operators
	precs := make([]int, nops)
	ops := make([]*token, nops)
	for i := 0; i < nops; i++ {
		precs[i] = verifIntRange("prec"+verifItoa(int64(i)), 0, 49) // binary operators bind looser than every operand-level operation (>= 50, checked by VerifC09Table)
		ops[i] = c09BinOp("OP"+verifItoa(int64(i)), precs[i])
	}
	names := []string{"a", "b", "c", "d", "e"}
	plain := []*token{}
	for i := 0; i <= nops; i++ {
		plain = append(plain, c09Operand(names[i]))
		if i < nops {
			plain = append(plain, ops[i])
		}
	}
	tree, err := c09Tree(plain)
	verifAssert(err == nil && tree != nil, "C09/plain-sequence-rejected")
	if err != nil || tree == nil {
		return
	}
	want := ""
	for i := 0; i <= nops; i++ {
		want += names[i]
	}
	verifObserve("shape", c09Shape(tree))
	verifAssert(c09Leaves(tree) == want, "C09/operand-order")
	verifAssert(c09PrecOK(tree, map[*operationType]bool{}), "C09/tighter-binds-first")
	// a strictly tighter operator on the left must become the left child of a strictly looser one
	if nops >= 2 {
		verifAssert(verifImplies(precs[0] > precs[1], tree.Operation.OperationType != ops[0].Operation.OperationType), "C09/looser-operator-must-be-above")
	}

	// redundant parentheses around the whole expression and around one operand change nothing
	wrapped := append(append([]*token{c09Open()}, plain...), c09Close())
	t2, err2 := c09Tree(wrapped)
	verifAssert(err2 == nil && t2 != nil && c09Shape(t2) == c09Shape(tree), "C09/redundant-parentheses-whole")
	k := verifChoice("wrapOperand", nops+1)
	var w2 []*token
	for i, tk := range plain {
		if i == 2*k {
			w2 = append(w2, c09Open(), tk, c09Close())
		} else {
			w2 = append(w2, tk)
		}
	}
	t3, err3 := c09Tree(w2)
	verifAssert(err3 == nil && t3 != nil && c09Shape(t3) == c09Shape(tree), "C09/redundant-parentheses-operand")

	// explicit grouping of one adjacent pair overrides precedence: the grouped operator's operands are exactly its neighbours
	g := verifChoice("group", nops)
	var w3 []*token
	for i, tk := range plain {
		if i == 2*g {
			w3 = append(w3, c09Open())
		}
		w3 = append(w3, tk)
		if i == 2*g+2 {
			w3 = append(w3, c09Close())
		}
	}
	t4, err4 := c09Tree(w3)
	verifAssert(err4 == nil && t4 != nil, "C09/grouped-sequence-rejected")
	if err4 == nil && t4 != nil {
		verifAssert(c09Leaves(t4) == want, "C09/operand-order-grouped")
		gn := c09FindOp(t4, ops[g].Operation.OperationType)
		verifAssert(gn != nil && c09Shape(gn) == "("+names[g]+" OP"+verifItoa(int64(g))+" "+names[g+1]+")", "C09/grouping-overrides-precedence")
		verifAssert(c09PrecOK(t4, map[*operationType]bool{ops[g].Operation.OperationType: true}), "C09/tighter-binds-first-grouped")
	}
	verifCover("C09/shunting/end")
}

func c09FindOp(n *ExpressionNode, ot *operationType) *ExpressionNode {
	if n == nil {
		return nil
	}
	if n.Operation.OperationType == ot {
		return n
	}
	if r := c09FindOp(n.LHS, ot); r != nil {
		return r
	}
	return c09FindOp(n.RHS, ot)
}

type c09Row struct {
	text string
	typ  string
	prec uint
}

// documented binding strength of the binary operators (looser first), as released with this version of yq
var c09Table = []c09Row{
	{",", "UNION", 10}, {";", "BLOCK", 10}, {":", "CREATE_MAP", 15}, {"or", "OR", 20}, {"and", "AND", 20}, {"|", "PIPE", 30}, {"ireduce", "REDUCE", 35},
	{"=", "ASSIGN", 40}, {"|=", "ASSIGN", 40}, {"+=", "ADD_ASSIGN", 40}, {"-=", "SUBTRACT_ASSIGN", 40}, {"as", "ASSIGN_VARIABLE", 40},
	{"==", "EQUALS", 40}, {"!=", "NOT_EQUALS", 40}, {"<", "COMPARE", 40}, {"<=", "COMPARE", 40}, {">", "COMPARE", 40}, {">=", "COMPARE", 40},
	{"*", "MULTIPLY", 43}, {"*=", "MULTIPLY_ASSIGN", 42}, {"/", "DIVIDE", 43}, {"%", "MODULO", 43}, {"+", "ADD", 42}, {"-", "SUBTRACT", 42}, {"//", "ALTERNATIVE", 42},
}

// VerifC09Table: each binary operator spelling lexes (real rule table, first match wins) to the documented
// operation with the documented arity and binding strength, also when glued to its operands without spaces.
func VerifC09Table() {
	InitExpressionParser()
	i := verifChoice("row", len(c09Table))
	row := c09Table[i]
	spaced := verifChoice("spacing", 2) == 0
	text := ".a " + row.text + " .b"
	opAt, want := 1, 3
	if !spaced && row.text != "or" && row.text != "and" && row.text != "as" && row.text != "ireduce" {
		// glued to bracketed operands (a bare path element would absorb + - * / % < > as key characters)
		text = "(.a)" + row.text + "(.b)"
		opAt, want = 3, 7
	}
	toks, err := ExpressionParser.(*expressionParserImpl).pathTokeniser.Tokenise(text)
	verifAssert(err == nil && len(toks) == want, "C09/operator-does-not-lex "+row.text)
	if err != nil || len(toks) != want {
		return
	}
	ot := toks[opAt].Operation.OperationType
	verifAssert(ot.Type == row.typ, "C09/operator-lexes-to-other-operation "+row.text)
	verifAssert(ot.NumArgs == 2, "C09/operator-arity "+row.text)
	verifAssert(ot.Precedence == row.prec, "C09/operator-precedence "+row.text)
	// tighter than every operand-level thing? operands (paths, values, functions) bind at >= 50
	if spaced {
		verifAssert(toks[0].Operation.OperationType.Precedence >= 50 && toks[2].Operation.OperationType.Precedence >= 50, "C09/operand-precedence "+row.text)
	}
	verifCover("C09/table/end")
}

// c09Classes: token classes for the bracket-discipline sweep, each made by the real rule action.
// c09BinFamily selects which binary operator stands for the class BIN in the current sequence.
var c09BinSel int
var c09BinFamilyNames = []string{"+", ":", ",", "|", "//", "=="}

var c09Classes = []string{"VAL", "BIN", "(", ")", "[", "]", "{", "}", "FN1"}

func c09Token(class int) *token {
	var a yqAction
	var raw string
	switch class {
	case 0:
		a, raw = numberValue(), "1"
	case 1:
		// the binary operator of this sequence: one of a family (the token post-processing treats some of them
		// specially: `:` next to a bracket, `|` and `,` as separators)
		switch c09BinSel {
		case 1:
			a, raw = opToken(createMapOpType), ":"
		case 2:
			a, raw = opToken(unionOpType), ","
		case 3:
			a, raw = opToken(pipeOpType), "|"
		case 4:
			a, raw = opToken(alternativeOpType), "//"
		case 5:
			a, raw = opToken(equalsOpType), "=="
		default:
			a, raw = opToken(addOpType), "+"
		}
	case 2:
		a, raw = literalToken(openBracket, false), "("
	case 3:
		a, raw = literalToken(closeBracket, true), ")"
	case 4:
		a, raw = literalToken(openCollect, false), "["
	case 5:
		a, raw = literalToken(closeCollect, true), "]"
	case 6:
		a, raw = literalToken(openCollectObject, false), "{"
	case 7:
		a, raw = literalToken(closeCollectObject, true), "}"
	default:
		a, raw = opToken(selectOpType), "select"
	}
	t, err := a(lexer.Token{Value: raw})
	if err != nil {
		verifFail("C09/token-action-error")
	}
	return t
}

// c09WellFormed: reference recogniser. expr := term (BIN term)* ; term := VAL | FN1 '(' expr ')' | '(' expr ')' | '[' expr? ']' | '{' expr? '}'
// It answers: 1 well formed, 0 bracket mismatch, 3 a binary operator without an operand next to it,
// 2 outside the reference (juxtaposed terms etc.) where either outcome is accepted.
func c09WellFormed(cls []int) int {
	// bracket discipline
	var stack []int
	for _, c := range cls {
		switch c {
		case 2, 4, 6:
			stack = append(stack, c)
		case 3, 5, 7:
			if len(stack) == 0 || stack[len(stack)-1] != c-1 {
				return 0
			}
			stack = stack[:len(stack)-1]
		}
	}
	if len(stack) != 0 {
		return 0
	}
	pos := 0
	var expr func() bool
	var term func() bool
	term = func() bool {
		if pos >= len(cls) {
			return false
		}
		switch cls[pos] {
		case 0:
			pos++
			return true
		case 8:
			pos++
			if pos >= len(cls) || cls[pos] != 2 {
				return false
			}
			pos++
			if !expr() || pos >= len(cls) || cls[pos] != 3 {
				return false
			}
			pos++
			return true
		case 2:
			pos++
			if !expr() || pos >= len(cls) || cls[pos] != 3 {
				return false
			}
			pos++
			return true
		case 4, 6:
			closer := cls[pos] + 1
			pos++
			if pos < len(cls) && cls[pos] == closer {
				pos++
				return true
			}
			if !expr() || pos >= len(cls) || cls[pos] != closer {
				return false
			}
			pos++
			return true
		}
		return false
	}
	expr = func() bool {
		if !term() {
			return false
		}
		for pos < len(cls) && cls[pos] == 1 {
			pos++
			if !term() {
				return false
			}
		}
		return true
	}
	if expr() && pos == len(cls) {
		return 1
	}
	// a binary operator at either end or next to another binary operator / an opening or closing bracket lacks an operand
	for i, c := range cls {
		if c != 1 {
			continue
		}
		if i == 0 || i == len(cls)-1 {
			return 3
		}
		l, r := cls[i-1], cls[i+1]
		if l == 1 || l == 2 || l == 4 || l == 6 || r == 1 || r == 3 || r == 5 || r == 7 {
			return 3
		}
	}
	return 2
}

func VerifC09Brackets() {
	n := verifChoice("len", verifParam("maxlen", 4)) + 1
	cls := make([]int, n)
	label := ""
	hasBin := false
	for i := 0; i < n; i++ {
		cls[i] = verifChoice("t"+verifItoa(int64(i)), len(c09Classes))
		label += c09Classes[cls[i]] + " "
		hasBin = hasBin || cls[i] == 1
	}
	c09BinSel = 0
	opName := ""
	if hasBin {
		c09BinSel = verifChoice("binop", len(c09BinFamilyNames))
		if c09BinSel != 0 {
			opName = " op=" + c09BinFamilyNames[c09BinSel]
		}
	}
	var toks []*token
	for i := 0; i < n; i++ {
		toks = append(toks, c09Token(cls[i]))
	}
	c09BinSel = 0
	tree, err := c09Tree(toks)
	wf := c09WellFormed(cls)
	switch wf {
	case 1:
		verifAssert(err == nil && tree != nil, "C09/well-formed-rejected"+opName)
		verifCover("C09/brackets/accepted")
	case 0:
		verifAssert(err != nil, "C09/unbalanced-brackets-accepted"+opName)
		verifCover("C09/brackets/rejected")
	case 3:
		// structural class of the sequence: the recorded defect (postfix / prefix spellings such as `1 1 +`) needs two
		// operands standing next to each other without an operator between them
		juxt := "no-juxtaposed-operands"
		for i := 0; i+1 < n; i++ {
			endsTerm := cls[i] == 0 || cls[i] == 3 || cls[i] == 5 || cls[i] == 7
			startsTerm := cls[i+1] == 0 || cls[i+1] == 2 || cls[i+1] == 4 || cls[i+1] == 6 || cls[i+1] == 8
			if endsTerm && startsTerm {
				juxt = "juxtaposed-operands"
			}
		}
		verifAssert(err != nil, "C09/operator-without-adjacent-operand-accepted"+opName+" "+juxt+" seq="+label)
		verifCover("C09/brackets/rejected-operator")
	}
	verifCover("C09/brackets/end")
}

// c09ShapeNorm: tree shape with the implicit pipe (SHORT_PIPE) and the explicit one (PIPE) identified.
func c09ShapeNorm(n *ExpressionNode) string {
	if n == nil {
		return "_"
	}
	t := n.Operation.OperationType.Type
	if t == "SHORT_PIPE" {
		t = "PIPE"
	}
	if n.LHS == nil && n.RHS == nil {
		return t + ":" + n.Operation.StringValue
	}
	return "(" + c09ShapeNorm(n.LHS) + " " + t + " " + c09ShapeNorm(n.RHS) + ")"
}

// things a path or index may follow directly (postfix traversal after paths, variables, functions and brackets)
var c09Postfixable = []string{".a", ".a[0]", "(.a)", "[.a]", "{\"k\": .a}", "$v", "parent", "parent(2)", "to_entries", "sort", "reverse", "path", "splitDoc",
	"map(.)", "select(.)", "sort_by(.)", "pick([\"a\"])", "with_entries(.)", "omit([\"a\"])", "keys", "explode(.)", "sort_keys(.)", "del(.x)", "flatten", "unique", "group_by(.)"}

// which of them yq documents as accepting a directly attached path (the others need an explicit pipe)
var c09PostfixDocumented = map[string]bool{".a": true, ".a[0]": true, "(.a)": true, "[.a]": true, "{\"k\": .a}": true, "$v": true, "parent": true, "parent(2)": true,
	"to_entries": true, "sort": true, "reverse": true, "path": true, "splitDoc": true, "map(.)": true, "select(.)": true, "sort_by(.)": true, "pick([\"a\"])": true,
	"with_entries(.)": true, "omit([\"a\"])": true, "explode(.)": true, "sort_keys(.)": true, "group_by(.)": true}

// VerifC09PostTraverse: `X.name` and `X[0]` mean `X | .name` and `X | .[0]`: both spellings are evaluated on the
// same node of a concrete document and must give the same results (or both fail).
func VerifC09PostTraverse() {
	InitExpressionParser()
	x := c09Postfixable[verifChoice("x", len(c09Postfixable))]
	if !c09PostfixDocumented[x] {
		return
	}
	suffix := []string{".name", "[0]", ".[\"name\"]", ".name.deeper"}[verifChoice("suffix", 4)]
	if suffix == "[0]" && (x == "parent" || x == "parent(2)" || x == "$v" || x == "to_entries" || x == "sort" || x == "reverse" || x == "path" || x == "splitDoc") {
		return // a bare word takes an index only through `.[0]`
	}
	layout := []string{"", " ", "\n", " # c\n"}[verifChoice("layout", 4)]
	if layout != "" && suffix[0] == '[' {
		return // `X [0]` is a collect operator after X, a different expression
	}
	explicit := "(" + x + ") | ." + suffix
	if suffix[0] == '.' {
		explicit = "(" + x + ") | " + suffix
	}
	build := func() *CandidateNode {
		return vYaml("a:\n  - name: {deeper: 1}\n    a: {name: {deeper: 3}, x: 2}\n    x: [4, 5]\nname: {deeper: 9}\n")
	}
	run := func(form string) (string, bool) {
		e, err := ExpressionParser.ParseExpression(".a[0] | (.a as $v | (" + form + "))")
		if err != nil {
			return "parse-error", false
		}
		res, err := vEval(e, build())
		if err != nil {
			return "error", true
		}
		return vDumpList(res), true
	}
	want, okW := run(explicit)
	got, okG := run(x + layout + suffix)
	label := "x=" + x + " suffix=" + suffix
	verifAssert(okW, "C09/explicit-form-rejected "+label)
	verifAssert(okG, "C09/postfix-traversal-rejected "+label)
	if okW && okG {
		verifObserve("got", got)
		verifAssert(got == want, "C09/postfix-traversal-means-something-else "+label)
	}
	verifCover("C09/postfix/end")
}

// VerifC09Arithmetic: unparenthesised integer arithmetic means what arithmetic means — multiplication, division and
// remainder bind tighter than addition and subtraction, and operators of one strength group from the left
// (10 - 3 - 2 is 5). Operands are solver integers substituted into the parsed tree.
var c09ArithExprs = []string{
	"7770001 - 7770002 - 7770003", "7770001 - 7770002 + 7770003", "7770001 + 7770002 - 7770003", "7770001 * 7770002 + 7770003", "7770001 + 7770002 * 7770003",
	"7770001 - 7770002 * 7770003", "7770001 * 7770002 - 7770003", "7770001 * 7770002 * 7770003", "7770001 % 7770002 % 7770003", "7770001 * 7770002 % 7770003",
	"7770001 + 7770002 % 7770003", "7770001 % 7770002 + 7770003", "7770001 - 7770002 - 7770003 - 7770001",
}

func VerifC09Arithmetic() {
	which := verifChoice("expr", len(c09ArithExprs))
	a, b, c := verifInt64("a"), verifInt64("b"), verifInt64("c")
	for _, v := range []int64{a, b, c} {
		verifAssume(verifAnd(v > -1000, v < 1000))
	}
	var want int64
	needNonZero := false
	switch which {
	case 0:
		want = a - b - c
	case 1:
		want = a - b + c
	case 2:
		want = a + b - c
	case 3:
		want = a*b + c
	case 4:
		want = a + b*c
	case 5:
		want = a - b*c
	case 6:
		want = a*b - c
	case 7:
		want = a * b * c
	case 8:
		verifAssume(verifAnd(b > 0, c > 0))
		verifAssume(a >= 0)
		want = a % b % c
		needNonZero = true
	case 9:
		verifAssume(verifAnd(c > 0, verifAnd(a >= 0, b >= 0)))
		want = a * b % c
		needNonZero = true
	case 10:
		verifAssume(verifAnd(c > 0, b >= 0))
		want = a + b%c
		needNonZero = true
	case 11:
		verifAssume(verifAnd(b > 0, a >= 0))
		want = a%b + c
		needNonZero = true
	default:
		want = a - b - c - a
	}
	_ = needNonZero
	e := vParse(c09ArithExprs[which])
	vSubst(e, "7770001", "!!int", verifItoa(a))
	vSubst(e, "7770002", "!!int", verifItoa(b))
	vSubst(e, "7770003", "!!int", verifItoa(c))
	res, err := vEval(e, vDoc(vNull()))
	verifAssert(err == nil && res.Len() == 1, "C09/arithmetic-error expr="+c09ArithExprs[which])
	if err != nil || res.Len() != 1 {
		return
	}
	got := res.Front().Value.(*CandidateNode).Value
	verifObserve("got", got)
	verifAssert(verifEqStr(got, verifItoa(want)), "C09/unparenthesised-arithmetic-means-something-else expr="+c09ArithExprs[which])
	verifCover("C09/arith/end")
}

// c09Nullary: operators that take no argument: in an expression they are operands like a path or a number.
var c09Nullary = []string{"length", "keys", "max", "min", "any", "all", "sort", "reverse", "unique", "flatten", "to_entries", "path", "key", "parent", "tag", "kind", "type", "style",
	"anchor", "line", "column", "document_index", "file_index", "filename", "not", "to_number", "tostring", "upcase", "downcase", "trim", "splitDoc", "explode(.)", "to_yaml", "map(.)", "first", "pivot"}

// VerifC09NullaryOperands: an operator without arguments is an operand: `X op Y` means `(X) op Y` for every binary
// operator — it is not itself subject to precedence. Both spellings are evaluated on the same documents.
func VerifC09NullaryOperands() {
	InitExpressionParser()
	x := c09Nullary[verifChoice("x", len(c09Nullary))]
	ops := []string{"+", "==", "//", "|", ",", "*", "-", "and", "<"}
	op := ops[verifChoice("op", len(ops))]
	rhs := []string{"1", ".", "[1]", "\"s\""}[verifChoice("rhs", 4)]
	side := verifChoice("side", 2)
	plain, grouped := x+" "+op+" "+rhs, "("+x+") "+op+" "+rhs
	if side == 1 {
		plain, grouped = rhs+" "+op+" "+x, rhs+" "+op+" ("+x+")"
	}
	di := verifChoice("doc", 3)
	doc := func() *CandidateNode {
		switch di {
		case 0:
			return vDoc(vSeq(vInt("1"), vInt("2")))
		case 1:
			return vDoc(vMap(vStr("a"), vSeq(vInt("3"))))
		}
		return vDoc(vStr("word"))
	}
	run := func(text string) (string, bool, bool) {
		e, err := ExpressionParser.ParseExpression(text)
		if err != nil {
			return "", false, false
		}
		res, err := vEval(e, doc())
		if err != nil {
			return "", true, false
		}
		return vDumpList(res), true, true
	}
	got, parsedP, okP := run(plain)
	want, parsedG, okG := run(grouped)
	label := "x=" + x + " op=" + op
	if !parsedG {
		verifCover("C09/nullary/unknown-word")
		return // not an operator of this version
	}
	verifAssert(parsedP, "C09/operator-without-arguments-not-accepted-as-an-operand "+label)
	if !parsedP {
		return
	}
	verifAssert(okP == okG, "C09/operator-without-arguments-groups-differently "+label)
	if okP && okG {
		verifAssert(got == want, "C09/operator-without-arguments-groups-differently "+label)
	}
	verifCover("C09/nullary/end")
}

// VerifC09Interpolation: an expression inside `\( )` of a string literal means what it means outside: a literal with
// 1-2 (thorough 3) interpolations, each an expression from a pool with and without redundant / needed parentheses,
// separated by literal text that may itself hold parentheses and backslashes, equals the explicit concatenation of
// the pieces. Concrete document (the pool decides the shapes), choices are solver variables.
var c09InterpPool = []string{".a", "(.a)", ".b | length", ".b | (length + 1)", "[.a, (.c)] | .[1]", ".c + (1 * 2)", "((.c))", ".b | (.[0], .[1]) | select(. == 2)"}
var c09InterpSeps = []string{"", ")", " and ", "(", "()", "\\\\"}

func VerifC09Interpolation() {
	maxN := verifParam("interp", 2)
	n := 1 + verifChoice("n", maxN)
	lit := ""
	ref := ""
	for i := 0; i < n; i++ {
		e := c09InterpPool[verifChoice("e"+verifItoa(int64(i)), len(c09InterpPool))]
		sep := c09InterpSeps[verifChoice("sep"+verifItoa(int64(i)), len(c09InterpSeps))]
		lit += sep + "\\(" + e + ")"
		plain := sep
		if sep == "\\\\" {
			plain = "\\"
		}
		ref += plain + "|" + c09InterpOne(e) + "|"
	}
	tail := c09InterpSeps[verifChoice("tail", verifParam("tails", 2))]
	lit += tail
	if tail == "\\\\" {
		ref += "\\"
	} else {
		ref += tail
	}
	verifObserve("literal", lit)
	InitExpressionParser()
	node, err := ExpressionParser.ParseExpression("\"" + lit + "\"")
	verifAssert(err == nil, "C09/interpolation-rejected")
	if err != nil {
		return
	}
	res, err := vEval(node, c09InterpDoc())
	verifAssert(err == nil, "C09/interpolation-failed")
	if err != nil {
		return
	}
	nodes := vNodes(res)
	verifAssert(len(nodes) == 1, "C09/interpolation-result-count")
	if len(nodes) != 1 {
		return
	}
	// the reference marks the pieces with | so that a piece swallowed by its neighbour shows
	got := nodes[0].Value
	want := ""
	for i := 0; i < len(ref); i++ {
		if ref[i] != '|' {
			want += string(ref[i])
		}
	}
	verifObserve("got", got)
	verifAssert(got == want, "C09/interpolated-expression-differs-from-the-expression-on-its-own")
	verifCover("C09/interpolation/end")
}

func c09InterpDoc() *CandidateNode {
	return vDoc(vMap(vStr("a"), vStr("cat"), vStr("b"), vSeq(vInt("1"), vInt("2")), vStr("c"), vInt("4")))
}

// the piece on its own: evaluated as an expression of its own, rendered as interpolation renders a scalar
func c09InterpOne(e string) string {
	res, err := vEval(vParse(e), c09InterpDoc())
	if err != nil {
		verifFail("C09/interpolation-pool-expression-failed")
		return ""
	}
	nodes := vNodes(res)
	if len(nodes) != 1 || nodes[0].Kind != ScalarNode {
		verifFail("C09/interpolation-pool-expression-not-a-scalar")
		return ""
	}
	return nodes[0].Value
}

// VerifC09LayoutsOneParser: what an expression means does not depend on which other expressions the same parser object
// parsed before - in particular not on an expression that differs only in layout, where layout decides (a line feed
// ends a # comment, a blank does not). Two layouts of one pair of operands, parsed one after the other by one parser:
// the second means what it means to a parser that sees it first.
func VerifC09LayoutsOneParser() {
	pairs := [][2]string{{".a", ".b"}, {".a", "length"}, {".c", ". + 1"}, {".b", ".[0]"}}
	pr := pairs[verifChoice("operands", len(pairs))]
	layouts := []string{"X # note | Y", "X # note\n| Y", "X\n# note\n| Y", "X |   Y", "X|Y", "X # note |\tY", "X #note\n|Y", "X\t# note | Y"}
	i, j := verifChoice("first", len(layouts)), verifChoice("second", len(layouts))
	mk := func(l string) string {
		return strings.Replace(strings.Replace(l, "X", pr[0], 1), "Y", pr[1], 1)
	}
	shared := newExpressionParser()
	_, _ = shared.ParseExpression(mk(layouts[i]))
	second, errShared := shared.ParseExpression(mk(layouts[j]))
	alone, errAlone := newExpressionParser().ParseExpression(mk(layouts[j]))
	label := " second-layout=" + verifItoa(int64(j))
	verifAssert((errShared == nil) == (errAlone == nil), "C09/parse-outcome-depends-on-what-was-parsed-before"+label)
	if errShared != nil || errAlone != nil {
		return
	}
	doc := func() *CandidateNode {
		return vDoc(vMap(vStr("a"), vStr("cat"), vStr("b"), vSeq(vInt("1"), vInt("2")), vStr("c"), vInt("4")))
	}
	r1, e1 := vEval(second, doc())
	r2, e2 := vEval(alone, doc())
	verifAssert((e1 == nil) == (e2 == nil), "C09/evaluation-outcome-depends-on-what-was-parsed-before"+label)
	if e1 != nil || e2 != nil {
		return
	}
	verifObserve("got", vDumpList(r1))
	verifAssert(vDumpList(r1) == vDumpList(r2), "C09/meaning-depends-on-what-was-parsed-before"+label)
	verifCover("C09/layouts-one-parser/end")
}
