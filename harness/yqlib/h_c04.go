package yqlib

import (
	"github.com/alecthomas/participle/v2/lexer"
	yaml "gopkg.in/yaml.v3"
)

// C04 — deep merge (*) computes the documented merge and leaves its operands untouched.

// pure value model for the reference merge
type c04V struct {
	kind  int // 0 scalar, 1 map, 2 seq
	val   string
	tag   string
	keys  []string
	items []*c04V
}

func c04Scalar(name string) *c04V {
	if verifChoice(name+"_isnull", 2) == 1 {
		return &c04V{kind: 0, val: "null", tag: "!!null"}
	}
	return &c04V{kind: 0, val: verifStrN(name, 1, "09"), tag: "!!int"}
}

// c04Value: scalar | map with one symbolic key | sequence of 0..2 scalars
func c04Value(name string, depth int) *c04V {
	opts := 3
	if depth == 0 {
		opts = 1
	}
	switch verifChoice(name+"_kind", opts) {
	case 0:
		return c04Scalar(name)
	case 1:
		m := &c04V{kind: 1}
		n := verifChoice(name+"_n", 2)
		for i := 0; i < n; i++ {
			m.keys = append(m.keys, verifStrN(name+"_k", 1, "ac"))
			m.items = append(m.items, c04Value(name+"_v", depth-1))
		}
		return m
	default:
		s := &c04V{kind: 2}
		n := verifChoice(name+"_n", 3)
		for i := 0; i < n; i++ {
			s.items = append(s.items, c04Scalar(name+"_e"+verifItoa(int64(i))))
		}
		return s
	}
}

func c04Map(name string, maxEntries int, depth int) *c04V {
	m := &c04V{kind: 1}
	n := verifChoice(name+"_n", maxEntries+1)
	firstDepth := depth
	for i := 0; i < n; i++ {
		depth = firstDepth
		if i > 0 && c04LaterDepth >= 0 {
			depth = c04LaterDepth // entries after the first may be kept shallower to bound the product
		}
		k := c04Key(name + "_k" + verifItoa(int64(i)))
		for _, prev := range m.keys {
			verifAssume(!verifEqStr(prev, k))
		}
		m.keys = append(m.keys, k)
		m.items = append(m.items, c04Value(name+"_v"+verifItoa(int64(i)), depth))
	}
	return m
}

func c04Yaml(v *c04V) *yaml.Node {
	switch v.kind {
	case 0:
		return vS(v.tag, v.val)
	case 1:
		m := vMap()
		for i, k := range v.keys {
			m.Content = append(m.Content, vS(c04KeyTag(), k), c04Yaml(v.items[i]))
		}
		return m
	default:
		s := vSeq()
		for _, it := range v.items {
			s.Content = append(s.Content, c04Yaml(it))
		}
		return s
	}
}

func c04Dump(v *c04V) string {
	switch v.kind {
	case 0:
		return "<" + v.tag + " " + v.val + ">"
	case 1:
		s := "{"
		for i, k := range v.keys {
			if i > 0 {
				s += ", "
			}
			s += "<" + c04KeyTag() + " " + k + ">: " + c04Dump(v.items[i])
		}
		return s + "}"
	default:
		s := "["
		for i, it := range v.items {
			if i > 0 {
				s += ", "
			}
			s += c04Dump(it)
		}
		return s + "]"
	}
}

func c04Copy(v *c04V) *c04V {
	c := &c04V{kind: v.kind, val: v.val, tag: v.tag}
	c.keys = append(c.keys, v.keys...)
	for _, it := range v.items {
		c.items = append(c.items, c04Copy(it))
	}
	return c
}

func c04Find(keys []string, k string) int {
	for i, x := range keys {
		if verifConcreteBool(verifEqStr(x, k)) {
			return i
		}
	}
	return -1
}

// c04SeqAgainstMap: at some common key (at any depth of common maps) a holds a sequence and b a non-empty map.
func c04SeqAgainstMap(a, b *c04V) bool {
	for i, k := range b.keys {
		idx := c04Find(a.keys, k)
		if idx < 0 {
			continue
		}
		av, bv := a.items[idx], b.items[i]
		if av.kind == 2 && bv.kind == 1 && len(bv.keys) > 0 {
			return true
		}
		if av.kind == 1 && bv.kind == 1 && c04SeqAgainstMap(av, bv) {
			return true
		}
	}
	return false
}

// c04RefMerge: the documented merge. open=true is returned when the documentation leaves the outcome
// undefined (kind conflict at the same key together with +, ? or n).
func c04RefMerge(a, b *c04V, plus, onlyExisting, onlyNew, deep bool) (*c04V, bool) {
	res := c04Copy(a)
	open := false
	for i, k := range b.keys {
		bv := b.items[i]
		idx := c04Find(res.keys, k)
		if idx < 0 {
			if !onlyExisting {
				res.keys = append(res.keys, k)
				res.items = append(res.items, c04Copy(bv))
			}
			continue
		}
		av := res.items[idx]
		switch {
		case av.kind == 1 && bv.kind == 1:
			m, o := c04RefMerge(av, bv, plus, onlyExisting, onlyNew, deep)
			res.items[idx] = m
			open = open || o
		case av.kind != bv.kind && (av.kind != 0 || av.tag != "!!null") && (bv.kind != 0 || bv.tag != "!!null"):
			if onlyNew && !plus && !onlyExisting && !deep {
				// `n` alone: only new keys are merged, an existing key keeps its value whatever the kinds are
				continue
			}
			if plus || onlyExisting || onlyNew {
				open = true
			}
			res.items[idx] = c04Copy(bv)
		case av.kind == 2 && bv.kind == 2:
			switch {
			case plus && deep:
				// `+` (append) and `d` (merge by position) together: the documentation describes each alone
				open = true
			case plus:
				if onlyNew {
					open = true // append to an existing sequence vs "only new fields": not defined together
				}
				for _, it := range bv.items {
					av.items = append(av.items, c04Copy(it))
				}
			case deep:
				// by position; each position follows the scalar rule (n: only where the left element is null or absent)
				for j, it := range bv.items {
					if j < len(av.items) {
						if !onlyNew || av.items[j].tag == "!!null" {
							av.items[j] = c04Copy(it)
						}
					} else if !onlyExisting {
						av.items = append(av.items, c04Copy(it))
					}
				}
			case onlyNew:
				// existing key holding a sequence: left alone
			default:
				res.items[idx] = c04Copy(bv)
			}
		default:
			// scalar over scalar (or null on one side): b's value, unless only new keys are written
			if onlyNew && !(av.kind == 0 && av.tag == "!!null") {
				break
			}
			if (plus || onlyExisting || onlyNew) && av.kind != bv.kind {
				open = true
			}
			res.items[idx] = c04Copy(bv)
		}
	}
	return res, open
}

var c04FlagSets = []string{"", "+", "?", "n", "d", "+?", "+n", "+d", "?n", "?d", "nd", "+?n", "+?d", "+nd", "?nd", "+?nd"}

// VerifC04Merge: `.a *FLAGS .b` for symbolic maps a, b and a symbolic flag subset, against the reference merge.
func VerifC04Merge() {
	c04MergeBody(verifParam("entries", 1), verifParam("depth", 1))
}

// VerifC04MergeWide: two entries per side (every key-overlap pattern), scalar values.
func VerifC04MergeWide() {
	c04MergeBody(verifParam("wide_entries", 2), verifParam("wide_depth", 0))
}

// VerifC04MergeMixed: two entries per side, the first with a nested value (map / sequence), the second scalar.
func VerifC04MergeMixed() {
	c04LaterDepth = 0
	c04MergeBody(verifParam("mixed_entries", 2), verifParam("mixed_depth", 1))
	c04LaterDepth = -1
}

var c04LaterDepth = -1

// c04KeyRange: the byte range map keys are drawn from ("ac" normally; VerifC04MergeOddKeys widens it to all of
// '*'..'c': glob characters, digits, punctuation, upper-case letters)
var c04KeyRange = "ac"

// c04IntKeys: keys are integers (tag !!int) in one of YAML's spellings instead of one-byte strings
var c04IntKeys bool

func c04Key(name string) string {
	if c04IntKeys {
		return verifConcreteStr(verifPick(name, "5", "0x1F", "0o17", "1_0", "-3"))
	}
	if c04EmptyKeys {
		return verifConcreteStr(verifPick(name, "", "a"))
	}
	return verifStrN(name, 1, c04KeyRange)
}

// c04EmptyKeys: keys are drawn from {"", "a"}: the empty string is a key like any other
var c04EmptyKeys bool

// VerifC04MergeEmptyKeys: one entry per side, possibly a nested map or a sequence, keys from {"", a} at both levels.
func VerifC04MergeEmptyKeys() {
	c04EmptyKeys = true
	c04MergeBody(1, 1)
	c04EmptyKeys = false
}

func c04KeyTag() string {
	if c04IntKeys {
		return "!!int"
	}
	return "!!str"
}

// VerifC04MergeIntKeys: integer keys in decimal, hex, octal and underscore spelling (the same spelling on both sides
// is the same key; the merge must not add a second, re-spelled key).
func VerifC04MergeIntKeys() {
	c04IntKeys = true
	c04MergeBody(1, 0)
	c04IntKeys = false
}

// VerifC04MergeOddKeys: one entry per side, scalar values, keys over '*'..'c'.
func VerifC04MergeOddKeys() {
	c04KeyRange = "*c"
	c04MergeBody(1, 0)
	c04KeyRange = "ac"
}

func c04MergeBody(entries, depth int) {
	a := c04Map("a", entries, depth)
	b := c04Map("b", entries, depth)
	flags := verifPick("flags", c04FlagSets...)
	// the real token action builds the preferences from the (symbolic) flag text
	tok, err := multiplyWithPrefs(multiplyOpType)(lexer.Token{Value: "*" + flags})
	if err != nil {
		verifFail("C04/token-action-failed")
	}
	prefs := tok.Operation.Preferences.(multiplyPreferences)
	exp := vParse(".a * .b")
	exp.Operation = tok.Operation
	doc := vDoc(vMap(vStr("a"), c04Yaml(a), vStr("b"), c04Yaml(b)))
	beforeA, beforeB := vDump(doc.Content[1]), vDump(doc.Content[3])
	res, errE := vEval(exp, doc)
	plus, onlyExisting, onlyNew, deep := verifConcreteBool(prefs.AppendArrays), verifConcreteBool(prefs.TraversePrefs.DontAutoCreate), verifConcreteBool(prefs.AssignPrefs.OnlyWriteNull), verifConcreteBool(prefs.DeepMergeArrays)
	fl := ""
	if plus {
		fl += "+"
	}
	if onlyExisting {
		fl += "?"
	}
	if onlyNew {
		fl += "n"
	}
	if deep {
		fl += "d"
	}
	label := "flags=" + fl
	for _, k := range b.keys {
		if !c04IntKeys && !c04EmptyKeys && verifConcreteBool(k[0] == '*' || k[0] == '?') {
			label += " right-key-has-glob-character"
			break
		}
	}
	if c04IntKeys {
		for _, k := range b.keys {
			if k != "5" && k != "-3" {
				label += " right-key-is-a-non-decimal-integer"
				break
			}
		}
	}
	want, open := c04RefMerge(a, b, plus, onlyExisting, onlyNew, deep)
	// operands must read as before, whatever the flags
	verifAssert(verifEqStr(vDump(doc.Content[1]), beforeA), "C04/lhs-operand-changed "+label)
	verifAssert(verifEqStr(vDump(doc.Content[3]), beforeB), "C04/rhs-operand-changed "+label)
	if open {
		verifCover("C04/merge/open-region")
		return
	}
	errClass := ""
	if c04SeqAgainstMap(a, b) {
		errClass = " [a sequence on the left where the right has a map]"
	}
	verifAssert(errE == nil && res.Len() == 1, "C04/merge-error "+label+errClass)
	if errE != nil || res.Len() != 1 {
		return
	}
	got := vDump(res.Front().Value.(*CandidateNode))
	verifObserve("got", got)
	verifObserve("want", c04Dump(want))
	verifAssert(verifEqStr(got, c04Dump(want)), "C04/merge-value "+label)
	// the result shares no node with either operand
	shared := false
	for _, rn := range vAllNodes(res.Front().Value.(*CandidateNode)) {
		for _, on := range vAllNodes(doc) {
			if rn == on {
				shared = true
			}
		}
	}
	verifAssert(!shared, "C04/result-aliases-operand "+label)
	verifCover("C04/merge/end")
}

// VerifC04Identities: a * {} = a, {} * a = a, a * a = a; three-document fold = left fold.
func VerifC04Identities() {
	a := c04Map("a", verifParam("entries", 2), verifParam("depth", 1))
	which := verifChoice("identity", 6)
	doc := vDoc(vMap(vStr("a"), c04Yaml(a), vStr("e"), vMap(), vStr("nul"), vNull()))
	names := []string{"a*{}", "{}*a", "a*a", "fold", "a*null", "null*a"}
	var text string
	switch which {
	case 0:
		text = ".a * .e"
	case 1:
		text = ".e * .a"
	case 2:
		text = ".a * .a"
	case 3:
		text = "[.e, .a, .a] | .[] as $i ireduce ({}; . * $i)"
	case 4:
		text = ".a * .nul"
	case 5:
		text = ".nul * .a"
	}
	res, err := vEval(vParse(text), doc)
	verifAssert(err == nil && res.Len() == 1, "C04/identity-error "+names[which])
	if err != nil || res.Len() != 1 {
		return
	}
	got := vDump(res.Front().Value.(*CandidateNode))
	verifObserve("got", got)
	verifAssert(verifEqStr(got, c04Dump(a)), "C04/identity "+names[which])
	verifAssert(verifEqStr(vDump(doc.Content[1]), c04Dump(a)), "C04/identity-operand-changed "+names[which])
	// the result is a value of its own: it shares no node with the document, so editing it cannot change an operand
	shared := false
	for _, rn := range vAllNodes(res.Front().Value.(*CandidateNode)) {
		for _, on := range vAllNodes(doc) {
			if rn == on {
				shared = true
			}
		}
	}
	verifAssert(!shared, "C04/identity-result-aliases-operand "+names[which])
	verifCover("C04/identities/end")
}

// VerifC04Fold: merging three documents with ireduce equals the left fold of the binary merge.
func VerifC04Fold() {
	depth := verifParam("folddepth", 0)
	d1 := c04Map("p", 1, depth)
	d2 := c04Map("q", 1, depth)
	d3 := c04Map("r", 1, depth)
	m12, _ := c04RefMerge(d1, d2, false, false, false, false)
	m123, _ := c04RefMerge(m12, d3, false, false, false, false)
	doc := vDoc(vSeq(c04Yaml(d1), c04Yaml(d2), c04Yaml(d3)))
	res, err := vEval(vParse(".[] as $i ireduce ({}; . * $i)"), doc)
	verifAssert(err == nil && res.Len() == 1, "C04/fold-error")
	if err != nil || res.Len() != 1 {
		return
	}
	got := vDump(res.Front().Value.(*CandidateNode))
	verifObserve("got", got)
	verifAssert(verifEqStr(got, c04Dump(m123)), "C04/fold-equals-left-fold")
	verifCover("C04/fold/end")
}

// VerifC04MergeAnchors: operands that contain YAML merge keys and aliases. Whatever the flags, evaluating the merge
// (and throwing the result away) must leave the whole document — the anchored map included — reading as before,
// and the result must share no node with it.
//   base: &base {x: X, z: Z}     a: {<<: *base, y: Y}     b: {K1: V1, K2: V2}     c: {r: *base}
// with K1, K2 drawn from the keys of base, of a, and a new one; either operand order; also the alias-valued `c`.
func VerifC04MergeAnchors() {
	x, z, y := verifStrN("x", 1, "09"), verifStrN("z", 1, "09"), verifStrN("y", 1, "09")
	k1 := verifPick("k1", "x", "y", "z", "w", "r")
	k2 := verifPick("k2", "x", "y", "z", "w", "r")
	verifAssume(!verifEqStr(k1, k2))
	v1, v2 := verifStrN("v1", 1, "09"), verifStrN("v2", 1, "09")
	base := vMap(vStr("x"), vInt(x), vStr("z"), vInt(z))
	base.Anchor = "base"
	alias := func() *yaml.Node { return &yaml.Node{Kind: yaml.AliasNode, Value: "base", Alias: base} }
	var bv2 *yaml.Node = vInt(v2)
	if verifChoice("b_second_is_map", 2) == 1 {
		bv2 = vMap(vStr(verifPick("b_inner_key", "x", "w")), vInt(v2))
	}
	doc := vDoc(vMap(
		vStr("base"), base,
		vStr("a"), vMap(vS("!!merge", "<<"), alias(), vStr("y"), vInt(y)),
		vStr("b"), vMap(vStr(k1), vInt(v1), vStr(k2), bv2),
		vStr("c"), vMap(vStr("r"), alias())))
	flags := verifPick("flags", c04FlagSets...)
	tok, err := multiplyWithPrefs(multiplyOpType)(lexer.Token{Value: "*" + flags})
	if err != nil {
		verifFail("C04/token-action-failed")
	}
	order := verifChoice("operands", 4)
	text := []string{".a * .b", ".b * .a", ".c * .b", ".b * .c"}[order]
	exp := vParse(text)
	exp.Operation = tok.Operation
	before := vDumpFull(doc)
	res, _ := vEval(exp, doc)
	label := "operands=" + text + " flags=" + verifConcreteStr(flags)
	verifAssert(verifEqStr(vDumpFull(doc), before), "C04/document-changed-by-evaluating-a-merge "+label)
	if res != nil {
		shared := false
		for _, r := range vNodes(res) {
			for _, rn := range vAllNodes(r) {
				for _, on := range vAllNodes(doc) {
					if rn == on {
						shared = true
					}
				}
			}
		}
		verifAssert(!shared, "C04/result-aliases-operand "+label)
	}
	verifCover("C04/anchors/end")
}
