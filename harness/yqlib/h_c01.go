package yqlib

// C01 — the core expression language evaluates according to its reference semantics.
//
// Reference evaluator over pure values (below) vs the real parser + GetMatchingNodes on the document
//   {a: [x0, x1], b: x2, s: "k", m: {k: x3}, e: []}     with x0..x3 symbolic digits.
// Every program maps the whole ordered input list to an output list; `|` composes, `,` concatenates, binary
// operators pair each LHS result with each RHS result per input node, LHS-major.

type c01V struct {
	k     int // 0 null 1 bool 2 int 3 str 4 seq 5 map 6 float n/2 (literals in comparisons only)
	b     bool
	i     int64
	s     string
	items []*c01V
	keys  []string
}

func c01Null() *c01V          { return &c01V{k: 0} }
func c01Bool(b bool) *c01V    { return &c01V{k: 1, b: b} }
func c01Int(i int64) *c01V    { return &c01V{k: 2, i: i} }
func c01Str(s string) *c01V   { return &c01V{k: 3, s: s} }

// c01Half: the float n/2 (a literal such as -2.5); only ever compared, never printed
func c01Half(n int64) *c01V { return &c01V{k: 6, i: n} }
func c01Seq(it ...*c01V) *c01V { return &c01V{k: 4, items: it} }
func c01Map(keys []string, it []*c01V) *c01V {
	return &c01V{k: 5, keys: keys, items: it}
}

func c01Dump(v *c01V) string {
	switch v.k {
	case 0:
		return "<!!null null>"
	case 1:
		if verifConcreteBool(v.b) {
			return "<!!bool true>"
		}
		return "<!!bool false>"
	case 2:
		if v.s != "" {
			return "<!!int " + v.s + ">" // a number passed through keeps its spelling
		}
		return "<!!int " + verifItoa(v.i) + ">"
	case 3:
		return "<!!str " + v.s + ">"
	case 4:
		s := "["
		for i, it := range v.items {
			if i > 0 {
				s += ", "
			}
			s += c01Dump(it)
		}
		return s + "]"
	default:
		s := "{"
		for i, it := range v.items {
			if i > 0 {
				s += ", "
			}
			s += "<!!str " + v.keys[i] + ">: " + c01Dump(it)
		}
		return s + "}"
	}
}

func c01DumpList(vs []*c01V) string {
	s := ""
	for i, v := range vs {
		if i > 0 {
			s += " | "
		}
		s += c01Dump(v)
	}
	return s
}

func c01Eq(a, b *c01V) bool {
	if a.k != b.k {
		return false
	}
	switch a.k {
	case 0:
		return true
	case 1:
		return verifConcreteBool(a.b == b.b)
	case 2:
		return verifConcreteBool(a.i == b.i)
	case 3:
		return verifConcreteBool(verifEqStr(a.s, b.s))
	}
	if len(a.items) != len(b.items) {
		return false
	}
	for i := range a.items {
		if a.k == 5 && a.keys[i] != b.keys[i] {
			return false
		}
		if !c01Eq(a.items[i], b.items[i]) {
			return false
		}
	}
	return true
}

func c01Truthy(v *c01V) bool {
	if v.k == 0 {
		return false
	}
	if v.k == 1 {
		return verifConcreteBool(v.b)
	}
	return true
}

// a reference program: list of inputs -> list of outputs, or an error
type c01F func(in []*c01V) ([]*c01V, bool)

// c01Empty: some binary operator / variable binding met an empty operand stream (the reference then yields
// no pairs). c01Open: the program left the fragment whose meaning the documentation fixes (equality of
// containers, ordering against null).
var c01Empty, c01Open bool

// c01MissingOperand: a key that is not there was read while evaluating an operand of a binary operator. The
// reference gives null there, as everywhere; yq reads operands in a context that does not auto-create and yields
// no result at all for the missing key, which shows wherever the count of results matters (inside [...]).
var c01MissingOperand bool
var c01OperandDepth int

func c01Each(f func(v *c01V) ([]*c01V, bool)) c01F {
	return func(in []*c01V) ([]*c01V, bool) {
		var out []*c01V
		for _, v := range in {
			r, ok := f(v)
			if !ok {
				return nil, false
			}
			out = append(out, r...)
		}
		return out, true
	}
}

func c01Pipe(f, g c01F) c01F {
	return func(in []*c01V) ([]*c01V, bool) {
		m, ok := f(in)
		if !ok {
			return nil, false
		}
		return g(m)
	}
}

func c01Union(f, g c01F) c01F {
	return c01Each(func(v *c01V) ([]*c01V, bool) {
		a, ok := f([]*c01V{v})
		if !ok {
			return nil, false
		}
		b, ok := g([]*c01V{v})
		if !ok {
			return nil, false
		}
		return append(append([]*c01V{}, a...), b...), true
	})
}

func c01Key(k string) c01F {
	return c01Each(func(v *c01V) ([]*c01V, bool) {
		switch v.k {
		case 5:
			for i, kk := range v.keys {
				if kk == k {
					return []*c01V{v.items[i]}, true
				}
			}
			if c01OperandDepth > 0 {
				c01MissingOperand = true
			}
			return []*c01V{c01Null()}, true
		case 0:
			return []*c01V{c01Null()}, true
		case 4:
			return nil, false // a key step into a sequence is an error
		}
		return nil, true // scalars: nothing
	})
}

func c01Index(i int) c01F {
	return c01Each(func(v *c01V) ([]*c01V, bool) {
		if v.k == 4 {
			j := i
			if j < 0 {
				j += len(v.items)
			}
			if j < 0 {
				return nil, false
			}
			if j >= len(v.items) {
				return []*c01V{c01Null()}, true
			}
			return []*c01V{v.items[j]}, true
		}
		if v.k == 0 {
			return []*c01V{c01Null()}, true
		}
		return nil, true
	})
}

var c01Splat = c01Each(func(v *c01V) ([]*c01V, bool) {
	if v.k == 4 || v.k == 5 {
		return v.items, true
	}
	return nil, true
})

var c01Self = c01Each(func(v *c01V) ([]*c01V, bool) { return []*c01V{v}, true })

func c01Lit(v *c01V) c01F {
	return c01Each(func(_ *c01V) ([]*c01V, bool) { return []*c01V{v}, true })
}

func c01Collect(f c01F) c01F {
	return c01Each(func(v *c01V) ([]*c01V, bool) {
		r, ok := f([]*c01V{v})
		if !ok {
			return nil, false
		}
		return []*c01V{c01Seq(r...)}, true
	})
}

func c01Object(key string, f c01F) c01F {
	return c01Each(func(v *c01V) ([]*c01V, bool) {
		r, ok := f([]*c01V{v})
		if !ok {
			return nil, false
		}
		var out []*c01V
		for _, x := range r {
			out = append(out, c01Map([]string{key}, []*c01V{x}))
		}
		return out, true
	})
}

// c01Bin: each LHS result paired with each RHS result, per input node, LHS-major.
func c01Bin(f, g c01F, op func(a, b *c01V) (*c01V, bool)) c01F {
	return c01BinSC(f, g, op, nil)
}

// c01BinSC: as c01Bin; shortCircuit (if given) may answer from the left result alone (and / or).
func c01BinSC(f, g c01F, op func(a, b *c01V) (*c01V, bool), shortCircuit func(a *c01V) *c01V) c01F {
	return func(in []*c01V) ([]*c01V, bool) {
		if len(in) == 0 {
			c01Empty = true // an operator applied to an empty list of current nodes
			return nil, true
		}
		var all []*c01V
		for _, v := range in {
			c01OperandDepth++
			ls, ok := f([]*c01V{v})
			if !ok {
				c01OperandDepth--
				return nil, false
			}
			rs, ok := g([]*c01V{v})
			c01OperandDepth--
			if !ok {
				return nil, false
			}
			if len(ls) == 0 || len(rs) == 0 {
				c01Empty = true
			}
			for _, l := range ls {
				if shortCircuit != nil {
					if x := shortCircuit(l); x != nil {
						all = append(all, x)
						continue
					}
				}
				for _, r := range rs {
					x, ok := op(l, r)
					if !ok {
						return nil, false
					}
					all = append(all, x)
				}
			}
		}
		return all, true
	}
}

func c01Add(a, b *c01V) (*c01V, bool) {
	switch {
	case a.k == 2 && b.k == 2:
		return c01Int(a.i + b.i), true
	case a.k == 3 && b.k == 3:
		return c01Str(a.s + b.s), true
	case a.k == 4 && b.k == 4:
		return c01Seq(append(append([]*c01V{}, a.items...), b.items...)...), true
	case a.k == 4 && b.k != 5:
		return c01Seq(append(append([]*c01V{}, a.items...), b)...), true
	case a.k == 5 && b.k == 5:
		keys := append([]string{}, a.keys...)
		items := append([]*c01V{}, a.items...)
		for i, k := range b.keys {
			found := false
			for j, kk := range keys {
				if kk == k {
					items[j] = b.items[i]
					found = true
				}
			}
			if !found {
				keys = append(keys, k)
				items = append(items, b.items[i])
			}
		}
		return c01Map(keys, items), true
	}
	return nil, false
}

func c01Arith(op string) func(a, b *c01V) (*c01V, bool) {
	return func(a, b *c01V) (*c01V, bool) {
		if a.k != 2 || b.k != 2 {
			return nil, false
		}
		switch op {
		case "-":
			return c01Int(a.i - b.i), true
		default:
			return c01Int(a.i * b.i), true
		}
	}
}

func c01Cmp(op string) func(a, b *c01V) (*c01V, bool) {
	return func(a, b *c01V) (*c01V, bool) {
		if a.k == 4 || a.k == 5 || b.k == 4 || b.k == 5 {
			c01Open = true // yq defines ==, != and ordering on scalars only
		}
		switch op {
		case "==":
			return c01Bool(c01Eq(a, b)), true
		case "!=":
			return c01Bool(!c01Eq(a, b)), true
		}
		if a.k == 0 || b.k == 0 {
			c01Open = true
		}
		if (a.k == 2 || a.k == 6) && (b.k == 2 || b.k == 6) && a.k+b.k > 4 {
			// an integer against a float literal n/2: the numeric order, decided exactly on doubled values
			x, y := a.i, b.i
			if a.k == 2 {
				x = 2 * x
			}
			if b.k == 2 {
				y = 2 * y
			}
			a, b = c01Int(x), c01Int(y)
		}
		if a.k != 2 || b.k != 2 {
			return nil, false
		}
		switch op {
		case "<":
			return c01Bool(a.i < b.i), true
		case "<=":
			return c01Bool(a.i <= b.i), true
		case ">":
			return c01Bool(a.i > b.i), true
		default:
			return c01Bool(a.i >= b.i), true
		}
	}
}

// c01Select: a filter — the current node is kept (once) when any result of the predicate is neither null nor false.
func c01Select(pred c01F) c01F {
	return c01Each(func(v *c01V) ([]*c01V, bool) {
		r, ok := pred([]*c01V{v})
		if !ok {
			return nil, false
		}
		for _, x := range r {
			if c01Truthy(x) {
				return []*c01V{v}, true
			}
		}
		return nil, true
	})
}

func c01MapF(f c01F) c01F {
	return c01Each(func(v *c01V) ([]*c01V, bool) {
		if v.k != 4 {
			return nil, false
		}
		r, ok := f(v.items)
		if !ok {
			return nil, false
		}
		return []*c01V{c01Seq(r...)}, true
	})
}

var c01Length = c01Each(func(v *c01V) ([]*c01V, bool) {
	switch v.k {
	case 0:
		return []*c01V{c01Int(0)}, true
	case 3:
		return []*c01V{c01Int(int64(len(v.s)))}, true
	case 4, 5:
		return []*c01V{c01Int(int64(len(v.items)))}, true
	}
	return nil, false
})

var c01Keys = c01Each(func(v *c01V) ([]*c01V, bool) {
	switch v.k {
	case 4:
		var ks []*c01V
		for i := range v.items {
			ks = append(ks, c01Int(int64(i)))
		}
		return []*c01V{c01Seq(ks...)}, true
	case 5:
		var ks []*c01V
		for _, k := range v.keys {
			ks = append(ks, c01Str(k))
		}
		return []*c01V{c01Seq(ks...)}, true
	}
	return nil, false
})

var c01Reverse = c01Each(func(v *c01V) ([]*c01V, bool) {
	if v.k != 4 {
		return nil, false
	}
	var r []*c01V
	for i := len(v.items) - 1; i >= 0; i-- {
		r = append(r, v.items[i])
	}
	return []*c01V{c01Seq(r...)}, true
})

var c01Unique = c01Each(func(v *c01V) ([]*c01V, bool) {
	if v.k != 4 {
		return nil, false
	}
	var r []*c01V
	for _, x := range v.items {
		dup := false
		for _, y := range r {
			if c01Eq(x, y) {
				dup = true
			}
		}
		if !dup {
			r = append(r, x)
		}
	}
	return []*c01V{c01Seq(r...)}, true
})

var c01Flatten = c01Each(func(v *c01V) ([]*c01V, bool) {
	if v.k != 4 {
		return nil, false
	}
	var flat func(x *c01V) []*c01V
	flat = func(x *c01V) []*c01V {
		if x.k != 4 {
			return []*c01V{x}
		}
		var r []*c01V
		for _, y := range x.items {
			r = append(r, flat(y)...)
		}
		return r
	}
	return []*c01V{c01Seq(flat(v)...)}, true
})

var c01Sort = c01Each(func(v *c01V) ([]*c01V, bool) {
	if v.k != 4 {
		return nil, false
	}
	r := append([]*c01V{}, v.items...)
	for i := 1; i < len(r); i++ { // stable insertion sort on ints
		for j := i; j > 0 && verifConcreteBool(r[j].i < r[j-1].i); j-- {
			r[j], r[j-1] = r[j-1], r[j]
		}
	}
	return []*c01V{c01Seq(r...)}, true
})

func c01Quant(all bool) c01F {
	return c01Each(func(v *c01V) ([]*c01V, bool) {
		if v.k != 4 {
			return nil, false
		}
		res := all
		for _, x := range v.items {
			if all && !c01Truthy(x) {
				res = false
			}
			if !all && c01Truthy(x) {
				res = true
			}
		}
		return []*c01V{c01Bool(res)}, true
	})
}

func c01Slice(from int) c01F {
	return c01Each(func(v *c01V) ([]*c01V, bool) {
		if v.k != 4 {
			return nil, false
		}
		if from > len(v.items) {
			return []*c01V{c01Seq()}, true
		}
		return []*c01V{c01Seq(v.items[from:]...)}, true
	})
}

// c01SliceTo: .[from:to] on a sequence; negative positions count from the end, positions beyond the ends are clamped
func c01SliceTo(from, to int) c01F {
	return c01Each(func(v *c01V) ([]*c01V, bool) {
		if v.k != 4 {
			return nil, false
		}
		n := len(v.items)
		f, t := from, to
		if f < 0 {
			f += n
			if f < 0 {
				f = 0
			}
		}
		if t < 0 {
			t += n
		}
		if t > n {
			t = n
		}
		if f > t {
			return []*c01V{c01Seq()}, true
		}
		return []*c01V{c01Seq(v.items[f:t]...)}, true
	})
}

func c01Has(key string, idx int) c01F {
	return c01Each(func(v *c01V) ([]*c01V, bool) {
		switch v.k {
		case 5:
			for _, k := range v.keys {
				if k == key {
					return []*c01V{c01Bool(true)}, true
				}
			}
			return []*c01V{c01Bool(false)}, true
		case 4:
			return []*c01V{c01Bool(idx >= 0 && idx < len(v.items))}, true
		}
		return []*c01V{c01Bool(false)}, true
	})
}

var c01Recurse c01F

func init() {
	c01Recurse = c01Each(func(v *c01V) ([]*c01V, bool) {
		out := []*c01V{v}
		if v.k == 4 || v.k == 5 {
			for _, c := range v.items {
				r, _ := c01Recurse([]*c01V{c})
				out = append(out, r...)
			}
		}
		return out, true
	})
}

var c01Join = c01Each(func(v *c01V) ([]*c01V, bool) {
	if v.k != 4 {
		return nil, false
	}
	s := ""
	for i, x := range v.items {
		if i > 0 {
			s += "-"
		}
		if x.s != "" {
			s += x.s
		} else {
			s += verifItoa(x.i)
		}
	}
	return []*c01V{c01Str(s)}, true
})

var c01ToEntries = c01Each(func(v *c01V) ([]*c01V, bool) {
	var es []*c01V
	switch v.k {
	case 5:
		for i, k := range v.keys {
			es = append(es, c01Map([]string{"key", "value"}, []*c01V{c01Str(k), v.items[i]}))
		}
	case 4:
		for i, x := range v.items {
			es = append(es, c01Map([]string{"key", "value"}, []*c01V{c01Int(int64(i)), x}))
		}
	default:
		return nil, false
	}
	return []*c01V{c01Seq(es...)}, true
})

// c01Var: `f as $x | body($x)`: body evaluated once per result of f, on the same input.
func c01Var(f c01F, body func(x *c01V) c01F) c01F {
	return c01Each(func(v *c01V) ([]*c01V, bool) {
		xs, ok := f([]*c01V{v})
		if !ok {
			return nil, false
		}
		if len(xs) == 0 {
			c01Empty = true
		}
		var out []*c01V
		for _, x := range xs {
			r, ok := body(x)([]*c01V{v})
			if !ok {
				return nil, false
			}
			out = append(out, r...)
		}
		return out, true
	})
}

var c01Sum = c01Each(func(v *c01V) ([]*c01V, bool) {
	a, _ := c01Pipe(c01Key("a"), c01Splat)([]*c01V{v})
	var s int64
	for _, x := range a {
		s += x.i
	}
	return []*c01V{c01Int(s)}, true
})

// c01Alt: `//` answers from the left result alone when it is neither null nor false (once, like and/or);
// otherwise the left result is replaced by each right result.
func c01Alt(f, g c01F) c01F {
	return c01BinSC(f, g, func(a, b *c01V) (*c01V, bool) {
		return b, true
	}, func(a *c01V) *c01V {
		if c01Truthy(a) {
			return a
		}
		return nil
	})
}

func c01Logic(op string) func(a, b *c01V) (*c01V, bool) {
	return func(a, b *c01V) (*c01V, bool) {
		if op == "and" {
			return c01Bool(c01Truthy(a) && c01Truthy(b)), true
		}
		return c01Bool(c01Truthy(a) || c01Truthy(b)), true
	}
}

// c01Short: `and` / `or` answer from the left operand alone when it decides the result (as in jq).
func c01Short(op string) func(a *c01V) *c01V {
	return func(a *c01V) *c01V {
		if op == "and" && !c01Truthy(a) {
			return c01Bool(false)
		}
		if op == "or" && c01Truthy(a) {
			return c01Bool(true)
		}
		return nil
	}
}

var c01Not = c01Each(func(v *c01V) ([]*c01V, bool) { return []*c01V{c01Bool(!c01Truthy(v))}, true })

var c01GroupBy = c01Each(func(v *c01V) ([]*c01V, bool) {
	if v.k != 4 {
		return nil, false
	}
	var groups []*c01V
	for _, x := range v.items {
		placed := false
		for _, g := range groups {
			if c01Eq(g.items[0], x) {
				g.items = append(g.items, x)
				placed = true
				break
			}
		}
		if !placed {
			groups = append(groups, c01Seq(x))
		}
	}
	return []*c01V{c01Seq(groups...)}, true
})

// c01Contains: sequence contains sequence — every element of b equals some element of a (scalars here)
func c01Contains(a, b *c01V) (*c01V, bool) {
	if a.k != 4 || b.k != 4 {
		c01Open = true
		return nil, false
	}
	for _, y := range b.items {
		found := false
		for _, x := range a.items {
			if c01Eq(x, y) {
				found = true
			}
		}
		if !found {
			return c01Bool(false), true
		}
	}
	return c01Bool(true), true
}

// c01SeqMinus: a - b on sequences removes from a every element equal to some element of b (null equals only null)
func c01SeqMinus(a, b *c01V) (*c01V, bool) {
	if a.k != 4 || b.k != 4 {
		return nil, false
	}
	var out []*c01V
	for _, x := range a.items {
		drop := false
		for _, y := range b.items {
			if x.k >= 4 || y.k >= 4 {
				c01Open = true
			}
			if c01Eq(x, y) {
				drop = true
			}
		}
		if !drop {
			out = append(out, x)
		}
	}
	return c01Seq(out...), true
}

var c01FromEntries = c01Each(func(v *c01V) ([]*c01V, bool) {
	if v.k != 4 {
		return nil, false
	}
	var keys []string
	var items []*c01V
	for _, e := range v.items {
		if e.k != 5 || len(e.items) != 2 || e.items[0].k != 3 {
			c01Open = true
			return nil, true
		}
		keys = append(keys, e.items[0].s)
		items = append(items, e.items[1])
	}
	return []*c01V{c01Map(keys, items)}, true
})

type c01Prog struct {
	text string
	ref  c01F
}

func c01Programs() []c01Prog {
	a, b, s, m := c01Key("a"), c01Key("b"), c01Key("s"), c01Key("m")
	ai := c01Pipe(a, c01Splat)
	one := c01Lit(c01Int(1))
	return []c01Prog{
		{".", c01Self}, {".a", a}, {".a[]", ai}, {".a[0]", c01Pipe(a, c01Index(0))}, {".a[1]", c01Pipe(a, c01Index(1))}, {".a[-1]", c01Pipe(a, c01Index(-1))},
		{".m.k", c01Pipe(m, c01Key("k"))}, {".missing", c01Key("missing")}, {".b.c", c01Pipe(b, c01Key("c"))}, {".m[]", c01Pipe(m, c01Splat)}, {".e[]", c01Pipe(c01Key("e"), c01Splat)},
		{".a[] | . + 1", c01Pipe(ai, c01Bin(c01Self, one, c01Add))}, {".a[], .b", c01Union(ai, b)}, {".b, .a[]", c01Union(b, ai)}, {"[.a[], .b]", c01Collect(c01Union(ai, b))}, {"[.e[]]", c01Collect(c01Pipe(c01Key("e"), c01Splat))},
		{"{\"k\": .b}", c01Object("k", b)}, {"{\"k\": .a[]}", c01Object("k", ai)},
		{".a[] + .b", c01Bin(ai, b, c01Add)}, {".b + .a[]", c01Bin(b, ai, c01Add)}, {"(.a[], .b) + (.b, .a[])", c01Bin(c01Union(ai, b), c01Union(b, ai), c01Add)},
		{".a[] - .b", c01Bin(ai, b, c01Arith("-"))}, {".a[] * .b", c01Bin(ai, b, c01Arith("*"))}, {"(.a[] * .a[]) - .b", c01Bin(c01Bin(ai, ai, c01Arith("*")), b, c01Arith("-"))},
		{".a[] == .b", c01Bin(ai, b, c01Cmp("=="))}, {".a[] != .b", c01Bin(ai, b, c01Cmp("!="))}, {".a[] < .b", c01Bin(ai, b, c01Cmp("<"))}, {".a[0] <= .a[1]", c01Bin(c01Pipe(a, c01Index(0)), c01Pipe(a, c01Index(1)), c01Cmp("<="))},
		{".a[] > .b", c01Bin(ai, b, c01Cmp(">"))}, {".b >= .a[]", c01Bin(b, ai, c01Cmp(">="))}, {".a == .a", c01Bin(a, a, c01Cmp("=="))}, {".m == .a", c01Bin(m, a, c01Cmp("=="))},
		{".a[] | select(. == 1)", c01Pipe(ai, c01Select(c01Bin(c01Self, one, c01Cmp("=="))))}, {".a | map(. + 1)", c01Pipe(a, c01MapF(c01Bin(c01Self, one, c01Add)))},
		{".a | map(select(. > 1))", c01Pipe(a, c01MapF(c01Select(c01Bin(c01Self, one, c01Cmp(">")))))}, {"select(.b == 1)", c01Select(c01Bin(b, one, c01Cmp("==")))},
		{".a | length", c01Pipe(a, c01Length)}, {".m | length", c01Pipe(m, c01Length)}, {".s | length", c01Pipe(s, c01Length)}, {".missing | length", c01Pipe(c01Key("missing"), c01Length)},
		{"keys", c01Keys}, {".a | keys", c01Pipe(a, c01Keys)}, {"has(\"a\")", c01Has("a", 0)}, {"has(\"zz\")", c01Has("zz", 0)}, {".a | has(1)", c01Pipe(a, c01Has("", 1))}, {".a | has(5)", c01Pipe(a, c01Has("", 5))},
		{".a | reverse", c01Pipe(a, c01Reverse)}, {".a | unique", c01Pipe(a, c01Unique)}, {"[.a, [.b]] | flatten", c01Pipe(c01Collect(c01Union(a, c01Collect(b))), c01Flatten)}, {".a | sort", c01Pipe(a, c01Sort)},
		{"[.a[] == 1] | any", c01Pipe(c01Collect(c01Bin(ai, one, c01Cmp("=="))), c01Quant(false))}, {"[.a[] == 1] | all", c01Pipe(c01Collect(c01Bin(ai, one, c01Cmp("=="))), c01Quant(true))}, {".e | any", c01Pipe(c01Key("e"), c01Quant(false))}, {".e | all", c01Pipe(c01Key("e"), c01Quant(true))},
		{".a | join(\"-\")", c01Pipe(a, c01Join)}, {".a | .[1:]", c01Pipe(a, c01Slice(1))}, {".a[1:]", c01Pipe(a, c01Slice(1))}, {".a[0:1]", c01Pipe(a, c01SliceTo(0, 1))}, {".a[-1:]", c01Pipe(a, c01SliceTo(-1, 99))}, {".a[1:2] | length", c01Pipe(a, c01Pipe(c01SliceTo(1, 2), c01Length))}, {".m.k as $x | .a[0:2]", c01Var(c01Pipe(m, c01Key("k")), func(_ *c01V) c01F { return c01Pipe(a, c01SliceTo(0, 2)) })}, {".m | to_entries", c01Pipe(m, c01ToEntries)}, {".a | to_entries", c01Pipe(a, c01ToEntries)}, {"..", c01Recurse}, {".a | ..", c01Pipe(a, c01Recurse)},
		{".b as $x | .a[] + $x", c01Var(b, func(x *c01V) c01F { return c01Bin(ai, c01Lit(x), c01Add) })}, {".a[] as $x | [$x, .b]", c01Var(ai, func(x *c01V) c01F { return c01Collect(c01Union(c01Lit(x), b)) })},
		{".a[] as $i ireduce (0; . + $i)", c01Sum},
		{".b as $x | (.m.k as $x | $x) + $x", c01Var(b, func(x *c01V) c01F {
			return c01Bin(c01Var(c01Pipe(m, c01Key("k")), func(y *c01V) c01F { return c01Lit(y) }), c01Lit(x), c01Add)
		})},
		{".b as $x | [(.m.k as $y | $y), $x]", c01Var(b, func(x *c01V) c01F {
			return c01Collect(c01Union(c01Var(c01Pipe(m, c01Key("k")), func(y *c01V) c01F { return c01Lit(y) }), c01Lit(x)))
		})},
		{".b as $x | ((.a[] as $x | $x), $x)", c01Var(b, func(x *c01V) c01F {
			return c01Union(c01Var(ai, func(y *c01V) c01F { return c01Lit(y) }), c01Lit(x))
		})}, {".b // 5", c01Alt(b, c01Lit(c01Int(5)))}, {".missing // 5", c01Alt(c01Key("missing"), c01Lit(c01Int(5)))}, {"(.a[] == 1) // 7", c01Alt(c01Bin(ai, one, c01Cmp("==")), c01Lit(c01Int(7)))},
		{"(.a[] == 1) and (.b == 1)", c01BinSC(c01Bin(ai, one, c01Cmp("==")), c01Bin(b, one, c01Cmp("==")), c01Logic("and"), c01Short("and"))}, {"(.b == 1) or (.a[] == 1)", c01BinSC(c01Bin(b, one, c01Cmp("==")), c01Bin(ai, one, c01Cmp("==")), c01Logic("or"), c01Short("or"))},
		{".b == 1 | not", c01Pipe(c01Bin(b, one, c01Cmp("==")), c01Not)}, {".a + [.b]", c01Bin(a, c01Collect(b), c01Add)}, {".a + .a", c01Bin(a, a, c01Add)}, {".m + {\"z\": .b}", c01Bin(m, c01Object("z", b), c01Add)}, {".m + {\"k\": .b}", c01Bin(m, c01Object("k", b), c01Add)},
		{"\"x\" + .s", c01Bin(c01Lit(c01Str("x")), s, c01Add)}, {".m + .b", c01Bin(m, b, c01Add)}, {".a[] - .m", c01Bin(ai, m, c01Arith("-"))}, {".a.k", c01Pipe(a, c01Key("k"))},
		{".a | map(. * 2) | reverse", c01Pipe(a, c01Pipe(c01MapF(c01Bin(c01Self, c01Lit(c01Int(2)), c01Arith("*"))), c01Reverse))}, {"[.a[] | select(. != 0)] | length", c01Pipe(c01Collect(c01Pipe(ai, c01Select(c01Bin(c01Self, c01Lit(c01Int(0)), c01Cmp("!="))))), c01Length)},
		// sequence subtraction, with nulls and strings among the elements
		{"[.missing, .b, .s] - [.b]", c01Bin(c01Collect(c01Union(c01Union(c01Key("missing"), b), s)), c01Collect(b), c01SeqMinus)},
		{"[.missing, .a[], .s] - [.missing]", c01Bin(c01Collect(c01Union(c01Union(c01Key("missing"), ai), s)), c01Collect(c01Key("missing")), c01SeqMinus)},
		{"[null, .b, .s] - [.b]", c01Bin(c01Collect(c01Union(c01Union(c01Lit(c01Null()), b), s)), c01Collect(b), c01SeqMinus)},
		{"[null, .a[], .s] - [.s]", c01Bin(c01Collect(c01Union(c01Union(c01Lit(c01Null()), ai), s)), c01Collect(s), c01SeqMinus)},
		{"[.b, null, .s] - [null]", c01Bin(c01Collect(c01Union(c01Union(b, c01Lit(c01Null())), s)), c01Collect(c01Lit(c01Null())), c01SeqMinus)},
		{".a - [.b]", c01Bin(a, c01Collect(b), c01SeqMinus)}, {"[.b, .missing] - [.s]", c01Bin(c01Collect(c01Union(b, c01Key("missing"))), c01Collect(s), c01SeqMinus)},
		// the same variable on both sides of a union / twice in a collection
		{".b as $x | ($x, $x)", c01Var(b, func(x *c01V) c01F { return c01Union(c01Lit(x), c01Lit(x)) })},
		{".a[] as $x | [$x, $x]", c01Var(ai, func(x *c01V) c01F { return c01Collect(c01Union(c01Lit(x), c01Lit(x))) })},
		{".b as $x | ($x, .b, $x)", c01Var(b, func(x *c01V) c01F { return c01Union(c01Union(c01Lit(x), b), c01Lit(x)) })},
		{".a | group_by(.)", c01Pipe(a, c01GroupBy)}, {"[.a[], .b, .a[]] | group_by(.) | length", c01Pipe(c01Collect(c01Union(c01Union(ai, b), ai)), c01Pipe(c01GroupBy, c01Length))},
		{".a | contains([1])", c01Bin(a, c01Collect(one), c01Contains)}, // the argument of contains is evaluated on the current node (the sequence), where a key step is an error
		{"[.a[], .b] | contains([.b])", c01Pipe(c01Collect(c01Union(ai, b)), c01Bin(c01Self, c01Collect(b), c01Contains))}, {".a | contains(.e)", c01Pipe(a, c01Bin(c01Self, c01Key("e"), c01Contains))},
		{".e as $e | .a | contains($e)", c01Var(c01Key("e"), func(x *c01V) c01F { return c01Pipe(a, c01Bin(c01Self, c01Lit(x), c01Contains)) })},
		{".b as $x | [.a[], .b] | contains([$x])", c01Var(b, func(x *c01V) c01F {
			return c01Pipe(c01Collect(c01Union(ai, b)), c01Bin(c01Self, c01Collect(c01Lit(x)), c01Contains))
		})},
		{".m | to_entries | from_entries", c01Pipe(m, c01Pipe(c01ToEntries, c01FromEntries))}, {".m | with_entries(.)", c01Pipe(m, c01Pipe(c01ToEntries, c01FromEntries))},
		{".m | with_entries(select(.value > 1))", c01Pipe(m, c01Pipe(c01ToEntries, c01Pipe(c01MapF(c01Select(c01Bin(c01Key("value"), one, c01Cmp(">")))), c01FromEntries)))},
		{"[.a[], .b] | unique | length", c01Pipe(c01Collect(c01Union(ai, b)), c01Pipe(c01Unique, c01Length))}, {".a | reverse | .[0]", c01Pipe(a, c01Pipe(c01Reverse, c01Index(0)))},
		// operators with parameters over SEVERAL current nodes of different size: a parameter that depends on the node
		// (an open slice end, a computed bound, a computed index) is evaluated for each node
		{"(.a, [.b, .b, .b]) | .[1:]", c01Pipe(c01Union(a, c01Collect(c01Union(b, c01Union(b, b)))), c01Slice(1))},
		{"([.b, .b, .b], .a, .e) | .[1:]", c01Pipe(c01Union(c01Collect(c01Union(b, c01Union(b, b))), c01Union(a, c01Key("e"))), c01Slice(1))},
		{"[.a, [.b, .b, .b], .e] | map(.[1:] | length)", c01Pipe(c01Collect(c01Union(a, c01Union(c01Collect(c01Union(b, c01Union(b, b))), c01Key("e")))), c01MapF(c01Pipe(c01Slice(1), c01Length)))},
		{"(.a, [.b, .b, .b]) | .[-1:]", c01Pipe(c01Union(a, c01Collect(c01Union(b, c01Union(b, b)))), c01SliceTo(-1, 99))},
		{"(.a, [.b, .b, .b]) | length", c01Pipe(c01Union(a, c01Collect(c01Union(b, c01Union(b, b)))), c01Length)},
		{"(.a, [.b, .b, .b]) | has(2)", c01Pipe(c01Union(a, c01Collect(c01Union(b, c01Union(b, b)))), c01Has("", 2))},
		{"(.a, [.b, .b, .b]) | .[-1]", c01Pipe(c01Union(a, c01Collect(c01Union(b, c01Union(b, b)))), c01Index(-1))},
		// integers against float literals with a fraction on both sides of zero (the order is the numeric one)
		{".a[] | select((. - 3) > -2.5)", c01Pipe(ai, c01Select(c01Bin(c01Bin(c01Self, c01Lit(c01Int(3)), c01Arith("-")), c01Lit(c01Half(-5)), c01Cmp(">"))))},
		{".a | map(select((. - 2) < -0.5))", c01Pipe(a, c01MapF(c01Select(c01Bin(c01Bin(c01Self, c01Lit(c01Int(2)), c01Arith("-")), c01Lit(c01Half(-1)), c01Cmp("<")))))},
		{".m.k | ((. - 3) >= -1.5)", c01Pipe(c01Pipe(m, c01Key("k")), c01Bin(c01Bin(c01Self, c01Lit(c01Int(3)), c01Arith("-")), c01Lit(c01Half(-3)), c01Cmp(">=")))},
		{"-0.5 <= (.b - 1)", c01Bin(c01Lit(c01Half(-1)), c01Bin(b, one, c01Arith("-")), c01Cmp("<="))},
		{".a | map(select(. > 1.5))", c01Pipe(a, c01MapF(c01Select(c01Bin(c01Self, c01Lit(c01Half(3)), c01Cmp(">")))))},
		{"2.5 > .m.k", c01Bin(c01Lit(c01Half(5)), c01Pipe(m, c01Key("k")), c01Cmp(">"))},
		// select whose condition yields NO result for some of the current nodes (a splat of an empty sequence, a nested
		// select that drops everything): such a node is not selected, whatever the verdict on its neighbours was
		{"(.a, .e) | select(.[] == 1)", c01Pipe(c01Union(a, c01Key("e")), c01Select(c01Bin(c01Splat, one, c01Cmp("=="))))},
		{"(.e, .a, .e) | select(.[] == 1)", c01Pipe(c01Union(c01Key("e"), c01Union(a, c01Key("e"))), c01Select(c01Bin(c01Splat, one, c01Cmp("=="))))},
		{"[.a, .e, .m, .e] | map(select(.[] > 0))", c01Pipe(c01Collect(c01Union(a, c01Union(c01Key("e"), c01Union(m, c01Key("e"))))), c01MapF(c01Select(c01Bin(c01Splat, c01Lit(c01Int(0)), c01Cmp(">")))))},
		{"(.m, .a, .e) | select(.[] | select(. == 1))", c01Pipe(c01Union(m, c01Union(a, c01Key("e"))), c01Select(c01Pipe(c01Splat, c01Select(c01Bin(c01Self, one, c01Cmp("=="))))))},
	}
}

func VerifC01Core() {
	progs := c01Programs()
	p := verifChoice("program", len(progs))
	if only := verifParam("only", -1); only >= 0 && only != p {
		return
	}
	n := verifChoice("alen", 3)
	var xs []string
	var xv []*c01V
	aSeq := vSeq()
	for i := 0; i < n; i++ {
		d := verifStrN("x"+verifItoa(int64(i)), 1, "03")
		xs = append(xs, d)
		iv, _ := parseInt64ForHarness(d)
		xv = append(xv, &c01V{k: 2, i: iv, s: d})
		aSeq.Content = append(aSeq.Content, vInt(d))
	}
	bd := verifStrN("b", 1, "03")
	bv, _ := parseInt64ForHarness(bd)
	md := verifStrN("mk", 1, "03")
	mv, _ := parseInt64ForHarness(md)
	doc := vDoc(vMap(vStr("a"), aSeq, vStr("b"), vInt(bd), vStr("s"), vStr("k"), vStr("m"), vMap(vStr("k"), vInt(md)), vStr("e"), vSeq()))
	// evaluation mode: sequence mode (default) or eval-all, where readDocuments marks the document roots
	// EvaluateTogether and binary operators take the all-together path of crossFunction
	evalAll := verifChoice("evalAll", 2) == 1
	doc.EvaluateTogether = evalAll
	ref := c01Map([]string{"a", "b", "s", "m", "e"}, []*c01V{c01Seq(xv...), {k: 2, i: bv, s: bd}, c01Str("k"), c01Map([]string{"k"}, []*c01V{{k: 2, i: mv, s: md}}), c01Seq()})
	c01Empty, c01Open, c01MissingOperand, c01OperandDepth = false, false, false, 0
	want, wantOK := progs[p].ref([]*c01V{ref})
	res, err := vEval(vParse(progs[p].text), doc)
	label := "program=" + progs[p].text
	if evalAll {
		label += " mode=eval-all"
	}
	if c01Open {
		verifCover("C01/open-region")
		return
	}
	if c01Empty {
		label += " [empty operand stream]"
	}
	if c01MissingOperand {
		label += " [missing key read as an operand]"
	}
	if !wantOK {
		verifCover("C01/error-expected")
		verifAssert(err != nil, "C01/error-not-reported "+label)
		return
	}
	verifAssert(err == nil, "C01/unexpected-error "+label)
	if err != nil {
		return
	}
	got := vDumpList(res)
	verifObserve("got", got)
	verifObserve("want", c01DumpList(want))
	verifAssert(verifEqStr(got, c01DumpList(want)), "C01/result-differs-from-reference "+label)
	verifCover("C01/end")
}

// VerifC01ContainsMap: `contains` on maps — a map contains {K: V} exactly when it has the key K and the value there
// contains V (for strings: V is a substring). Keys and values range over the same small alphabet, so a value may
// spell a key (the lookup must search the keys only).
func VerifC01ContainsMap() {
	k1, k2 := verifStrN("k1", 1, "ab"), verifStrN("k2", 1, "ab")
	verifAssume(!verifEqStr(k1, k2))
	v1, v2 := verifStrN("v1", 1, "ac"), verifStrN("v2", 1, "ac")
	qk, qv := verifStrN("qk", 1, "ac"), verifStrN("qv", 1, "ac")
	doc := vDoc(vMap(vStr(k1), vStr(v1), vStr(k2), vStr(v2)))
	e := vParse("contains({\"QK\": \"QV\"})")
	vSubst(e, "QK", "", qk)
	vSubst(e, "QV", "", qv)
	res, err := vEval(e, doc)
	verifAssert(err == nil && res.Len() == 1, "C01/contains-map-error")
	if err != nil || res.Len() != 1 {
		return
	}
	want := verifOr(verifAnd(verifEqStr(qk, k1), verifEqStr(qv, v1)), verifAnd(verifEqStr(qk, k2), verifEqStr(qv, v2)))
	got := res.Front().Value.(*CandidateNode).Value == "true"
	verifAssert(got == want, "C01/contains-on-a-map-differs-from-its-definition")
	// equality of maps inside sequence subtraction uses the same lookup: [m] - [m'] is empty exactly when m == m'
	if verifEqStr(qk, k2) {
		verifCover("C01/contains-map/end")
		return // {k2: .., k2: ..} is no map
	}
	other := vMap(vStr(qk), vStr(qv), vStr(k2), vStr(v2))
	sub, err := vEval(vParse(".[0:1] - .[1:2] | length"), vDoc(vSeq(vMap(vStr(k1), vStr(v1), vStr(k2), vStr(v2)), other)))
	verifAssert(err == nil && sub.Len() == 1, "C01/subtract-maps-error")
	if err == nil && sub.Len() == 1 {
		same := verifAnd(verifEqStr(qk, k1), verifEqStr(qv, v1))
		verifAssert((sub.Front().Value.(*CandidateNode).Value == "0") == same, "C01/equality-of-maps-differs-from-its-definition")
	}
	verifCover("C01/contains-map/end")
}


// VerifC01ObjectKeys: object construction with several entries: `{K1: v1, K2: v2, K3: v3}` is the map with exactly those
// entries in that order - keys are data, whatever characters they hold (K over '*'..'z': glob characters, digits,
// punctuation, letters; pairwise different).
func VerifC01ObjectKeys() {
	n := 2 + verifChoice("entries", 2)
	keys := make([]string, n)
	text := "{"
	for i := 0; i < n; i++ {
		keys[i] = verifStrN("k"+verifItoa(int64(i)), 1, "*z")
		for j := 0; j < i; j++ {
			verifAssume(!verifEqStr(keys[i], keys[j]))
		}
		if i > 0 {
			text += ", "
		}
		text += "\"777000" + verifItoa(int64(i)) + "\": " + []string{".b", ".s", "7"}[i]
	}
	text += "}"
	e := vParse(text)
	for i := 0; i < n; i++ {
		vSubst(e, "777000"+verifItoa(int64(i)), "!!str", keys[i])
	}
	res, err := vEval(e, vDoc(vMap(vStr("b"), vInt("1"), vStr("s"), vStr("str"))))
	verifAssert(err == nil && res != nil && res.Len() == 1, "C01/object-construction-failed")
	if err != nil || res.Len() != 1 {
		return
	}
	m := res.Front().Value.(*CandidateNode)
	verifAssert(m.Kind == MappingNode && len(m.Content) == 2*n, "C01/object-construction-entry-count")
	if m.Kind != MappingNode || len(m.Content) != 2*n {
		return
	}
	vals := []string{"1", "str", "7"}
	for i := 0; i < n; i++ {
		verifAssert(verifEqStr(m.Content[2*i].Value, keys[i]), "C01/object-construction-key")
		verifAssert(m.Content[2*i+1].Value == vals[i], "C01/object-construction-value")
	}
	verifCover("C01/object-keys/end")
}

// VerifC01OperatorsPerNode: an operator applied to several current nodes gives, in order, what it gives each node on
// its own: `(N1, N2, N3) | (E)` is the concatenation of `N1 | (E)`, `N2 | (E)`, `N3 | (E)` - also when E's left side
// yields nothing for some of the nodes (an empty sequence splatted), where yq's operators compute with "nothing" in
// their own way: whatever that way is, it is per node.
func VerifC01OperatorsPerNode() {
	nodes := []string{".a", ".e", ".m", "[.b]", "[]"}
	exprs := []string{".[] // 7", ".[] + 1", ".[] == 1", ".[] and true", ".[] or false", ".[] < 2", "[.[] // 7]", ".[] != 1", "(.[] | select(. > 1)) // 9", "1 + .[]", "7 // .[]"}
	e := exprs[verifChoice("expr", len(exprs))]
	n := 2 + verifChoice("nodes", 2)
	x0, x1, b, mk := verifStrN("x0", 1, "03"), verifStrN("x1", 1, "03"), verifStrN("b", 1, "03"), verifStrN("mk", 1, "03")
	doc := func() *CandidateNode {
		return vDoc(vMap(vStr("a"), vSeq(vInt(x0), vInt(x1)), vStr("b"), vInt(b), vStr("m"), vMap(vStr("k"), vInt(mk)), vStr("e"), vSeq()))
	}
	all := "("
	want := ""
	okAll := true
	for i := 0; i < n; i++ {
		nd := nodes[verifChoice("n"+verifItoa(int64(i)), len(nodes))]
		if i > 0 {
			all += ", "
		}
		all += nd
		res, err := vEval(vParse(nd+" | ("+e+")"), doc())
		if err != nil {
			okAll = false
			continue
		}
		if d := vDumpList(res); d != "" {
			if want != "" {
				want += " | "
			}
			want += d
		}
	}
	all += ") | (" + e + ")"
	res, err := vEval(vParse(all), doc())
	label := " expr=" + e
	if !okAll {
		verifCover("C01/per-node/error-expected")
		verifAssert(err != nil, "C01/error-for-one-node-not-reported"+label)
		return
	}
	verifAssert(err == nil, "C01/unexpected-error per-node"+label)
	if err != nil {
		return
	}
	got := vDumpList(res)
	verifObserve("got", got)
	verifObserve("want", want)
	verifAssert(verifEqStr(got, want), "C01/operator-over-several-nodes-differs-from-node-by-node"+label)
	verifCover("C01/per-node/end")
}
