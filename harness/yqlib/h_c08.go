package yqlib

import yaml "gopkg.in/yaml.v3"

// C08 — conditions, keys and operands are evaluated read-only.
//
// For every expression E of the assignment-free vocabulary below, `E as $x | .` must return the very input
// node, and a full dump of the document (kind, tag, value, style, anchor, comments, order, at every node)
// taken before must equal the dump taken after. The same for `select(E)` used as a pass-through filter.

var c08Exprs = []string{
	// traversal, also of things that are not there (would auto-create in a writable context)
	".a", ".a[0]", ".a[]", ".a[7770001]", ".missing", ".missing.deeper", ".b.z.y", ".a[1:]", "..", "...", ".a[2][0]", ".b[\"c\"]", ".[\"nokey\"]", ".a | .[7770001]",
	// constructors
	"[.a, .b]", "{\"k\": .a}", "[.a[] | . + 1]", "{\"k\": .missing}",
	// arithmetic / comparison / boolean / alternative on both operand sides
	".a[0] + .a[1]", ".a[0] - .a[1]", ".a[0] * .a[1]", ".a[0] % 2", ".a + .a", ".a - [1]", ".b * .b", ".b * {\"n\": {\"m\": 1}}", ".b *+ {\"c\": 1}",
	".a[0] < .a[1]", ".a[0] >= .a[1]", ".a == .b", ".a != .b", ".a[0] == .missing", ".a and .b", ".missing or .b", ".a | not", ".missing // 1", ".a // .b", ".a[0] // .nothere",
	// functions
	"length", ".a | length", "keys", ".a | keys", "has(\"a\")", ".a | has(5)", "has(\"nokey\")", ".a | sort", ".a | sort_by(.)", ".a | reverse", ".a | .[0:2] | unique", ".a | .[0:2] | unique_by(.)",
	".a | group_by(.)", ".a | flatten", ".a | flatten(1)", ".d | flatten", ".d | flatten(1)", ".d | flatten(2)", ".d | flatten(3)", "[.d] | flatten", ".d | map(flatten)", ".d | .. | select(kind == \"seq\") | length", ".d[1] | flatten", ".d | sort_by(flatten | .[0])", ".a | map(. )", ".a | map(select(. == 1))", ".a | filter(. == 1)", ".a | any", ".a | all", ".a | any_c(. == 1)", ".a | all_c(. == 1)",
	".a | contains([1])", ".b | contains({\"c\": 1})", ".s | contains(\"t\")", ".a | join(\",\")", ".s | split(\"t\")", ".a | to_entries", ".b | to_entries", ".b | to_entries | from_entries",
	".b | with_entries(.)", "pick([\"a\"])", "pick([\"nokey\"])", "omit([\"a\"])", ".a | pick([0])", ".a | min", ".a | max", ".a | .[] as $i ireduce (0; . + $i)", ".a[0] as $v | $v + 1",
	".b as $i ireduce ({}; . * {\"k\": $i.nokey})", "(.b, .b) as $i ireduce ({}; . * {\"k\": $i.nokey})", ".b as $i ireduce ({}; . + {\"k\": $i.nokey})", ".b as $i ireduce ([]; . + [$i.nokey])", ".b as $i ireduce (0; $i.nokey // .)", ".a[] as $i ireduce ({}; . * {\"k\": $i})", ".b as $i ireduce ({}; {\"k\": $i.nokey} * .)",
	"[.b] | .[] as $i ireduce ({}; . * {\"k\": $i.nokey})", ".b as $i | {\"k\": $i.nokey}", ".b as $i | ({} | $i.nokey)", ".b as $i | ([] | $i.nokey)", "{\"k\": .b.nokey}", "[.b.nokey]", "{} | .x",
	".b as $i | (1 | $i.nokey)", ".b as $i | (.a | $i.nokey)", "[.b] | .[] as $i ireduce (0; . + ($i.nokey // 1))", ".b as $i | ({\"z\": 1} * {\"k\": $i.nokey})", "(.b | {\"k\": .nokey})", ".b as $i | [$i.nokey, $i.nokey2]",
	"select(.a)", "select(.missing)", "select(.a[7770001] == 1)", ".a[] | select(. == 1)", "to_entries", "[..] | length", ".a | tag", ".b | kind", ".s | type", ".a[0] | path", ".a[0] | parent", ".a[0] | key",
	".a | line", ".s | upcase", ".s | downcase", ".s | trim", ".s | to_number", ".a[0] | to_string", ".s | test(\"t\")", ".s | sub(\"t\", \"x\")", ".s | match(\"t\")", ".s | capture(\"(?P<x>t)\")", ".s | length",
	".a | del(.[0])", ".b | del(.c)", ".a | (.[0] = 5)", ".b | (.c |= 5)", ".b | (.n = 5)", "with_entries(.)", ".a | map_values(. + 1)", ".b | sort_keys(.)", ".a | explode(.)", ".a | shuffle | length", ". as $d | $d.a", "eval(\".a\")",
	"document_index", "file_index", "filename", ".a | style", ".a | anchor", ".s | alias", ".b | omit([\"c\"])", ".a | array_to_map", ".a | pivot", "[.b] | pivot",
}

// expressions of the list above that contain an assignment/update/delete/in-place operator applied to a
// sub-value: per the statement they are outside C08 ("contains no assignment, update, delete or in-place operator").
var c08NotReadOnly = map[string]bool{
	".a | del(.[0])": true, ".b | del(.c)": true, ".a | (.[0] = 5)": true, ".b | (.c |= 5)": true, ".b | (.n = 5)": true,
	".a | map_values(. + 1)": true, ".b | sort_keys(.)": true, ".a | explode(.)": true, ".a | shuffle | length": true,
}

func c08Doc(x0, x1, x2, x3 string) *CandidateNode {
	a := vSeq(vInt(x0), vInt(x1), vSeq(vInt(x2)))
	a.HeadComment = "ha"
	a.Style = yaml.FlowStyle
	b := vMap(vStr("c"), vInt(x3))
	b.LineComment = "lb"
	s := vStr("str")
	s.Style = yaml.DoubleQuotedStyle
	s.FootComment = "fs"
	// a sequence nested four levels deep (operators that recurse into children: flatten, .., deep merges)
	deep := vSeq(vSeq(vSeq(vInt(x0))), vSeq(vInt(x1), vSeq(vInt(x2), vSeq(vInt(x3)))))
	root := vMap(vStr("a"), a, vStr("b"), b, vStr("s"), s, vStr("d"), deep)
	root.HeadComment = "hr"
	return vDoc(root)
}

func VerifC08ReadOnly() {
	which := verifChoice("expr", len(c08Exprs))
	if only := verifParam("only", -1); only >= 0 && only != which {
		return
	}
	e := c08Exprs[which]
	if e == "" || c08NotReadOnly[e] {
		return
	}
	x0 := verifStrN("x0", 1, vDigits())
	x1 := verifStrN("x1", 1, vDigits())
	x2 := verifStrN("x2", 1, vDigits())
	x3 := verifStrN("x3", 1, vDigits())
	form := verifChoice("form", 3)
	idx := 0
	text := ""
	switch form {
	case 0:
		text = "(" + e + ") as $x | ."
	case 1:
		text = "select([" + e + "] | length >= 0)" // pass-through filter whose predicate evaluates E
	default:
		text = "(" + e + "), ." // E evaluated at the top level, next to the document itself
	}
	doc := c08Doc(x0, x1, x2, x3)
	exp := vParse(text)
	if vSubst(exp, "7770001", "!!int", "7770001") > 0 {
		// symbolic index incl. out-of-range and negative values
		idx = verifIntRange("idx", -4, 6)
		vSubst(exp, "7770001", "!!int", verifItoa(int64(idx)))
	}
	before := vDumpFull(doc)
	res, err := vEval(exp, doc)
	after := vDumpFull(doc)
	label := "form=" + []string{"as-var", "select", "union-with-document"}[form] + " expr=" + e
	if err != nil {
		// an error is an answer too; the input must still be untouched
		verifCover("C08/error")
		verifAssert(verifEqStr(before, after), "C08/input-unchanged-after-error "+label)
		return
	}
	verifObserve("after", after)
	verifAssert(verifEqStr(before, after), "C08/input-unchanged "+label)
	// `E as $x | .` yields the input once per result of E; select() yields it once: every result is the input node itself
	if form == 2 {
		// (E), . : the last result is the document
		verifAssert(res.Len() >= 1 && res.Back().Value.(*CandidateNode) == doc, "C08/returns-the-input "+label)
	} else {
		for _, r := range vNodes(res) {
			verifAssert(r == doc, "C08/returns-the-input "+label)
		}
	}
	if form == 1 {
		verifAssert(res.Len() == 1, "C08/select-passes-input-once "+label)
	}
	verifCover("C08/end")
}

// VerifC08Encoders: the read-only obligation for expressions that run an encoder or a format conversion inside the
// expression (to_yaml, tostring, @json, string interpolation, unique on containers …) and for traversals of
// null values, on a document that carries what those code paths are tempted to strip or normalise in place:
// foot comments on containers, an anchor with an alias and a merge key, a null, custom styles.
var c08EncExprs = []string{
	".a | to_yaml", ".b | to_yaml", "to_yaml", ".a | tostring", ".b | tostring", ".a | to_json", ".b | to_json(0)", "to_json", ".a | @json", ".b | @yaml", ".r | to_json", ".m | to_json", ".m | to_yaml", ".m | to_xml", ".r | to_xml", "to_xml",
	".a | to_csv", "[.a] | to_tsv", ".b | to_xml", ".a | @sh", ".s | @base64", ".s | @uri", ".r | to_yaml", ".r | tostring",
	"\"x \\(.a) y\"", "\"x \\(.b) y\"", "\"\\(.r)\"", "[.a, .a] | unique", "[.b, .b] | unique", "[.b, .b] | unique_by(.)", "[.b, .r] | unique_by(.c)", "[.a, .a] | group_by(.)", "[.b, .r] | sort_by(.c)",
	".n[0]", ".n[]", ".n.x", ".n | .[0]", ".n | length", ".n | keys", ".n | to_yaml", ".n | has(0)", ".n[1:]", ".n | .[\"k\"]", ".n | map(.)", ".n | .[]",
	".r.c", ".r | keys", ".m.c", ".m | keys", ".m | to_entries", "[.r] | flatten", ".r | length", ".m | length", ".m[]", ".r[]", ".m | has(\"c\")",
	".a | to_yaml | from_yaml", ".b | to_json | from_json", ".s | from_yaml", ".a | @yaml | @yamld", ".b | tojson | fromjson",
	// merges (every flag) whose operands come from the document, also through its merge key and its aliases: the
	// result is a new value, the operands - and the anchored map they merge or stand for - read as before
	".m * {\"c\": 9}", ".m *? {\"c\": 9}", ".m *n {\"c\": 9}", ".m *+ {\"c\": [9]}", ".m *d {\"c\": 9}", ".m *?+ {\"i\": 9}", ".m *?d {\"j\": 9}", ".m *?c {\"c\": 9}",
	"{\"c\": 9} *? .m", ".m *? {\"c\": {\"z\": 1}}", ".m *? {\"i\": [1]}", ".b *? {\"c\": 9}", ".b *n {\"zz\": 9}", ".m *n {\"zz\": {\"y\": 1}}", ".m * .b", ".b * .m", ".m *? .m",
	".m + {\"c\": 9}", ".m | with_entries(.)", ".m | pick([\"c\"])", ".m | omit([\"d\"])", ".m | sort_keys(.)", ".m | to_entries | from_entries",
}

// expressions whose evaluation hands the scalars to the yaml.v3 emitter or to a regexp replacement run on concrete
// scalar values (the emitter is a native library, see DESIGN 2.5); all others run on symbolic digits
var c08EncConcrete = map[string]bool{".a | to_yaml": true, ".b | to_yaml": true, "to_yaml": true, ".a | tostring": true, ".b | tostring": true, ".b | to_json(0)": true, ".a | @json": true, ".b | @yaml": true, "\"x \\(.a) y\"": true, "\"x \\(.b) y\"": true, "[.a, .a] | unique": true, "[.b, .b] | unique": true, "[.b, .b] | unique_by(.)": true, ".a | to_yaml | from_yaml": true, ".b | to_json | from_json": true, ".a | @yaml | @yamld": true, ".b | tojson | fromjson": true}

func c08EncDoc(symbolic bool) *CandidateNode {
	x1, x2, x3 := "1", "2", "3"
	if symbolic {
		x1, x2, x3 = verifStrN("x1", 1, "09"), verifStrN("x2", 1, "09"), verifStrN("x3", 1, "09")
	}
	a := vSeq(vInt(x1), vSeq(vInt(x2)))
	a.Content[1].Style = yaml.FlowStyle
	a.Content[1].FootComment = "foot-inner"
	a.FootComment = "foot-a"
	inner := vInt("7")
	inner.Anchor = "in"
	b := vMap(vStr("c"), vInt(x3), vStr("i"), inner, vStr("j"), &yaml.Node{Kind: yaml.AliasNode, Value: "in", Alias: inner})
	b.Content[2].Anchor = "ki" // an anchored KEY of the anchored map (and an alias to it below): merged-in entries share nothing with it
	b.Anchor = "anc"
	b.FootComment = "foot-b"
	b.HeadComment = "head-b"
	s := vStr("str")
	s.Style = yaml.DoubleQuotedStyle
	n := vS("!!null", "~")
	n.LineComment = "line-n"
	r := &yaml.Node{Kind: yaml.AliasNode, Value: "anc", Alias: b}
	r.LineComment = "line-r"
	m := vMap(vS("!!merge", "<<"), &yaml.Node{Kind: yaml.AliasNode, Value: "anc", Alias: b}, vStr("d"), vInt("4"))
	root := vMap(vStr("a"), a, vStr("b"), b, vStr("s"), s, vStr("n"), n, vStr("r"), r, vStr("m"), m, vStr("l"), &yaml.Node{Kind: yaml.AliasNode, Value: "ki", Alias: b.Content[2]})
	root.FootComment = "foot-root"
	return vDoc(root)
}

func VerifC08Encoders() {
	which := verifChoice("expr", len(c08EncExprs))
	if only := verifParam("only", -1); only >= 0 && only != which {
		return
	}
	e := c08EncExprs[which]
	form := verifChoice("form", 2)
	text := "(" + e + ") as $x | ."
	if form == 1 {
		text = "select([" + e + "] | length >= 0)"
	}
	doc := c08EncDoc(!c08EncConcrete[c08EncExprs[which]])
	exp := vParse(text)
	before := vDumpFull(doc)
	res, err := vEval(exp, doc)
	after := vDumpFull(doc)
	label := "form=" + []string{"as-var", "select"}[form] + " expr=" + e
	if err != nil {
		verifCover("C08/enc/error")
		verifAssert(verifEqStr(before, after), "C08/input-unchanged-after-error "+label)
		return
	}
	verifObserve("after", after)
	verifAssert(verifEqStr(before, after), "C08/input-unchanged "+label)
	for _, r := range vNodes(res) {
		verifAssert(r == doc, "C08/returns-the-input "+label)
	}
	verifCover("C08/enc/end")
}
