package yqlib

import (
	"bufio"
	"strings"

	yaml "gopkg.in/yaml.v3"
)

// XML output (encoder_xml.go over the interpreted encoding/xml token encoder).
//
// C11: encoding any result to XML ends with output or an error, never a runtime panic — here with comments whose
//      text is chosen by the solver (newlines, `#`, blanks and other characters in any order) at every position the
//      encoder reads them from.
// C19: XML output that reports success contains every scalar of the result; a value that XML cannot hold where it
//      stands (a map or sequence under an attribute key) is an error, not a silent omission.

func xmlEncodeToString(doc *CandidateNode, leading string) (string, error) {
	var sb strings.Builder
	// as the printer does: the encoder is handed a *bufio.Writer (xml.NewEncoder then shares it) which is flushed afterwards
	w := bufio.NewWriter(c17Writer{&sb})
	enc := NewXMLEncoder(ConfiguredXMLPreferences)
	_ = enc.PrintLeadingContent(w, leading)
	err := enc.Encode(w, doc)
	if ferr := w.Flush(); err == nil {
		err = ferr
	}
	return sb.String(), err
}

// VerifC11XMLEncodeComments: comments of arbitrary text on the root, a key, a nested map, a scalar, and as leading content.
func VerifC11XMLEncodeComments() {
	// every string over {newline, '#', blank, 'c', '-'} up to the length bound (a finite domain: the encoder runs regexp
	// replacements on the comment, which the engine executes on concrete text)
	L := verifParam("maxlen", 3)
	alts := []string{""}
	for start, l := 0, 0; l < L; l++ {
		end := len(alts)
		for _, p := range alts[start:end] {
			for _, ch := range []string{"\n", "#", " ", "c", "-"} {
				alts = append(alts, p+ch)
			}
		}
		start = end
	}
	c := verifConcreteStr(verifPick("comment", alts...))
	where := verifChoice("where", 7)
	inner := vMap(vStr("b"), vStr("v"))
	keyA := vStr("a")
	val := vStr("w")
	root := vMap(keyA, inner, vStr("c"), val)
	leading := ""
	switch where {
	case 0:
		root.HeadComment = c
	case 1:
		root.FootComment = c
	case 2:
		keyA.HeadComment = c
	case 3:
		inner.HeadComment = c
	case 4:
		val.LineComment = c
	case 5:
		inner.FootComment = c
	default:
		leading = c
	}
	doc := vDoc(root)
	out, err := xmlEncodeToString(doc, leading)
	if err == nil {
		verifCover("C11/xmlenc/ok")
		// the element structure is there whatever the comment was
		verifObserve("out", out)
		verifAssert(strings.Contains(out, "<b>v") && strings.Contains(out, "<c>w") && strings.Contains(out, "</a>"), "C11/xml-encode-lost-elements-because-of-a-comment")
	} else {
		verifCover("C11/xmlenc/error")
	}
	verifCover("C11/xmlenc/end")
}

var c19XMLShapes = []string{"attr-scalar", "attr-map", "attr-seq", "content-and-attr", "seq-of-scalars", "nested-attr-map", "attr-null", "seq-of-maps", "procinst-directive", "top-level-attr-map"}

// VerifC19XMLEncode: success implies that every scalar of the result is in the output.
func VerifC19XMLEncode() {
	shape := verifChoice("shape", len(c19XMLShapes))
	ch := verifStrN("ch", 1, " ~") // one arbitrary printable character inside a value (escaping)
	v1, v2 := "v1"+ch+"w1", "v2w2"
	s1 := func() *yaml.Node { return vStr(v1) }
	s2 := func() *yaml.Node { return vStr(v2) }
	var n *yaml.Node
	representable := true
	switch shape {
	case 0:
		n = vMap(vStr("root"), vMap(vStr("+@id"), s1(), vStr("child"), s2()))
	case 1:
		n = vMap(vStr("root"), vMap(vStr("+@id"), vMap(vStr("x"), s1()), vStr("child"), s2()))
		representable = false
	case 2:
		n = vMap(vStr("root"), vMap(vStr("+@id"), vSeq(s1()), vStr("child"), s2()))
		representable = false
	case 3:
		n = vMap(vStr("root"), vMap(vStr("+content"), s1(), vStr("+@a"), s2()))
	case 4:
		n = vMap(vStr("root"), vSeq(s1(), s2()))
	case 5:
		n = vMap(vStr("root"), vMap(vStr("child"), vMap(vStr("+@id"), vMap(vStr("x"), s1())), vStr("other"), s2()))
		representable = false
	case 6:
		n = vMap(vStr("root"), vMap(vStr("+@id"), vNull(), vStr("child"), s1(), vStr("c2"), s2()))
	case 7:
		n = vMap(vStr("root"), vSeq(vMap(vStr("k"), s1()), vMap(vStr("k"), s2())))
	case 8:
		n = vMap(vStr("+p_xml"), vStr("version=\"1.0\""), vStr("+directive"), vStr("DOCTYPE x"), vStr("root"), vMap(vStr("a"), s1(), vStr("b"), s2()))
	default:
		n = vMap(vStr("+@id"), vMap(vStr("x"), s1()), vStr("root"), s2())
		representable = false
	}
	doc := vDoc(n)
	out, err := xmlEncodeToString(doc, "")
	label := "shape=" + c19XMLShapes[shape]
	verifObserve("out", out)
	if err != nil {
		verifCover("C19/xmlenc/error")
		verifAssert(!representable, "C19/xml-representable-result-fails "+label)
		return
	}
	verifCover("C19/xmlenc/ok")
	// every scalar of the result is in the output (v1's middle character may be escaped: check both halves)
	has1 := strings.Contains(out, "v1") && strings.Contains(out, "w1")
	has2 := strings.Contains(out, "v2w2")
	verifAssert(has1 && has2, "C19/xml-success-but-a-value-is-missing-from-the-output "+label)
	verifCover("C19/xmlenc/end")
}
