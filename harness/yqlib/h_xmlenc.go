package yqlib

import (
	"bufio"
	"strings"

	yaml "gopkg.in/yaml.v3"
)

// XML output (encoder_xml.go over the interpreted encoding/xml token encoder).
//
// C11: encoding any result to XML ends with output or an error, never a runtime panic — here with comments whose
//      text is chosen by the solver (newlines, `#`, blanks and other characters in any order) at every position the
//      encoder reads them from.
// C19: XML output that reports success contains every scalar of the result; a value that XML cannot hold where it
//      stands (a map or sequence under an attribute key) is an error, not a silent omission.

func xmlEncodeToString(doc *CandidateNode, leading string) (string, error) {
	var sb strings.Builder
	// as the printer does: the encoder is handed a *bufio.Writer (xml.NewEncoder then shares it) which is flushed afterwards
	w := bufio.NewWriter(c17Writer{&sb})
	enc := NewXMLEncoder(ConfiguredXMLPreferences)
	_ = enc.PrintLeadingContent(w, leading)
	err := enc.Encode(w, doc)
	if ferr := w.Flush(); err == nil {
		err = ferr
	}
	return sb.String(), err
}

// VerifC11XMLEncodeComments: comments of arbitrary text on the root, a key, a nested map, a scalar, and as leading content.
func VerifC11XMLEncodeComments() {
	// every string over {newline, '#', blank, 'c', '-'} up to the length bound (a finite domain: the encoder runs regexp
	// replacements on the comment, which the engine executes on concrete text)
	L := verifParam("maxlen", 3)
	alts := []string{""}
	for start, l := 0, 0; l < L; l++ {
		end := len(alts)
		for _, p := range alts[start:end] {
			for _, ch := range []string{"\n", "#", " ", "c", "-"} {
				alts = append(alts, p+ch)
			}
		}
		start = end
	}
	c := verifConcreteStr(verifPick("comment", alts...))
	where := verifChoice("where", 7)
	inner := vMap(vStr("b"), vStr("v"))
	keyA := vStr("a")
	val := vStr("w")
	root := vMap(keyA, inner, vStr("c"), val)
	leading := ""
	switch where {
	case 0:
		root.HeadComment = c
	case 1:
		root.FootComment = c
	case 2:
		keyA.HeadComment = c
	case 3:
		inner.HeadComment = c
	case 4:
		val.LineComment = c
	case 5:
		inner.FootComment = c
	default:
		leading = c
	}
	doc := vDoc(root)
	out, err := xmlEncodeToString(doc, leading)
	if err == nil {
		verifCover("C11/xmlenc/ok")
		// the element structure is there whatever the comment was
		verifObserve("out", out)
		verifAssert(strings.Contains(out, "<b>v") && strings.Contains(out, "<c>w") && strings.Contains(out, "</a>"), "C11/xml-encode-lost-elements-because-of-a-comment")
	} else {
		verifCover("C11/xmlenc/error")
	}
	verifCover("C11/xmlenc/end")
}

var c19XMLShapes = []string{"attr-scalar", "attr-map", "attr-seq", "content-and-attr", "seq-of-scalars", "nested-attr-map", "attr-null", "seq-of-maps", "procinst-directive", "top-level-attr-map"}

// VerifC19XMLEncode: success implies that every scalar of the result is in the output.
func VerifC19XMLEncode() {
	shape := verifChoice("shape", len(c19XMLShapes))
	ch := verifStrN("ch", 1, " ~") // one arbitrary printable character inside a value (escaping)
	v1, v2 := "v1"+ch+"w1", "v2w2"
	s1 := func() *yaml.Node { return vStr(v1) }
	s2 := func() *yaml.Node { return vStr(v2) }
	var n *yaml.Node
	representable := true
	switch shape {
	case 0:
		n = vMap(vStr("root"), vMap(vStr("+@id"), s1(), vStr("child"), s2()))
	case 1:
		n = vMap(vStr("root"), vMap(vStr("+@id"), vMap(vStr("x"), s1()), vStr("child"), s2()))
		representable = false
	case 2:
		n = vMap(vStr("root"), vMap(vStr("+@id"), vSeq(s1()), vStr("child"), s2()))
		representable = false
	case 3:
		n = vMap(vStr("root"), vMap(vStr("+content"), s1(), vStr("+@a"), s2()))
	case 4:
		n = vMap(vStr("root"), vSeq(s1(), s2()))
	case 5:
		n = vMap(vStr("root"), vMap(vStr("child"), vMap(vStr("+@id"), vMap(vStr("x"), s1())), vStr("other"), s2()))
		representable = false
	case 6:
		n = vMap(vStr("root"), vMap(vStr("+@id"), vNull(), vStr("child"), s1(), vStr("c2"), s2()))
	case 7:
		n = vMap(vStr("root"), vSeq(vMap(vStr("k"), s1()), vMap(vStr("k"), s2())))
	case 8:
		n = vMap(vStr("+p_xml"), vStr("version=\"1.0\""), vStr("+directive"), vStr("DOCTYPE x"), vStr("root"), vMap(vStr("a"), s1(), vStr("b"), s2()))
	default:
		n = vMap(vStr("+@id"), vMap(vStr("x"), s1()), vStr("root"), s2())
		representable = false
	}
	doc := vDoc(n)
	out, err := xmlEncodeToString(doc, "")
	label := "shape=" + c19XMLShapes[shape]
	verifObserve("out", out)
	if err != nil {
		verifCover("C19/xmlenc/error")
		verifAssert(!representable, "C19/xml-representable-result-fails "+label)
		return
	}
	verifCover("C19/xmlenc/ok")
	// every scalar of the result is in the output (v1's middle character may be escaped: check both halves)
	has1 := strings.Contains(out, "v1") && strings.Contains(out, "w1")
	has2 := strings.Contains(out, "v2w2")
	verifAssert(has1 && has2, "C19/xml-success-but-a-value-is-missing-from-the-output "+label)
	verifCover("C19/xmlenc/end")
}

// ---- C14: XML output read back by an independent reader ----

type c14X struct {
	name  string
	attrs [][2]string
	kids  []*c14X
	text  string
}

func c14XMLEntity(t string, i int) (string, int, bool) {
	// t[i] == '&'
	j := i + 1
	for j < len(t) && !verifConcreteBool(t[j] == ';') {
		j++
	}
	if j >= len(t) {
		return "", 0, false
	}
	e := verifConcreteStr(t[i+1 : j])
	switch e {
	case "lt":
		return "<", j + 1, true
	case "gt":
		return ">", j + 1, true
	case "amp":
		return "&", j + 1, true
	case "quot":
		return "\"", j + 1, true
	case "apos":
		return "'", j + 1, true
	}
	if len(e) >= 2 && e[0] == '#' {
		n, base, k := 0, 10, 1
		if e[1] == 'x' {
			base, k = 16, 2
		}
		for ; k < len(e); k++ {
			c := e[k]
			d := 0
			switch {
			case c >= '0' && c <= '9':
				d = int(c - '0')
			case base == 16 && c >= 'a' && c <= 'f':
				d = int(c-'a') + 10
			case base == 16 && c >= 'A' && c <= 'F':
				d = int(c-'A') + 10
			default:
				return "", 0, false
			}
			n = n*base + d
		}
		if n <= 0 || n > 127 {
			return "", 0, false
		}
		return string([]byte{byte(n)}), j + 1, true
	}
	return "", 0, false
}

func c14XMLName(t string, i int) (string, int) {
	j := i
	for j < len(t) && !verifConcreteBool(t[j] == ' ' || t[j] == '>' || t[j] == '=' || t[j] == '/') {
		j++
	}
	return t[i:j], j
}

// c14XMLRead: element := '<' name (' ' name '="' value '"')* '>' (text | element)* '</' name '>'
func c14XMLRead(t string, i int) (*c14X, int, bool) {
	if i >= len(t) || !verifConcreteBool(t[i] == '<') {
		return nil, 0, false
	}
	x := &c14X{}
	x.name, i = c14XMLName(t, i+1)
	for i < len(t) && verifConcreteBool(t[i] == ' ') {
		var an string
		an, i = c14XMLName(t, i+1)
		if i+1 >= len(t) || !verifConcreteBool(t[i] == '=') || !verifConcreteBool(t[i+1] == '"') {
			return nil, 0, false
		}
		i += 2
		av := ""
		for i < len(t) && !verifConcreteBool(t[i] == '"') {
			if verifConcreteBool(t[i] == '&') {
				s, ni, ok := c14XMLEntity(t, i)
				if !ok {
					return nil, 0, false
				}
				av, i = av+s, ni
				continue
			}
			if verifConcreteBool(t[i] == '<') {
				return nil, 0, false
			}
			av += t[i : i+1]
			i++
		}
		if i >= len(t) {
			return nil, 0, false
		}
		i++
		x.attrs = append(x.attrs, [2]string{an, av})
	}
	if i >= len(t) || !verifConcreteBool(t[i] == '>') {
		return nil, 0, false
	}
	i++
	for i < len(t) {
		if verifConcreteBool(t[i] == '<') {
			if i+1 < len(t) && verifConcreteBool(t[i+1] == '/') {
				cn, ni := c14XMLName(t, i+2)
				if cn != x.name || ni >= len(t) || !verifConcreteBool(t[ni] == '>') {
					return nil, 0, false
				}
				return x, ni + 1, true
			}
			k, ni, ok := c14XMLRead(t, i)
			if !ok {
				return nil, 0, false
			}
			x.kids = append(x.kids, k)
			i = ni
			continue
		}
		if verifConcreteBool(t[i] == '&') {
			s, ni, ok := c14XMLEntity(t, i)
			if !ok {
				return nil, 0, false
			}
			x.text, i = x.text+s, ni
			continue
		}
		x.text += t[i : i+1]
		i++
	}
	return nil, 0, false
}

func c14XDump(x *c14X) string {
	s := "<" + x.name
	for _, a := range x.attrs {
		s += " @" + a[0] + "=(" + a[1] + ")"
	}
	s += " text=(" + x.text + ")"
	for _, k := range x.kids {
		s += " " + c14XDump(k)
	}
	return s + ">"
}

// VerifC14XMLEncodeTree: an element tree with an attribute, text, a nested element, repeated children and mixed
// content, whose attribute and text values contain an arbitrary printable character, is written as XML that the
// independent reader maps back to the same tree.
func VerifC14XMLEncodeTree() {
	c1 := verifStrN("c1", 1, " ~")
	c2 := verifStrN("c2", 1, " ~")
	a, v := "a"+c1+"b", "x"+c2+"y"
	shape := verifChoice("shape", 5)
	// the names that mark attributes and text content are preferences (--xml-attribute-prefix, --xml-content-name); one
	// may be a prefix of the other
	ap := []string{"+@", "+", "@", "_"}[verifChoice("attributePrefix", 4)]
	cn := []string{"+content", "#text"}[verifChoice("contentName", 2)]
	var n *yaml.Node
	var want *c14X
	switch shape {
	case 4: // attribute, text content and a child element on the same element, below the root
		n = vMap(vStr("root"), vMap(vStr("el"), vMap(vStr(ap+"id"), vStr(a), vStr(cn), vStr(v), vStr("b"), vStr("c"))))
		want = &c14X{name: "root", kids: []*c14X{{name: "el", attrs: [][2]string{{"id", a}}, text: v, kids: []*c14X{{name: "b", text: "c"}}}}}
	case 0: // attribute + child text
		n = vMap(vStr("root"), vMap(vStr(ap+"id"), vStr(a), vStr("child"), vStr(v)))
		want = &c14X{name: "root", attrs: [][2]string{{"id", a}}, kids: []*c14X{{name: "child", text: v}}}
	case 1: // repeated children from a sequence
		n = vMap(vStr("root"), vMap(vStr("item"), vSeq(vStr(v), vStr(a)), vStr("last"), vStr("z")))
		want = &c14X{name: "root", kids: []*c14X{{name: "item", text: v}, {name: "item", text: a}, {name: "last", text: "z"}}}
	case 2: // attribute and text content on the same element
		n = vMap(vStr("root"), vMap(vStr(ap+"k"), vStr(a), vStr(cn), vStr(v)))
		want = &c14X{name: "root", attrs: [][2]string{{"k", a}}, text: v}
	default: // nesting, sequence of maps with attributes
		n = vMap(vStr("root"), vMap(vStr("e"), vSeq(vMap(vStr(ap+"n"), vStr(a), vStr("t"), vStr(v)), vMap(vStr("t"), vStr("w")))))
		want = &c14X{name: "root", kids: []*c14X{{name: "e", attrs: [][2]string{{"n", a}}, kids: []*c14X{{name: "t", text: v}}}, {name: "e", kids: []*c14X{{name: "t", text: "w"}}}}}
	}
	prefs := ConfiguredXMLPreferences.Copy()
	prefs.Indent = 0
	prefs.AttributePrefix = ap
	prefs.ContentName = cn
	var sb strings.Builder
	w := bufio.NewWriter(c17Writer{&sb})
	err := NewXMLEncoder(prefs).Encode(w, vDoc(n))
	if ferr := w.Flush(); err == nil {
		err = ferr
	}
	verifAssert(err == nil, "C14/xml-encode-error")
	if err != nil {
		return
	}
	out := sb.String()
	verifObserve("xml", out)
	// the document ends with a newline after the root element
	for len(out) > 0 && verifConcreteBool(out[len(out)-1] == '\n') {
		out = out[:len(out)-1]
	}
	got, end, ok := c14XMLRead(out, 0)
	verifAssert(ok && end == len(out), "C14/xml-output-not-well-formed")
	if !ok || end != len(out) {
		return
	}
	verifObserve("tree", c14XDump(got))
	verifAssert(verifEqStr(c14XDump(got), c14XDump(want)), "C14/xml-output-reads-back-as-another-tree")
	verifCover("C14/xmlenc/end")
}

// VerifC19XMLTruncated: XML input that ends inside an element (a token stream whose start tags outnumber the end tags
// when the input is over) is reported as an error — it is not decoded to the part that happened to be complete.
func VerifC19XMLTruncated() {
	n := verifChoice("len", verifParam("maxlen", 4)) + 1
	verifXMLTokens = nil
	depth, minDepth := 0, 0
	for i := 0; i < n; i++ {
		k := verifChoice("k"+verifItoa(int64(i)), 4) // start-a, start-b-attr, end, chardata
		verifXMLTokens = append(verifXMLTokens, c11XMLToken(k))
		if k == 0 || k == 1 {
			depth++
		}
		if k == 2 {
			depth--
			if depth < minDepth {
				minDepth = depth
			}
		}
	}
	dec := NewXMLDecoder(ConfiguredXMLPreferences)
	_ = dec.Init(nil)
	_, err := dec.Decode()
	if depth > 0 && minDepth >= 0 {
		verifCover("C19/xml-truncated/open-at-end")
		verifAssert(err != nil, "C19/truncated-xml-input-decoded-without-error")
	}
	verifCover("C19/xml-truncated/end")
}
