package yqlib

import (
	"bufio"
	"io"
	"strings"
)

// C18 — evaluation is deterministic and independent of earlier runs (sequential half; concurrency is outside).
//
// Inside one process image (the engine's post-init snapshot: operator table, lexer rule table, configured
// preference globals, the shared ExpressionParser) an evaluation (e2,d2) is performed first on fresh state,
// then (e1,d1) is parsed and evaluated, then (e2,d2) again — either re-parsed or on the SAME parsed tree. The
// two results for (e2,d2) must be identical, for every ordered pair from the alphabet and all document values.

var c18Exprs = []string{
	".", "sort", "sort_by(.)", "reverse", "unique", "group_by(.)", "to_entries", "with_entries(.)", "map(. + 1)", "length",
	"[.[] | select(. == 1)]", "flatten", ".[0] = 5", "del(.[0])", ".[] |= . + 1", ". as $x | $x | sort", "sort_keys(.)", "any",
	"all", "min", "max", "keys", ". + [9]", ". - [1]", "contains([1])", "has(0)", ".[0] // 7", "[..]", "map(select(. != 0))", "pick([0])",
	".[] as $i ireduce (0; . + $i)", "{\"k\": .}", "explode(.)", "[.[] | tag]", "path", "document_index", "splitDoc", "join(\",\")", "omit([0])",
	// the same attribute operator in its plain (=, right side relative to the root) and relative (|=) flavour
	".[0] tag = (. | tag)", ".[1] tag |= \"!!str\"", ".[0] tag |= (. | tag)", ".[0] style = (. | style)", ".[1] style |= \"double\"", ".[0] anchor |= \"x\"", ".[0] anchor = (.[1] | tostring)",
	".[0] line_comment = (.[1] | tostring)", ".[1] line_comment |= \"c\"", ".[0] head_comment = (.[1] | tostring)", ".[1] head_comment |= \"c\"",
	// parameters computed from the data: anything an operator keeps from one evaluation (a compiled pattern, a parsed
	// sub-expression, an index) must not leak into the next evaluation of the same tree
	".[0] as $p | [.[] | tostring | test(\"^\\($p)\")]", "[.[] | tostring | sub(\"\\(.)\"; \"x\")]", "(.[1] | tostring) as $s | [.[] | tostring | capture(\"(?P<d>\\($s))\") | .d]",
	"[.[] | tostring | match(\"\\(.)\") | .string]", ".[.[2]]", "pick([.[2]])", "[.[] | has(0)]", "sort_by(. % 2)", "group_by(. > 1)", "(.[0] | tostring) as $k | {$k: 1}", "with(.[0]; . = 5)",
	"eval(\".[\" + (.[2] | tostring) + \"]\")", "[.[] | tostring | split(\"\\(.)\") | length]", "map(tostring) | join(\"\\(.[0])\")", "[.[] | tostring | test(\"[\\(.)]\")]",
}

func c18Doc(a, b string) *CandidateNode {
	return vDoc(vSeq(vInt(a), vInt(b), vInt("1")))
}

func c18Run(exp *ExpressionNode, a, b string) (string, bool) {
	res, err := vEval(exp, c18Doc(a, b))
	if err != nil {
		return "error", false
	}
	return vDumpList(res), true
}

func VerifC18History() {
	InitExpressionParser()
	i1 := verifChoice("e1", len(c18Exprs))
	i2 := verifChoice("e2", len(c18Exprs))
	reuseMode := verifChoice("reuseParsedTree", 3)
	reuse := reuseMode >= 1
	// the expressions whose parameters are computed from the data are paired with the identity and with themselves only
	dataDependent := func(i int) bool {
		return strings.Contains(c18Exprs[i], "\\(") || i >= len(c18Exprs)-15
	}
	if dataDependent(i1) && i1 != i2 {
		return
	}
	if dataDependent(i2) && i1 != 0 && i1 != i2 {
		return
	}
	digit := func(name string) string {
		// expressions that build a regular expression from the data get concrete digits (patterns are compiled natively)
		if strings.Contains(c18Exprs[i1], "\\(") || strings.Contains(c18Exprs[i2], "\\(") {
			return []string{"1", "2"}[verifChoice(name, 2)]
		}
		return verifStrN(name, 1, vDigits())
	}
	a1, b1 := digit("a1"), digit("b1")
	a2, b2 := digit("a2"), digit("b2")
	label := "e2=" + c18Exprs[i2]
	tree2 := vParse(c18Exprs[i2])
	fresh, okFresh := c18Run(tree2, a2, b2)
	// the history: another expression parsed with the same parser and evaluated with the same operator table
	tree1 := vParse(c18Exprs[i1])
	if reuseMode == 2 {
		// the history is an evaluation of the very same parsed tree on another document (what the stream evaluator does
		// for every document of every file); the fresh result above came from a tree of its own
		if i1 != 0 {
			return
		}
		tree2 = vParse(c18Exprs[i2])
		tree1 = tree2
	}
	_, _ = c18Run(tree1, a1, b1)
	// again
	if !reuse {
		tree2 = vParse(c18Exprs[i2])
	}
	again, okAgain := c18Run(tree2, a2, b2)
	verifObserve("fresh", fresh)
	verifObserve("again", again)
	mode := " reparsed"
	if reuse {
		mode = " same-tree"
	}
	if reuseMode == 2 {
		mode = " same-tree-after-another-document"
	}
	verifAssert(okFresh == okAgain && verifEqStr(fresh, again), "C18/result-depends-on-history "+label+mode)
	verifCover("C18/history/end")
}

var c18Texts = []string{"x: 1\n", "# only a comment\n# second line\n", "# c\nb: 2\n", "---\ny: 2\n", "", "a: 1\n---\n# mid\nb: 2\n"}

func c18DecodeAll(dec Decoder, text string) string {
	if err := dec.Init(strings.NewReader(text)); err != nil {
		return "init-error"
	}
	out := ""
	for i := 0; i < 6; i++ {
		n, err := dec.Decode()
		if err != nil {
			if err == io.EOF {
				return out + "EOF"
			}
			return out + "error"
		}
		out += "DOC[" + n.LeadingContent + "|" + vDumpFull(n) + "] "
	}
	return out + "TOO-MANY"
}

// VerifC18DecoderReuse: what a reused YAML decoder delivers for a file does not depend on which file it
// decoded before (the decoder objects behind `load(...)` and eval-all are reused across files).
func VerifC18DecoderReuse() {
	prefs := NewDefaultYamlPreferences()
	prefs.LeadingContentPreProcessing = verifChoice("leadingContentPreProcessing", 2) == 1
	prefs.EvaluateTogether = verifChoice("evaluateTogether", 2) == 1
	h1 := verifChoice("history1", len(c18Texts))
	h2 := verifChoice("history2", len(c18Texts))
	if h2 <= h1 {
		return
	}
	t := verifChoice("text", len(c18Texts))
	d1 := NewYamlDecoder(prefs)
	_ = c18DecodeAll(d1, c18Texts[h1])
	r1 := c18DecodeAll(d1, c18Texts[t])
	d2 := NewYamlDecoder(prefs)
	_ = c18DecodeAll(d2, c18Texts[h2])
	r2 := c18DecodeAll(d2, c18Texts[t])
	verifObserve("after-history-1", r1)
	verifObserve("after-history-2", r2)
	verifAssert(r1 == r2, "C18/decoder-result-depends-on-earlier-file")
	verifCover("C18/decoder/end")
}

// VerifC18EncoderReuse: what a reused encoder (behind one printer, as for a multi-document or multi-file run) emits for
// a document does not depend on the document it emitted before: B after A equals B from a fresh encoder, for every
// output format whose encoder the engine executes.
var c18Formats = []string{"xml", "csv", "tsv", "shell", "lua", "toml", "uri", "props"}

func c18EncDoc(which int, x string) *CandidateNode {
	var n *CandidateNode
	switch which {
	case 0:
		n = vDoc(vMap(vStr("a"), vStr(x)))
		n.LeadingContent = "# lead\n"
	case 1:
		n = vDoc(vMap(vStr("b"), vMap(vStr("c"), vStr(x))))
	case 2:
		n = vDoc(vSeq(vMap(vStr("h"), vStr(x)), vMap(vStr("h"), vStr("z"))))
	case 3:
		n = vDoc(vStr(x))
		n.LeadingContent = "# other\n"
	default:
		m := vMap(vStr("k"), vStr(x))
		m.HeadComment = "# hc"
		n = vDoc(m)
	}
	return n
}

func c18Print(p Printer, sb *strings.Builder, d *CandidateNode) (string, bool) {
	before := sb.Len()
	err := p.PrintResults(d.AsList())
	return sb.String()[before:], err == nil
}

func VerifC18EncoderReuse() {
	fi := verifChoice("format", len(c18Formats))
	f, err := FormatFromString(c18Formats[fi])
	if err != nil || f.EncoderFactory == nil {
		verifFail("C18/format-lookup")
	}
	a, b := verifChoice("first", 5), verifChoice("second", 5)
	x := verifStrN("x", 1, "az")
	var sb1, sb2 strings.Builder
	p1 := NewPrinter(f.EncoderFactory(), NewSinglePrinterWriter(bufio.NewWriter(c17Writer{&sb1})))
	_, _ = c18Print(p1, &sb1, c18EncDoc(a, x))
	docB := c18EncDoc(b, x)
	docB.document = 0
	got, okGot := c18Print(p1, &sb1, docB)
	p2 := NewPrinter(f.EncoderFactory(), NewSinglePrinterWriter(bufio.NewWriter(c17Writer{&sb2})))
	want, okWant := c18Print(p2, &sb2, c18EncDoc(b, x))
	verifObserve("after-another", got)
	verifObserve("fresh", want)
	label := "format=" + c18Formats[fi]
	verifAssert(okGot == okWant, "C18/encoder-failure-depends-on-earlier-document "+label)
	if okGot && okWant {
		verifAssert(verifEqStr(got, want), "C18/encoder-output-depends-on-earlier-document "+label)
	}
	verifCover("C18/encoder/end")
}

// c18ConcurrentExprs: expressions for the concurrency clause — the sequential alphabet plus operators whose lexer
// rules or handlers keep state of their own (environment substitution options, formats with configured preferences).
var c18ConcurrentExprs = append(append([]string{}, c18Exprs...), "envsubst", "envsubst(ne)", "envsubst(nu, ff)", "to_yaml", "to_xml", "@base64", "from_yaml", "to_props", "with_entries(.value |= . + 1)",
	".[] |= select(. > 0)", "... style=\"\"", "sort_by(.) | reverse", "to_entries | from_entries", "tostring", "split(\",\")", "test(\"1\")", "sub(\"1\", \"2\")", "@sh", "@csv", "to_number", "upcase", "kind", "type", "line", "column")

// VerifC18NoSharedWrites — the concurrency half of C18, decided by a sufficient condition over the real code: an
// evaluation (parse the expression with the shared parser, build a document, evaluate, print through an own printer
// and encoder) performs NO store into state that existed before it started. Evaluations on separate evaluators and
// documents share nothing else, so without such a store they cannot race, whatever the schedule. A store that is
// found is confirmed natively by running the same evaluation in two goroutines under the Go race detector.
func VerifC18NoSharedWrites() {
	InitExpressionParser()
	i := verifChoice("expr", len(c18ConcurrentExprs))
	a, b := []string{"1", "2"}[verifChoice("a", 2)], []string{"0", "3"}[verifChoice("b", 2)]
	expr := c18ConcurrentExprs[i]
	verifShared(func() {
		tree, err := ExpressionParser.ParseExpression(expr)
		if err != nil || strings.HasPrefix(expr, "envsubst") {
			return // envsubst is parsed only: its evaluation is in a third-party package the engine does not execute
		}
		res, err := vEval(tree, c18Doc(a, b))
		if err != nil {
			return
		}
		var sb strings.Builder
		printer := NewPrinter(NewYamlEncoder(NewDefaultYamlPreferences()), NewSinglePrinterWriter(bufio.NewWriter(vSBWriter{&sb})))
		_ = printer.PrintResults(res)
	})
	verifCover("C18/shared/end")
}

// VerifC18NoSharedWritesCodecs: the same sufficient condition for the codecs: creating a decoder or encoder through
// the format table, decoding a text and encoding a value with it stores nothing into state shared with other
// evaluations (configured preferences, format descriptors, tables).
func VerifC18NoSharedWritesCodecs() {
	type cs struct{ format, text string }
	cases := []cs{{"csv", "a,b\n1,2\n"}, {"tsv", "a\tb\n1\t2\n"}, {"uri", "x%20y"}, {"yaml", "a: [1, 2]\n"}, {"xml", ""}, {"props", ""}, {"shell", ""}, {"lua", ""}, {"toml", ""}, {"base64", ""}}
	c := cases[verifChoice("format", len(cases))]
	verifShared(func() {
		// every evaluation has its own documents (printing for an encoder without aliases explodes the document in place)
		doc := vDoc(vMap(vStr("k"), vSeq(vInt("1"), vStr("v"))))
		flat := vDoc(vSeq(vSeq(vStr("a"), vInt("1"))))
		f, err := FormatFromString(c.format)
		if err != nil {
			return
		}
		if c.text != "" && f.DecoderFactory != nil {
			dec := f.DecoderFactory()
			if dec.Init(strings.NewReader(c.text)) == nil {
				_, _ = dec.Decode()
			}
		}
		if f.EncoderFactory != nil {
			var sb strings.Builder
			w := bufio.NewWriter(vSBWriter{&sb})
			n := doc
			if c.format == "csv" || c.format == "tsv" {
				n = flat
			}
			if c.format == "uri" || c.format == "base64" {
				n = vDoc(vStr("x y"))
			}
			printer := NewPrinter(f.EncoderFactory(), NewSinglePrinterWriter(w))
			_ = printer.PrintResults(n.AsList())
		}
	})
	verifCover("C18/shared-codecs/end")
}

// VerifC18SharedTree: one parsed expression tree evaluated by several evaluations at once (a service parses its
// expressions once): evaluation, on documents of its own, stores nothing into the tree or into anything else that
// existed before it started.
func VerifC18SharedTree() {
	InitExpressionParser()
	i := verifChoice("expr", len(c18ConcurrentExprs))
	a, b := []string{"1", "2"}[verifChoice("a", 2)], []string{"0", "3"}[verifChoice("b", 2)]
	expr := c18ConcurrentExprs[i]
	if strings.HasPrefix(expr, "envsubst") {
		return
	}
	tree, err := ExpressionParser.ParseExpression(expr)
	if err != nil {
		return
	}
	verifShared(func() {
		res, err := vEval(tree, c18Doc(a, b))
		if err != nil {
			return
		}
		var sb strings.Builder
		printer := NewPrinter(NewYamlEncoder(NewDefaultYamlPreferences()), NewSinglePrinterWriter(bufio.NewWriter(vSBWriter{&sb})))
		_ = printer.PrintResults(res)
	})
	verifCover("C18/shared-tree/end")
}
