package yqlib

import (
	"encoding/json"
	"errors"
	"io"
	"strconv"
)

// A reader of JSON text that stands in for goccy/go-json's Decoder / Unmarshal where yq's own JSON walk
// (candidiate_node_json.go UnmarshalJSON, decoder_json.go) calls them: the library is an unsafe opcode VM and cannot
// be encoded. Contract assumed (that of encoding/json, which goccy/go-json mirrors): Token() delivers delimiters,
// object keys and scalars in order; Decode(v)/Unmarshal(data, v) hand the raw bytes of the next value to v's
// UnmarshalJSON; a JSON null for a pointer element of a slice leaves the pointer nil; numbers decoded into
// interface{} are float64, strings are unescaped; a read error of the underlying reader ends the input and is not reported (goccy's behaviour). Text read: RFC 8259 without \u escapes and without exponent
// handling beyond strconv.ParseFloat; blanks between tokens are skipped. goccy's json.Token / json.Delim are aliases
// of encoding/json's, so the type assertions in yq's code see the same types.

type verifJSONDecoder struct {
	data []byte
	pos  int
	read bool
	src  io.Reader
}

func verifJSONNewDecoder(r io.Reader) *verifJSONDecoder { return &verifJSONDecoder{src: r} }

func (d *verifJSONDecoder) fill() error {
	if d.read {
		return nil
	}
	d.read = true
	// a failed read ends the input, as for goccy/go-json (internal/decoder/stream.go read(): any error other than
	// io.EOF just stops reading and is dropped) - what arrived before the failure is parsed
	b, _ := io.ReadAll(d.src)
	d.data = b
	return nil
}

func (d *verifJSONDecoder) skipBlanksAndSeparators() {
	for d.pos < len(d.data) {
		c := d.data[d.pos]
		if c == ' ' || c == '\n' || c == '\t' || c == '\r' || c == ',' || c == ':' {
			d.pos++
			continue
		}
		return
	}
}

var errVerifJSONSyntax = errors.New("invalid character in JSON text")

// end of the value that starts at pos (exclusive), or -1
func verifJSONValueEnd(data []byte, pos int) int {
	if pos >= len(data) {
		return -1
	}
	switch data[pos] {
	case '"':
		for i := pos + 1; i < len(data); i++ {
			if data[i] == '\\' {
				i++
				continue
			}
			if data[i] == '"' {
				return i + 1
			}
		}
		return -1
	case '{', '[':
		depth := 0
		for i := pos; i < len(data); i++ {
			switch data[i] {
			case '"':
				e := verifJSONValueEnd(data, i)
				if e < 0 {
					return -1
				}
				i = e - 1
			case '{', '[':
				depth++
			case '}', ']':
				depth--
				if depth == 0 {
					return i + 1
				}
			}
		}
		return -1
	}
	i := pos
	for i < len(data) {
		c := data[i]
		if c == ',' || c == '}' || c == ']' || c == ':' || c == ' ' || c == '\n' || c == '\t' || c == '\r' {
			break
		}
		i++
	}
	if i == pos {
		return -1
	}
	return i
}

func verifJSONUnquote(raw []byte) (string, error) {
	out := make([]byte, 0, len(raw))
	for i := 1; i+1 < len(raw); i++ {
		c := raw[i]
		if c != '\\' {
			out = append(out, c)
			continue
		}
		i++
		if i+1 >= len(raw) {
			return "", errVerifJSONSyntax
		}
		switch raw[i] {
		case 'n':
			out = append(out, '\n')
		case 't':
			out = append(out, '\t')
		case 'r':
			out = append(out, '\r')
		case '"', '\\', '/':
			out = append(out, raw[i])
		default:
			return "", errVerifJSONSyntax
		}
	}
	return string(out), nil
}

func verifJSONScalar(raw []byte) (interface{}, error) {
	if len(raw) == 0 {
		return nil, errVerifJSONSyntax
	}
	if raw[0] == '"' {
		return verifJSONUnquote(raw)
	}
	s := string(raw)
	switch s {
	case "null":
		return nil, nil
	case "true":
		return true, nil
	case "false":
		return false, nil
	}
	f, err := strconv.ParseFloat(s, 64)
	if err != nil {
		return nil, errVerifJSONSyntax
	}
	return f, nil
}

func (d *verifJSONDecoder) Token() (json.Token, error) {
	if err := d.fill(); err != nil {
		return nil, err
	}
	d.skipBlanksAndSeparators()
	if d.pos >= len(d.data) {
		return nil, io.EOF
	}
	c := d.data[d.pos]
	if c == '{' || c == '}' || c == '[' || c == ']' {
		d.pos++
		return json.Delim(c), nil
	}
	end := verifJSONValueEnd(d.data, d.pos)
	if end < 0 {
		return nil, errVerifJSONSyntax
	}
	raw := d.data[d.pos:end]
	d.pos = end
	return verifJSONScalar(raw)
}

func (d *verifJSONDecoder) Decode(v interface{}) error {
	if err := d.fill(); err != nil {
		return err
	}
	d.skipBlanksAndSeparators()
	if d.pos >= len(d.data) {
		return io.EOF
	}
	end := verifJSONValueEnd(d.data, d.pos)
	if end < 0 {
		return errVerifJSONSyntax
	}
	raw := d.data[d.pos:end]
	d.pos = end
	return verifJSONUnmarshal(raw, v)
}

func verifJSONUnmarshal(data []byte, v interface{}) error {
	switch p := v.(type) {
	case *CandidateNode:
		return p.UnmarshalJSON(data)
	case *[]*CandidateNode:
		if len(data) < 2 || data[0] != '[' {
			return errVerifJSONSyntax
		}
		pos := 1
		for {
			for pos < len(data) && (data[pos] == ' ' || data[pos] == ',' || data[pos] == '\n' || data[pos] == '\t' || data[pos] == '\r') {
				pos++
			}
			if pos >= len(data) {
				return errVerifJSONSyntax
			}
			if data[pos] == ']' {
				return nil
			}
			end := verifJSONValueEnd(data, pos)
			if end < 0 {
				return errVerifJSONSyntax
			}
			raw := data[pos:end]
			pos = end
			if string(raw) == "null" {
				*p = append(*p, nil)
				continue
			}
			n := &CandidateNode{}
			if err := n.UnmarshalJSON(raw); err != nil {
				return err
			}
			*p = append(*p, n)
		}
	case *interface{}:
		x, err := verifJSONScalar(data)
		if err != nil {
			return err
		}
		*p = x
		return nil
	}
	return errors.New("verif JSON stub: unsupported target")
}
