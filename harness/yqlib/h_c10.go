package yqlib

import (
	"bufio"
	"bytes"
	"container/list"
	"io"
	"strings"
)

// C10 — multi-document, multi-file input is processed document by document, in order.
//
// The real streamEvaluator.Evaluate loop, readDocuments, resultsPrinter.PrintResults/printNode and the index
// operators run against a stub Decoder (yields pre-built documents, then io.EOF) and a recording Encoder.

type c10Decoder struct {
	files [][]*CandidateNode
	file  int
	pos   int
}

func (d *c10Decoder) Init(_ io.Reader) error {
	d.file++
	d.pos = 0
	return nil
}

func (d *c10Decoder) Decode() (*CandidateNode, error) {
	if d.file < 0 || d.file >= len(d.files) || d.pos >= len(d.files[d.file]) {
		return nil, io.EOF
	}
	n := d.files[d.file][d.pos]
	d.pos++
	return n, nil
}

type c10Encoder struct {
	events *[]string
}

func (e *c10Encoder) Encode(_ io.Writer, node *CandidateNode) error {
	*e.events = append(*e.events, "NODE "+vDump(node))
	return nil
}
func (e *c10Encoder) PrintDocumentSeparator(_ io.Writer) error {
	*e.events = append(*e.events, "SEP")
	return nil
}
func (e *c10Encoder) PrintLeadingContent(_ io.Writer, content string) error {
	if content != "" {
		*e.events = append(*e.events, "LEAD")
	}
	return nil
}
func (e *c10Encoder) CanHandleAliases() bool { return true }

var c10Exprs = []string{".", ".[]", "select(.[0] == 7770003)", ".[] | select(. == 7770003)", "[document_index, file_index, filename]", "length", "sort", ".[0]", "\"lit\"", "5", ".[7] // \"d\"",
	// values built below the document root still belong to their document and file
	".[] | {\"v\": .}", "{\"first\": .[0]}", ".[] | {\"v\": .} | .v"}

// c10MakeDoc: a sequence of 0..2 symbolic digits.
func c10MakeDoc(name string) ([]string, *CandidateNode) {
	n := verifChoice(name+"_n", 3)
	var ds []string
	seq := vSeq()
	for i := 0; i < n; i++ {
		d := verifStrN(name+"_e"+verifItoa(int64(i)), 1, "02")
		ds = append(ds, d)
		seq.Content = append(seq.Content, vInt(d))
	}
	c := CandidateNode{}
	if err := c.UnmarshalYAML(seq, make(map[string]*CandidateNode)); err != nil {
		verifFail("C10/unmarshal")
	}
	return ds, &c
}

func c10Rebuild(ds []string) *CandidateNode {
	seq := vSeq()
	for _, d := range ds {
		seq.Content = append(seq.Content, vInt(d))
	}
	c := CandidateNode{}
	_ = c.UnmarshalYAML(seq, make(map[string]*CandidateNode))
	return &c
}

func c10Parse(which int, v string) *ExpressionNode {
	e := vParse(c10Exprs[which])
	vSubst(e, "7770003", "!!int", v)
	return e
}

// VerifC10Stream: eval (sequence mode) over files × documents.
func VerifC10Stream() {
	nfiles := verifChoice("files", verifParam("maxfiles", 2)) + 1
	which := verifChoice("expr", len(c10Exprs))
	v := "1"
	if strings.Contains(c10Exprs[which], "7770003") {
		v = verifStrN("v", 1, "02")
	}
	type docInfo struct {
		ds         []string
		file, doc  int
		name       string
	}
	var all []docInfo
	dec := &c10Decoder{file: -1}
	names := []string{"f0.yml", "f1.yml", "f2.yml"}
	for f := 0; f < nfiles; f++ {
		nd := verifChoice("docs"+verifItoa(int64(f)), verifParam("maxdocs", 2)+1)
		var docs []*CandidateNode
		for d := 0; d < nd; d++ {
			ds, node := c10MakeDoc("f" + verifItoa(int64(f)) + "d" + verifItoa(int64(d)))
			docs = append(docs, node)
			all = append(all, docInfo{ds: ds, file: f, doc: d, name: names[f]})
		}
		dec.files = append(dec.files, docs)
	}
	label := "expr=" + c10Exprs[which]

	// the real loop: one evaluator, one printer, one parsed expression for all files
	var events []string
	var out bytes.Buffer
	printer := NewPrinter(&c10Encoder{events: &events}, NewSinglePrinterWriter(&out))
	ev := NewStreamEvaluator()
	exp := c10Parse(which, v)
	total := uint(0)
	for f := 0; f < nfiles; f++ {
		n, err := ev.Evaluate(names[f], nil, exp, printer, dec)
		if err != nil {
			verifCover("C10/stream/error")
			// an evaluation error on some document: nothing more to compare for this input
			return
		}
		total += n
	}
	verifAssert(int(total) == len(all), "C10/documents-processed-count "+label)

	// expected: every document evaluated on its own (fresh parser tree, fresh context), joined by separators
	var want []string
	first := true
	prevFile, prevDoc := -1, -1
	for _, di := range all {
		node := c10Rebuild(di.ds)
		node.document = uint(di.doc)
		node.filename = di.name
		node.fileIndex = di.file
		res, err := vEval(c10Parse(which, v), node)
		if err != nil {
			verifFail("C10/standalone-evaluation-failed-but-stream-did-not " + label)
		}
		for _, r := range vNodes(res) {
			if !first && (prevFile != di.file || prevDoc != di.doc) {
				want = append(want, "SEP")
			}
			first = false
			prevFile, prevDoc = di.file, di.doc
			want = append(want, "NODE "+vDump(r))
		}
	}
	got := strings.Join(events, "; ")
	exp2 := strings.Join(want, "; ")
	verifObserve("got", got)
	verifObserve("want", exp2)
	verifAssert(verifEqStr(got, exp2), "C10/stream-equals-per-document-runs "+label)
	// index operators report the true position
	if which == 4 {
		i := 0
		for _, e := range events {
			if e == "SEP" {
				continue
			}
			di := all[i]
			wantIdx := "NODE [<!!int " + verifItoa(int64(di.doc)) + ">, <!!int " + verifItoa(int64(di.file)) + ">, <!!str " + di.name + ">]"
			verifAssert(e == wantIdx, "C10/index-operators-report-true-position")
			i++
		}
	}
	if len(all) > 1 {
		verifCover("C10/stream/multi")
	}
	verifCover("C10/stream/end")
}

// VerifC10EvalAll: on a single-document input eval-all and eval agree; N documents in give N out for `.`.
func VerifC10EvalAll() {
	which := verifChoice("expr", len(c10Exprs))
	v := "1"
	if strings.Contains(c10Exprs[which], "7770003") {
		v = verifStrN("v", 1, "02")
	}
	ds, node := c10MakeDoc("d")
	label := "expr=" + c10Exprs[which]
	// eval-all route: readDocuments + EvaluateCandidateNodes-equivalent + one PrintResults
	dec := &c10Decoder{file: -1, files: [][]*CandidateNode{{node}}}
	docs, err := readDocuments(nil, "f0.yml", 0, dec)
	if err != nil {
		verifFail("C10/readDocuments-error")
	}
	var evA []string
	var outA bytes.Buffer
	pA := NewPrinter(&c10Encoder{events: &evA}, NewSinglePrinterWriter(&outA))
	ctxA, errA := NewDataTreeNavigator().GetMatchingNodes(Context{MatchingNodes: docs}, c10Parse(which, v))
	if errA == nil {
		errA = pA.PrintResults(ctxA.MatchingNodes)
	}
	// eval route
	dec2 := &c10Decoder{file: -1, files: [][]*CandidateNode{{c10Rebuild(ds)}}}
	var evS []string
	var outS bytes.Buffer
	pS := NewPrinter(&c10Encoder{events: &evS}, NewSinglePrinterWriter(&outS))
	_, errS := NewStreamEvaluator().Evaluate("f0.yml", nil, c10Parse(which, v), pS, dec2)
	verifAssert((errA == nil) == (errS == nil), "C10/eval-all-vs-eval-error "+label)
	if errA == nil && errS == nil {
		verifObserve("evalall", strings.Join(evA, "; "))
		verifAssert(verifEqStr(strings.Join(evA, "; "), strings.Join(evS, "; ")), "C10/eval-all-equals-eval-on-one-document "+label)
	}
	// identity: N documents in, N nodes out (both modes)
	n := verifChoice("ndocs", 3) + 1
	var many []*CandidateNode
	for i := 0; i < n; i++ {
		many = append(many, c10Rebuild(ds))
	}
	dec3 := &c10Decoder{file: -1, files: [][]*CandidateNode{many}}
	var ev3 []string
	var out3 bytes.Buffer
	p3 := NewPrinter(&c10Encoder{events: &ev3}, NewSinglePrinterWriter(&out3))
	_, err3 := NewStreamEvaluator().Evaluate("f0.yml", nil, vParse("."), p3, dec3)
	verifAssert(err3 == nil, "C10/identity-error")
	nodes := 0
	for _, e := range ev3 {
		if strings.HasPrefix(e, "NODE") {
			nodes++
		}
	}
	verifAssert(nodes == n, "C10/identity-document-count")
	verifCover("C10/evalall/end")
}

var _ = list.New

// ---- real YAML decoder ----
//
// VerifC10RealFiles: the same loop with the real yamlDecoder (reused for every file, as EvaluateFiles and
// readDocuments reuse it) on file texts that mix ordinary, multi-document, comment-only and empty files: what the
// stream delivers for file k — documents, their leading content, their indices — must be what the same file gives
// when it is the only file read by a fresh decoder. Both modes (sequence; eval-all with EvaluateTogether).
var c10Texts = []string{"x: 1\n", "# only a comment\n# second line\n", "# c\nb: 2\n", "---\ny: 2\n", "", "a: 1\n---\n# mid\nb: 2\n", "--- # t\nz: 3\n"}

type c10RecEncoder struct{ events *[]string }

func (e *c10RecEncoder) Encode(_ io.Writer, node *CandidateNode) error {
	*e.events = append(*e.events, "NODE "+vDumpFull(node)+" lead="+node.LeadingContent+" f="+verifItoa(int64(node.fileIndex)))
	return nil
}
func (e *c10RecEncoder) PrintDocumentSeparator(_ io.Writer) error { return nil }
func (e *c10RecEncoder) PrintLeadingContent(_ io.Writer, content string) error {
	*e.events = append(*e.events, "LEAD "+content)
	return nil
}
func (e *c10RecEncoder) CanHandleAliases() bool { return true }

func c10RunFiles(texts []string, firstIndex int, evalAll bool) ([]string, bool) {
	prefs := NewDefaultYamlPreferences()
	prefs.EvaluateTogether = evalAll
	dec := NewYamlDecoder(prefs)
	var events []string
	var out bytes.Buffer
	printer := NewPrinter(&c10RecEncoder{events: &events}, NewSinglePrinterWriter(&out))
	if !evalAll {
		ev := NewStreamEvaluator().(*streamEvaluator)
		ev.fileIndex = firstIndex
		for _, t := range texts {
			if _, err := ev.Evaluate("f.yml", strings.NewReader(t), vParse("."), printer, dec); err != nil {
				return events, false
			}
		}
		return events, true
	}
	all := list.New()
	if firstIndex > 0 {
		// standing in for "not the first file": eval-all takes leading content from the first file only
		_ = dec.Init(strings.NewReader(""))
	}
	for i, t := range texts {
		docs, err := readDocuments(strings.NewReader(t), "f.yml", firstIndex+i, dec)
		if err != nil {
			return events, false
		}
		all.PushBackList(docs)
	}
	for el := all.Front(); el != nil; el = el.Next() {
		n := el.Value.(*CandidateNode)
		events = append(events, "DOC "+vDumpFull(n)+" lead="+n.LeadingContent+" f="+verifItoa(int64(n.fileIndex)))
	}
	return events, true
}

func VerifC10RealFiles() {
	evalAll := verifChoice("evalAll", 2) == 1
	t0 := verifChoice("file0", len(c10Texts))
	t1 := verifChoice("file1", len(c10Texts))
	both, okBoth := c10RunFiles([]string{c10Texts[t0], c10Texts[t1]}, 0, evalAll)
	first, okFirst := c10RunFiles([]string{c10Texts[t0]}, 0, evalAll)
	second, okSecond := c10RunFiles([]string{c10Texts[t1]}, 1, evalAll)
	mode := " mode=eval"
	if evalAll {
		mode = " mode=eval-all"
	}
	verifAssert(okBoth == (okFirst && okSecond), "C10/real-files-error-depends-on-neighbour-file"+mode)
	if !okBoth || !okFirst || !okSecond {
		return
	}
	if evalAll {
		// eval-all takes leading content from the first file only (decoder_yaml.go: comments of later files stay in the
		// nodes); the stand-alone run of the second file is therefore made with a decoder that has seen an empty file
		verifCover("C10/real/evalall")
	}
	got := strings.Join(both, "; ")
	want := strings.Join(append(append([]string{}, first...), second...), "; ")
	verifObserve("got", got)
	verifObserve("want", want)
	verifAssert(got == want, "C10/file-result-depends-on-neighbour-file"+mode)
	verifCover("C10/real/end")
}

// VerifC10SecondFile: every decoder that is reused for the next input file (the command layer hands the same decoder
// to each file) delivers that file's document too — a decoder that remembers "finished" from the previous file
// silently skips it. Formats whose decoder the engine can execute on concrete text.
func VerifC10SecondFile() {
	// (the TOML, Lua, JSON and properties decoders sit on third-party parsers the engine cannot execute — unsafe pointer
	// arithmetic, a bytecode VM, goroutines — and base64 on a native library: outside this harness)
	formats := []string{"csv", "tsv", "uri", "xml-stub", "yaml"}
	texts := [][2]string{{"a,b\n1,2\n", "a,b\n3,4\n"}, {"a\tb\n1\t2\n", "a\tb\n3\t4\n"}, {"x%20y", "z"}, {"", ""}, {"x: 1\n", "y: 2\n"}}
	fi := verifChoice("format", len(formats))
	if formats[fi] == "xml-stub" {
		return // the XML decoder runs against a token stub in this engine (C11/C19 harnesses)
	}
	f, err := FormatFromString(formats[fi])
	if err != nil || f.DecoderFactory == nil {
		verifFail("C10/format-lookup")
	}
	dec := f.DecoderFactory()
	count := 0
	for file := 0; file < 2; file++ {
		if err := dec.Init(strings.NewReader(texts[fi][file])); err != nil {
			verifFail("C10/second-file-init-error format=" + formats[fi])
		}
		n, err := dec.Decode()
		if err == nil && n != nil {
			count++
		}
	}
	verifAssert(count == 2, "C10/second-input-file-skipped format="+formats[fi])
	verifCover("C10/second-file/end")
}

// VerifC10Origin: document_index, file_index and filename asked of what an expression yields — elements, values built
// below the root, values bound to variables, entries — name the document and file the value came from. Document
// number, file number and the expression are chosen per path; only the values are compared (no printer involved).
func VerifC10Origin() {
	exprs := []string{".", ".[]", ".[] | {\"v\": .}", "{\"first\": .[0]}", ".[0] as $x | {\"k\": $x}", ".[] | {\"v\": .} | .v", "{\"a\": {\"b\": .[0]}} | .a",
		".[] | select(. == 1)", ".[1:] | .[]", "{\"m\": .} | .m[]", "map({\"v\": .}) | .[]", ".[] | {\"v\": .} | select(.v == 1)", "{\"a\": .[0]} * {\"b\": .[1]}", "{\"a\": .[0]} + {\"b\": .[1]}",
		"keys", "keys | .[]", "to_entries", "to_entries | .[]", "[.[0]]", "[.[]] | .[]", "length", "reverse", "reverse | .[]", "sort | .[0]", "unique", "flatten", ". + [5]", ". + [5] | .[]", ". - [1]",
		"map(. + 1)", "map(. + 1) | .[]", "{\"m\": .} | to_entries | .[] | .value", "with_entries(.)", "{\"a\": 1} | keys", "any", ".[0] + 1", ".[0] == 1", ".[0] // 5", "[.[] | select(. == 1)]",
		"group_by(.) | .[]", "(.[0] | tostring)", "path", ".[0] | path", "{\"a\": .[0]} | pick([\"a\"])", "{\"a\": .[0]} | omit([\"b\"])", "{\"a\": .[0]} | to_entries | from_entries",
		// literals and what is computed from them only: evaluated for a document, they are results of that document
		"5", "\"x\"", "true", "null", ".[7] // \"d\"", "\"v\\(.[0])\"", "[1, 2]", "{\"k\": 1}", "1 + 2", ".[] | \"s\"", "[\"a\", \"b\"] | .[]", "5 as $x | $x",
		// values decoded from text inside the expression, and values read from the environment
		"to_yaml | from_yaml", "\"a: 1\" | from_yaml", ".[0] | tostring | from_yaml", "\"YQ==\" | @base64d", "\"x%20y\" | @urid", "strenv(NOT_SET)", "\"a,b\\n1,2\" | from_csv", "to_yaml | from_yaml | .[0]"}
	which := verifChoice("expr", len(exprs))
	d, f := verifChoice("doc", 3), verifChoice("file", 3)
	names := []string{"f0.yml", "dir/f1.yml", "f2.yaml"}
	node := c10Rebuild([]string{"1", verifStrN("e", 1, "02")})
	node.document, node.fileIndex, node.filename = uint(d), f, names[f]
	res, err := vEval(vParse(exprs[which]+" | [document_index, file_index, filename]"), node)
	label := "expr=" + exprs[which]
	verifAssert(err == nil, "C10/origin-error "+label)
	if err != nil {
		return
	}
	want := "[<!!int " + verifItoa(int64(d)) + ">, <!!int " + verifItoa(int64(f)) + ">, <!!str " + names[f] + ">]"
	for _, r := range vNodes(res) {
		verifAssert(vDump(r) == want, "C10/value-reports-another-origin "+label)
	}
	if res.Len() > 0 {
		verifCover("C10/origin/some")
	}
	verifCover("C10/origin/end")
}


// VerifC10FilesToText: two files through the real stream evaluator, YAML decoder, printer and YAML encoder (one of
// each, as the command uses them); the printed text, read again, holds exactly the documents of file one followed by
// those of file two — N input documents give N output documents, with the same data — also when a file starts with
// comments, a separator, or both.
func VerifC10FilesToText() {
	texts := append(append([]string{}, c10Texts...), "# c\n---\nb: 2\n", "# c\n\n---\n# d\nb: 2\n", "x: 1\n---\ny: 2\n")
	t0 := verifChoice("file0", len(texts))
	t1 := verifChoice("file1", len(texts))
	if t0 == 1 || t0 == 4 || t1 == 1 || t1 == 4 {
		return // files without any document (comments only, empty) are the subject of VerifC10RealFiles and C05
	}
	prefs := NewDefaultYamlPreferences()
	var sb strings.Builder
	printer := NewPrinter(NewYamlEncoder(prefs), NewSinglePrinterWriter(bufio.NewWriter(vSBWriter{&sb})))
	ev := NewStreamEvaluator()
	dec := NewYamlDecoder(prefs)
	exp := vParse(".")
	total := uint(0)
	for i, t := range []string{texts[t0], texts[t1]} {
		n, err := ev.Evaluate("f"+verifItoa(int64(i))+".yml", strings.NewReader(t), exp, printer, dec)
		if err != nil {
			verifCover("C10/files-to-text/error")
			return
		}
		total += n
	}
	want0, ok0 := c05Data(texts[t0])
	want1, ok1 := c05Data(texts[t1])
	got, okGot := c05Data(sb.String())
	verifObserve("out", sb.String())
	verifAssert(ok0 && ok1 && okGot, "C10/printed-text-of-two-files-is-not-accepted-again")
	if !(ok0 && ok1 && okGot) {
		return
	}
	verifAssert(got == want0+want1, "C10/printed-text-of-two-files-holds-other-documents")
	verifCover("C10/files-to-text/end")
}

// VerifC10ParametersPerDocument: one parsed expression serves every document of a run; a parameter that is computed
// from the document (an interpolated pattern, a computed index or key, a variable) is computed afresh for each:
// the stream over two or three documents with different contents equals the per-document runs.
func VerifC10ParametersPerDocument() {
	exprs := []string{".p as $p | [.items[] | select(test(\"^\\($p)\"))]", "[.items[] | sub(\"\\(.p)\"; \"-\")]", ".items | map(capture(\"(?P<x>\\(parent | parent | .p))\") | .x)",
		".items[.n]", ".items | pick([.n])", "[.items[] | match(\"\\(.p)\") | .offset]", ".p as $k | {$k: .n}", ".items | .[.n:]", "\"\\(.p)-\\(.n)\"", ".items | join(.p)", "[.items[] | split(.p) | length]"}
	which := verifChoice("expr", len(exprs))
	pool := [][3]string{{"a", "0", "ab"}, {"b", "1", "ba"}, {"ab", "2", "abab"}}
	n := 2 + verifChoice("docs", 2)
	var docs []*CandidateNode
	var picks []int
	for i := 0; i < n; i++ {
		k := verifChoice("doc"+verifItoa(int64(i)), len(pool))
		picks = append(picks, k)
	}
	mk := func(k int) *CandidateNode {
		return vDoc(vMap(vStr("p"), vStr(pool[k][0]), vStr("n"), vInt(pool[k][1]), vStr("items"), vSeq(vStr(pool[k][2]), vStr("b"+pool[k][0]), vStr("zz"))))
	}
	for _, k := range picks {
		docs = append(docs, mk(k))
	}
	var events []string
	var out bytes.Buffer
	printer := NewPrinter(&c10Encoder{events: &events}, NewSinglePrinterWriter(&out))
	dec := &c10Decoder{file: -1, files: [][]*CandidateNode{docs}}
	exp := vParse(exprs[which])
	_, err := NewStreamEvaluator().Evaluate("f.yml", nil, exp, printer, dec)
	label := "expr=" + exprs[which]
	var want []string
	failed := false
	for i, k := range picks {
		d := mk(k)
		d.document = uint(i)
		res, e := vEval(vParse(exprs[which]), d)
		if e != nil {
			failed = true
			break
		}
		for _, r := range vNodes(res) {
			if len(want) > 0 && i > 0 {
				want = append(want, "SEP")
			}
			want = append(want, "NODE "+vDump(r))
		}
	}
	verifAssert((err != nil) == failed, "C10/stream-fails-where-the-documents-alone-do-not "+label)
	if err != nil || failed {
		verifCover("C10/params/error")
		return
	}
	got := ""
	for _, e := range events {
		if e != "SEP" {
			got += e + "; "
		}
	}
	exp2 := ""
	for _, e := range want {
		if e != "SEP" {
			exp2 += e + "; "
		}
	}
	verifObserve("got", got)
	verifAssert(got == exp2, "C10/result-for-a-document-depends-on-an-earlier-document "+label)
	verifCover("C10/params/end")
}

// VerifC10DocumentsWithAnchors: documents of ONE file that use the same anchor names (as generated manifests do): what
// an expression yields for document k is what it yields for that document alone - an alias or merge key resolves to
// the anchor of its own document. 2-3 documents from a pool, expressions that look through aliases.
var c10AnchorDocs = []string{"a: &x 1\nb: *x\n", "a: &x 2\nb: *x\n", "a: &x {k: 3}\nb: {<<: *x, j: 5}\n", "a: &y 4\nb: *y\n", "b: 9\n", "a: &x [6]\nb: *x\nc: &y 7\nd: *y\n"}
var c10AnchorExprs = []string{".b", ".", "explode(.)", ".b | explode(.)", "[.. | select(tag == \"!!int\")] | length", ".b.k", ".b | document_index", ".b | to_yaml", ".d", "[.b] | flatten"}

func c10RunOneFile(text string, expr string) ([]string, bool) {
	prefs := NewDefaultYamlPreferences()
	dec := NewYamlDecoder(prefs)
	var events []string
	var out bytes.Buffer
	printer := NewPrinter(&c10RecEncoder{events: &events}, NewSinglePrinterWriter(&out))
	ev := NewStreamEvaluator().(*streamEvaluator)
	if _, err := ev.Evaluate("f.yml", strings.NewReader(text), vParse(expr), printer, dec); err != nil {
		return events, false
	}
	return events, true
}

func VerifC10DocumentsWithAnchors() {
	n := 2 + verifChoice("documents", 2)
	ei := verifChoice("expr", len(c10AnchorExprs))
	expr := c10AnchorExprs[ei]
	text := ""
	var want []string
	okAlone := true
	for i := 0; i < n; i++ {
		d := c10AnchorDocs[verifChoice("doc"+verifItoa(int64(i)), len(c10AnchorDocs))]
		if i > 0 {
			text += "---\n"
		}
		text += d
		alone, ok := c10RunOneFile(d, expr)
		okAlone = okAlone && ok
		if expr == ".b | document_index" {
			for j := range alone {
				alone[j] = strings.Replace(alone[j], "<!!int 0>", "<!!int "+verifItoa(int64(i))+">", 1)
			}
		}
		want = append(want, alone...)
	}
	verifObserve("text", text)
	got, ok := c10RunOneFile(text, expr)
	label := " expr=" + expr
	verifAssert(ok == okAlone, "C10/error-depends-on-neighbour-documents"+label)
	if !ok || !okAlone {
		return
	}
	g, w := strings.Join(got, "; "), strings.Join(want, "; ")
	verifObserve("got", g)
	verifObserve("want", w)
	verifAssert(g == w, "C10/result-for-a-document-depends-on-its-neighbours"+label)
	verifCover("C10/anchor-docs/end")
}

// VerifC10FilesJoined: the text yq prints for an expression over two files is the text it prints for the first file
// followed by the text for the second, joined by one document separator unless the second part brings its own (the
// file starts with `---`) - for expressions that yield the root and then more results of the same document, where the
// printer has to remember which document it last printed for.
func VerifC10FilesJoined() {
	texts := []string{"x: 1\n", "---\ny: 2\n", "a: 1\n---\n# mid\nb: 2\n", "x: 1\n---\ny: 2\n", "# c\nb: 2\n", "--- # t\nz: 3\n", "[1, 2]\n"}
	exprs := []string{".", "., length", "..", "length", "., ([.] | length)", "(., length) | select(. != null)", "length, ."}
	t0, t1 := verifChoice("file0", len(texts)), verifChoice("file1", len(texts))
	expr := exprs[verifChoice("expr", len(exprs))]
	run := func(files []string) (string, bool) {
		prefs := NewDefaultYamlPreferences()
		var sb strings.Builder
		printer := NewPrinter(NewYamlEncoder(prefs), NewSinglePrinterWriter(bufio.NewWriter(vSBWriter{&sb})))
		ev := NewStreamEvaluator()
		dec := NewYamlDecoder(prefs)
		exp := vParse(expr)
		for i, t := range files {
			if _, err := ev.Evaluate("f"+verifItoa(int64(i))+".yml", strings.NewReader(t), exp, printer, dec); err != nil {
				return "", false
			}
		}
		return sb.String(), true
	}
	together, ok := run([]string{texts[t0], texts[t1]})
	p0, ok0 := run([]string{texts[t0]})
	p1, ok1 := run([]string{texts[t1]})
	label := " expr=" + expr
	verifAssert(ok == (ok0 && ok1), "C10/error-depends-on-neighbour-file"+label)
	if !ok || !ok0 || !ok1 {
		return
	}
	want := p0
	if !strings.HasPrefix(p1, "---\n") {
		want += "---\n"
	}
	want += p1
	verifObserve("together", together)
	verifObserve("want", want)
	verifAssert(together == want, "C10/output-for-two-files-is-not-the-outputs-joined"+label)
	verifCover("C10/files-joined/end")
}
