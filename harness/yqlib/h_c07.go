package yqlib

import yaml "gopkg.in/yaml.v3"

// C07 — an update leaves the presentation of everything it did not touch intact (node level).
//
// Every node of the document carries presentation attributes chosen by the solver (comments present/absent,
// style bits, an anchor). After an update targeted at a node set T the full-attribute dump of the document —
// with T masked — must equal the dump of an untouched twin with the same positions masked.

type c07Deco struct {
	head, line, foot string
	style            int
}

func c07DrawDeco() c07Deco {
	return c07Deco{head: verifPick("deco_head", "", "# h"), line: verifPick("deco_line", "", "# l"), foot: verifPick("deco_foot", "", "# f"), style: verifChoice("deco_style", 2)}
}

func c07Decorate(d c07Deco, n *yaml.Node, styles []yaml.Style) {
	n.HeadComment, n.LineComment, n.FootComment = d.head, d.line, d.foot
	n.Style = styles[d.style]
}

var c07ScalarStyles = []yaml.Style{0, yaml.SingleQuotedStyle}
var c07CollStyles = []yaml.Style{0, yaml.FlowStyle}

var c07KeyS = "s"

func c07Doc(x [4]string, deco int, d c07Deco) *CandidateNode {
	// only one node per run gets solver-chosen decoration (others fixed, non-trivial), which keeps the
	// product of attribute choices linear in the number of nodes
	idx := 0
	mk := func(name string, n *yaml.Node, coll bool) *yaml.Node {
		if idx == deco {
			if coll {
				c07Decorate(d, n, c07CollStyles)
			} else {
				c07Decorate(d, n, c07ScalarStyles)
			}
		} else {
			n.HeadComment = "# H" + name
			n.LineComment = "# L" + name
			if !coll {
				n.Style = yaml.DoubleQuotedStyle
			}
		}
		idx++
		return n
	}
	b := mk("b", vInt(x[0]), false)
	kb := mk("kb", vStr("b"), false)
	a := mk("a", vMap(kb, b), true)
	c0 := mk("c0", vInt(x[1]), false)
	c1 := mk("c1", vInt(x[2]), false)
	c := mk("c", vSeq(c0, c1), true)
	c.Anchor = "anc"
	s := mk("s", vInt(x[3]), false)
	ks := mk("ks", vStr(c07KeyS), false)
	root := mk("root", vMap(vStr("a"), a, vStr("c"), c, ks, s), true)
	return vDoc(root)
}

const c07Nodes = 9

func c07InList(l [][]int, pos []int) bool { return c03PosSelected(l, pos) }

// c07Dump: full-attribute dump with some positions skipped entirely and some replaced by a placeholder.
func c07Dump(n *CandidateNode, pos []int, skip, hole [][]int) string {
	if c07InList(hole, pos) {
		return "<HOLE>"
	}
	attrs := "(s=" + verifItoa(int64(n.Style)) + " a=" + n.Anchor + " t=" + n.Tag + " h=" + n.HeadComment + " l=" + n.LineComment + " f=" + n.FootComment + ")"
	switch n.Kind {
	case ScalarNode:
		return "<" + n.Value + ">" + attrs
	case AliasNode:
		return "*" + attrs
	}
	open, close := "[", "]"
	if n.Kind == MappingNode {
		open, close = "{", "}"
	}
	out := open + attrs
	for i, c := range n.Content {
		p := append(append([]int{}, pos...), i)
		if c07InList(skip, p) {
			continue
		}
		out += ", " + c07Dump(c, p, skip, hole)
	}
	return out + close
}

type c07Update struct {
	name, text           string
	holeBefore, holeAfter [][]int
	skipBefore, skipAfter [][]int
}

func VerifC07Untouched() {
	x := [4]string{verifStrN("x0", 1, vDigits()), verifStrN("x1", 1, vDigits()), verifStrN("x2", 1, vDigits()), verifStrN("x3", 1, vDigits())}
	deco := verifChoice("decoratedNode", c07Nodes)
	v := verifStrN("v", 1, "49")
	i := 0
	which := verifChoice("update", 22)
	c07KeyS = "s"
	var u c07Update
	// positions: root.Content = [ka, a, kc, c, ks, s]; a.Content = [kb, b]; c.Content = [c0, c1]
	switch which {
	case 0:
		u = c07Update{name: "replace-scalar", text: ".a.b = 7770009", holeBefore: [][]int{{1, 1}}, holeAfter: [][]int{{1, 1}}}
	case 1:
		i = verifConcreteInt(verifIntRange("i", 0, 1), 0, 1)
		u = c07Update{name: "replace-element", text: ".c[7770001] = 7770009", holeBefore: [][]int{{3, i}}, holeAfter: [][]int{{3, i}}}
	case 2:
		i = verifConcreteInt(verifIntRange("i", 0, 1), 0, 1)
		u = c07Update{name: "delete-element", text: "del(.c[7770001])", skipBefore: [][]int{{3, i}}}
	case 3:
		u = c07Update{name: "append", text: ".c += [7770009]", skipAfter: [][]int{{3, 2}}}
	case 4:
		u = c07Update{name: "create-key", text: ".n = 7770009", skipAfter: [][]int{{6}, {7}}}
	case 5:
		u = c07Update{name: "update-arithmetic", text: ".a.b |= . + 1", holeBefore: [][]int{{1, 1}}, holeAfter: [][]int{{1, 1}}}
	case 6:
		u = c07Update{name: "replace-subtree", text: ".a = {\"z\": 7770009}", holeBefore: [][]int{{1}}, holeAfter: [][]int{{1}}}
	case 7:
		u = c07Update{name: "delete-key", text: "del(.s)", skipBefore: [][]int{{4}, {5}}}
	case 8: // the result of a merge / concatenation of existing values stored under a new key: the operands stay as they were
		u = c07Update{name: "store-merge-result", text: ".n = .a * {\"z\": 7770009, \"b\": 7770009}", skipAfter: [][]int{{6}, {7}}}
	case 9:
		u = c07Update{name: "store-concat-result", text: ".n = .c + [7770009]", skipAfter: [][]int{{6}, {7}}}
	case 10: // an entry selected by what it holds, not by its key; the key is arbitrary text (glob characters included)
		c07KeyS = verifStrN("keyOfS", 1, "*z")
		verifAssume(!verifEqStr(c07KeyS, "a") && !verifEqStr(c07KeyS, "c"))
		u = c07Update{name: "delete-selected-entry", text: "del(.[] | select(tag == \"!!int\"))", skipBefore: [][]int{{4}, {5}}}
	case 11: // an index past the end: the gap is padded with nulls; the sequence itself and its old elements stay as written
		i = verifConcreteInt(verifIntRange("i", 2, 4), 2, 4)
		u = c07Update{name: "assign-past-the-end", text: ".c[7770001] = 7770009", skipAfter: [][]int{{3, 2}, {3, 3}, {3, 4}}}
	case 12:
		i = verifConcreteInt(verifIntRange("i", 2, 4), 2, 4)
		u = c07Update{name: "update-past-the-end", text: ".c[7770001] |= 7770009", skipAfter: [][]int{{3, 2}, {3, 3}, {3, 4}}}
	case 13: // missing intermediate maps are created under an existing one
		u = c07Update{name: "create-nested-path", text: ".a.n.m = 7770009", skipAfter: [][]int{{1, 2}, {1, 3}}}
	case 14: // a key of an element that does not exist yet
		i = verifConcreteInt(verifIntRange("i", 2, 3), 2, 3)
		u = c07Update{name: "create-key-in-new-element", text: ".c[7770001].k = 7770009", skipAfter: [][]int{{3, 2}, {3, 3}}}
	// a variable binding inside a scope that only reads (the right-hand side of an assignment, a select condition, the
	// selection of del): what the body traverses on the way - a path that is not there - is not created
	case 15:
		u = c07Update{name: "assign-looked-up-default", text: ".a.b = (.s as $k | .missing.deep // 7770009)", holeBefore: [][]int{{1, 1}}, holeAfter: [][]int{{1, 1}}}
	case 16:
		u = c07Update{name: "assign-to-selected-by-lookup", text: "(.c[] | select(. as $e | parent | parent | .nope.x // true)) = 7770009", holeBefore: [][]int{{3, 0}, {3, 1}}, holeAfter: [][]int{{3, 0}, {3, 1}}}
	case 17:
		u = c07Update{name: "delete-selected-by-lookup-nothing-matches", text: "del(.c[] | select(. as $e | parent | parent | .nope | . == \"none\"))"}
	case 18:
		u = c07Update{name: "append-looked-up-default", text: ".c += [(.a.b as $k | .zz.yy // 7770009)]", skipAfter: [][]int{{3, 2}}}
	// a list filled with copies of values that sit under map keys, then an element of that list deleted (the survivors
	// are renumbered): the keys the copies came from stay what they were
	case 19:
		u = c07Update{name: "delete-from-list-of-copied-map-values", text: ".n = [.a.b, .s, 7770009] | del(.n[0])", skipAfter: [][]int{{6}, {7}}}
	case 20:
		u = c07Update{name: "delete-from-list-of-all-values", text: ".n = [.[]] | del(.n[1])", skipAfter: [][]int{{6}, {7}}}
	case 21:
		u = c07Update{name: "delete-selected-from-list-of-copies", text: ".n = [.a[], .s] | del(.n[] | select(. == 7770009))", skipAfter: [][]int{{6}, {7}}}
	}
	d := c07DrawDeco()
	doc := c07Doc(x, deco, d)
	twin := c07Doc(x, deco, d)
	e := vParse(u.text)
	vSubst(e, "7770009", "!!int", v)
	vSubst(e, "7770001", "!!int", verifItoa(int64(i)))
	// document-level leading content (comments before the document, a separator) as the decoder records it
	lead := verifPick("leadingContent", "", "# c\n", "$yqDocSeparator$\n# c\n", "# c\n\n# d\n")
	doc.LeadingContent = lead
	res, err := vEval(e, doc)
	verifAssert(err == nil, "C07/update-error "+u.name)
	if err != nil {
		return
	}
	verifAssert(verifEqStr(doc.LeadingContent, lead), "C07/document-leading-content-changed "+u.name)
	for _, r := range vNodes(res) {
		if r.Parent == nil {
			verifAssert(verifEqStr(r.LeadingContent, lead), "C07/result-lost-document-leading-content "+u.name)
		}
	}
	before := c07Dump(twin, nil, u.skipBefore, u.holeBefore)
	after := c07Dump(doc, nil, u.skipAfter, u.holeAfter)
	verifObserve("before", before)
	verifObserve("after", after)
	verifAssert(verifEqStr(before, after), "C07/presentation-outside-target-changed "+u.name)
	verifCover("C07/end")
}
