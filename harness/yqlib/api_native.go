package yqlib

// Native twins of the harness primitives: they replay a concrete trace produced from a solver model.

import (
	"encoding/json"
	"fmt"
	"os"
	"strconv"
	"strings"
	"sync"
)

type verifTraceEntry struct {
	Kind string          `json:"kind"`
	Name string          `json:"name"`
	Val  json.RawMessage `json:"val"`
}

type verifReplayState struct {
	trace  []verifTraceEntry
	pos    int
	out    []string
	params map[string]int
}

var verifRS *verifReplayState

type verifAbort struct{ msg string }

func (rs *verifReplayState) next(kind, name string) json.RawMessage {
	if rs.pos >= len(rs.trace) {
		panic(verifAbort{fmt.Sprintf("trace exhausted at %s %s", kind, name)})
	}
	e := rs.trace[rs.pos]
	rs.pos++
	if e.Name != name {
		panic(verifAbort{fmt.Sprintf("trace mismatch: want %s %s, trace has %s %s", kind, name, e.Kind, e.Name)})
	}
	return e.Val
}

func verifBytes(raw json.RawMessage) string {
	var xs []int
	if err := json.Unmarshal(raw, &xs); err != nil {
		panic(verifAbort{"bad bytes in trace: " + err.Error()})
	}
	b := make([]byte, len(xs))
	for i, x := range xs {
		b[i] = byte(x)
	}
	return string(b)
}

func verifBool(name string) bool {
	var b bool
	_ = json.Unmarshal(verifRS.next("bool", name), &b)
	return b
}
func verifInt64(name string) int64 {
	var v int64
	_ = json.Unmarshal(verifRS.next("int", name), &v)
	return v
}
func verifInt(name string) int                  { return int(verifInt64(name)) }
func verifIntRange(name string, lo, hi int) int { return int(verifInt64(name)) }
func verifByte(name string) byte                { return byte(verifInt64(name)) }
func verifStr(name string, maxLen int, ranges string) string {
	return verifBytes(verifRS.next("str", name))
}
func verifStrN(name string, n int, ranges string) string {
	return verifBytes(verifRS.next("str", name))
}
func verifPick(name string, alts ...string) string { return verifBytes(verifRS.next("pick", name)) }
func verifChoice(name string, n int) int {
	var v int
	_ = json.Unmarshal(verifRS.next("choice", name), &v)
	return v
}
func verifShared(f func()) {
	// two evaluations at the same time, a few times over (the race detector compares their memory accesses)
	for round := 0; round < 3; round++ {
		var wg sync.WaitGroup
		for g := 0; g < 2; g++ {
			wg.Add(1)
			go func() {
				defer wg.Done()
				f()
			}()
		}
		wg.Wait()
	}
}

func verifItoa(v int64) string   { return strconv.FormatInt(v, 10) }
func verifFtoa(f float64) string { return strconv.FormatFloat(f, 'g', -1, 64) }

func verifAssume(c bool) {
	if !c {
		panic(verifAbort{"assumption violated in replay"})
	}
}
func verifAssert(c bool, label string) {
	if !c {
		verifRS.out = append(verifRS.out, "ASSERTFAIL "+label)
	}
}
func verifFail(label string) {
	verifRS.out = append(verifRS.out, "ASSERTFAIL "+label)
	panic(verifAbort{"failed"})
}
func verifCover(label string) { verifRS.out = append(verifRS.out, "COVER "+label) }
func verifObserve(label string, v interface{}) {
	var s string
	switch x := v.(type) {
	case string:
		s = strconv.Quote(x)
	case nil:
		s = "<nil>"
	default:
		s = fmt.Sprint(x)
	}
	verifRS.out = append(verifRS.out, "OBS "+label+" "+s)
}

func verifAnd(a, b bool) bool     { return a && b }
func verifOr(a, b bool) bool      { return a || b }
func verifNot(a bool) bool        { return !a }
func verifImplies(a, b bool) bool { return !a || b }
func verifIteInt(c bool, a, b int64) int64 {
	if c {
		return a
	}
	return b
}
func verifEqStr(a, b string) bool   { return a == b }
func verifLessStr(a, b string) bool { return a < b }

func verifParam(name string, def int) int {
	if v, ok := verifRS.params[name]; ok {
		return v
	}
	return def
}
func verifConcreteInt(v int, lo, hi int) int { return v }
func verifConcreteStr(s string) string       { return s }
func verifConcreteBool(b bool) bool          { return b }
func verifSymbolicMode() bool                { return false }

type verifReplayFile struct {
	Harness string            `json:"harness"`
	Params  map[string]int    `json:"params"`
	Trace   []verifTraceEntry `json:"trace"`
}

// verifRunReplay runs one harness on one trace and returns the observable lines.
func verifRunReplay(path string, registry map[string]func()) (lines []string) {
	data, err := os.ReadFile(path)
	if err != nil {
		return []string{"ERROR " + err.Error()}
	}
	var rf verifReplayFile
	if err := json.Unmarshal(data, &rf); err != nil {
		return []string{"ERROR " + err.Error()}
	}
	fn, ok := registry[rf.Harness]
	if !ok {
		return []string{"ERROR unknown harness " + rf.Harness}
	}
	verifRS = &verifReplayState{trace: rf.Trace, params: rf.Params}
	defer func() {
		if r := recover(); r != nil {
			if a, ok := r.(verifAbort); ok {
				if a.msg != "failed" {
					verifRS.out = append(verifRS.out, "ABORT "+a.msg)
				}
			} else {
				msg := strings.ReplaceAll(fmt.Sprint(r), "\n", " ")
				verifRS.out = append(verifRS.out, "PANIC "+msg)
			}
		}
		lines = verifRS.out
	}()
	fn()
	return
}
