package yqlib

import (
	"strings"

	yaml "gopkg.in/yaml.v3"
)

// C16 — path, key and parent describe where a node actually is.

var c16SeqProducers = []string{".a", ".a | sort", ".a | sort_by(.)", ".a | reverse", ".a | unique", ".a | .[1:]", ".a | map(.)", ".a | filter(. != 2)", "[.a[]]", ".a + [9]", ".a | (.[0] = 7)", ".a | flatten",
	// after a delete (also of an index that is not there, which deletes nothing) the survivors are where they say they are
	".a | del(.[5])", ".a | del(.[0])", ".a | del(.[-1])", ".a | reverse | del(.[0])", ".a | sort | del(.[1])", ".a | del(.[0], .[7])", ".a | del(.[1]) | del(.[9])", "del(.a[6]) | .a"}
var c16SeqProducerNames = []string{"fresh", "sort", "sort_by", "reverse", "unique", "slice", "map", "filter", "collect", "concat", "assign-back", "flatten",
	"delete-absent", "delete-first", "delete-last", "reverse-then-delete", "sort-then-delete", "delete-two-one-absent", "delete-then-delete-absent", "delete-absent-through-the-document"}

// c16Follow walks a path (as produced by the `path` operator: a !!seq of !!str / !!int scalars) from root.
func c16Follow(root *CandidateNode, path *CandidateNode, skip int) *CandidateNode {
	cur := root
	for pi := skip; pi < len(path.Content); pi++ {
		seg := path.Content[pi]
		if cur == nil {
			return nil
		}
		switch cur.Kind {
		case SequenceNode:
			idx, err := parseInt(seg.Value)
			if err != nil {
				return nil
			}
			i := verifConcreteInt(idx, -1, 64)
			if i < 0 || i >= len(cur.Content) {
				return nil
			}
			cur = cur.Content[i]
		case MappingNode:
			var next *CandidateNode
			for i := 0; i+1 < len(cur.Content); i += 2 {
				if verifConcreteBool(verifEqStr(cur.Content[i].Value, seg.Value)) {
					next = cur.Content[i+1]
					break
				}
			}
			cur = next
		default:
			return nil
		}
	}
	return cur
}

func c16One(exp string, n *CandidateNode) *CandidateNode {
	res, err := vEval(vParse(exp), n)
	if err != nil || res.Len() != 1 {
		return nil
	}
	return res.Front().Value.(*CandidateNode)
}

// VerifC16Seq: every element of a (derived) sequence reports the index it really has, its real parent, and a
// path that leads back to itself.
func VerifC16Seq() {
	maxn := verifParam("maxn", 3)
	n := verifChoice("n", maxn+1)
	seq := vSeq()
	for i := 0; i < n; i++ {
		seq.Content = append(seq.Content, vInt(verifStrN("e"+verifItoa(int64(i)), 1, vDigits())))
	}
	doc := vDoc(vMap(vStr("a"), seq))
	p := verifChoice("producer", len(c16SeqProducers))
	label := "producer=" + c16SeqProducerNames[p]
	if p == 10 && n == 0 {
		return // .[0] = 7 on an empty sequence creates an element; not the subject here
	}
	if c16SeqProducerNames[p] == "delete-last" && n == 0 {
		return // .[-1] of an empty sequence is an error
	}
	res, err := vEval(vParse(c16SeqProducers[p]), doc)
	if err != nil || res.Len() != 1 {
		verifFail("C16/producer-failed " + label)
	}
	c := res.Front().Value.(*CandidateNode)
	verifAssert(c.Kind == SequenceNode, "C16/producer-kind "+label)
	cPath := c16One("path", c)
	if cPath == nil {
		verifFail("C16/path-of-container-failed " + label)
	}
	// (checked first: a failed assertion ends a path, and the per-element checks below meet the recorded stale-key finding)
	// keys / to_entries enumerate the same indices
	ks := c16One("keys", c)
	verifAssert(ks != nil && len(ks.Content) == len(c.Content), "C16/keys-count "+label)
	if ks != nil && len(ks.Content) == len(c.Content) {
		for k := range c.Content {
			verifAssert(verifEqStr(ks.Content[k].Value, verifItoa(int64(k))), "C16/keys-enumerate-positions "+label)
		}
	}
	es := c16One("to_entries", c)
	verifAssert(es != nil && len(es.Content) == len(c.Content), "C16/entries-count "+label)
	if es != nil && len(es.Content) == len(c.Content) {
		for k := range c.Content {
			e := es.Content[k]
			verifAssert(e.Kind == MappingNode && len(e.Content) == 4, "C16/entry-shape "+label)
			if e.Kind == MappingNode && len(e.Content) == 4 {
				verifAssert(verifEqStr(e.Content[1].Value, verifItoa(int64(k))), "C16/entries-enumerate-positions "+label)
			}
		}
	}
	for k, el := range c.Content {
		ks := verifItoa(int64(k))
		// key
		kn := c16One("key", el)
		verifAssert(kn != nil, "C16/key-missing "+label)
		if kn != nil {
			verifObserve("key", kn.Value)
			verifAssert(verifEqStr(kn.Value, ks), "C16/key-is-position "+label)
		}
		// parent: the container that actually holds the element
		pn := c16One("parent", el)
		verifAssert(pn == c, "C16/parent-is-holder "+label)
		// path = path(container) ++ [k], and following it from the container reaches the element itself
		pa := c16One("path", el)
		verifAssert(pa != nil, "C16/path-missing "+label)
		if pa != nil {
			verifAssert(len(pa.Content) == len(cPath.Content)+1, "C16/path-length "+label)
			if len(pa.Content) == len(cPath.Content)+1 {
				verifAssert(verifEqStr(pa.Content[len(pa.Content)-1].Value, ks), "C16/path-last-is-position "+label)
				verifAssert(c16Follow(c, pa, len(cPath.Content)) == el, "C16/path-leads-to-node "+label)
			}
		}
	}
	verifCover("C16/seq/end")
}

var c16MapProducers = []string{".", "sort_keys(.)", "with_entries(.)", "pick([\"KEYA\"])", "omit([\"KEYA\"])", ". * {}", "to_entries | from_entries", "map_values(.)", ". + {}", ". + {\"KEYA\": 9}", ". * {\"KEYA\": 9}", "{\"KEYA\": 9} + .", ". + {\"KEYA\": {\"z\": 9}}"}
var c16MapProducerNames = []string{"fresh", "sort_keys", "with_entries", "pick", "omit", "merge", "entries-roundtrip", "map_values", "add", "add-overlapping", "merge-overlapping", "add-to-literal", "add-overlapping-map"}

// VerifC16Map: same for (derived) maps with symbolic keys.
func VerifC16Map() {
	maxn := verifParam("maxn", 2)
	n := verifChoice("n", maxn+1)
	m := vMap()
	var keys []string
	for i := 0; i < n; i++ {
		k := verifStrN("k"+verifItoa(int64(i)), 1, "ac")
		for _, prev := range keys {
			verifAssume(!verifEqStr(prev, k))
		}
		keys = append(keys, k)
		m.Content = append(m.Content, vStr(k), vInt(verifStrN("v"+verifItoa(int64(i)), 1, vDigits())))
	}
	doc := vDoc(vMap(vStr("a"), m))
	p := verifChoice("producer", len(c16MapProducers))
	label := "map producer=" + c16MapProducerNames[p]
	exp := vParse(".a | " + c16MapProducers[p])
	if p == 3 || p == 4 || p >= 9 {
		vSubst(exp, "KEYA", "", verifStrN("q", 1, "ac"))
	}
	res, err := vEval(exp, doc)
	if err != nil || res.Len() != 1 {
		verifFail("C16/producer-failed " + label)
	}
	c := res.Front().Value.(*CandidateNode)
	verifAssert(c.Kind == MappingNode, "C16/producer-kind "+label)
	cPath := c16One("path", c)
	if cPath == nil {
		verifFail("C16/path-of-container-failed " + label)
	}
	for i := 0; i+1 < len(c.Content); i += 2 {
		keyNode, el := c.Content[i], c.Content[i+1]
		kn := c16One("key", el)
		verifAssert(kn != nil, "C16/key-missing "+label)
		if kn != nil {
			verifAssert(verifEqStr(kn.Value, keyNode.Value), "C16/key-is-map-key "+label)
		}
		pn := c16One("parent", el)
		verifAssert(pn == c, "C16/parent-is-holder "+label)
		pa := c16One("path", el)
		verifAssert(pa != nil, "C16/path-missing "+label)
		if pa != nil {
			verifAssert(len(pa.Content) == len(cPath.Content)+1, "C16/path-length "+label)
			if len(pa.Content) == len(cPath.Content)+1 {
				verifAssert(verifEqStr(pa.Content[len(pa.Content)-1].Value, keyNode.Value), "C16/path-last-is-key "+label)
				verifAssert(c16Follow(c, pa, len(cPath.Content)) == el, "C16/path-leads-to-node "+label)
			}
		}
	}
	ks := c16One("keys", c)
	verifAssert(ks != nil && len(ks.Content)*2 == len(c.Content), "C16/keys-count "+label)
	if ks != nil && len(ks.Content)*2 == len(c.Content) {
		for k := range ks.Content {
			verifAssert(verifEqStr(ks.Content[k].Value, c.Content[2*k].Value), "C16/keys-enumerate-keys "+label)
		}
	}
	verifCover("C16/map/end")
}

// VerifC16Fresh: in a freshly decoded nested document every node reachable by `..` has a path that leads,
// from the document root, back to that very node.
func VerifC16Fresh() {
	k1 := verifStrN("k1", 1, "ac")
	k2 := verifStrN("k2", 1, "ac")
	verifAssume(!verifEqStr(k1, k2))
	k3 := verifStrN("k3", 1, "ac")
	shape := verifChoice("shape", 3)
	var root *CandidateNode
	switch shape {
	case 0:
		root = vDoc(vMap(vStr(k1), vSeq(vInt("1"), vMap(vStr(k3), vInt("2"))), vStr(k2), vInt("3")))
	case 1:
		root = vDoc(vSeq(vMap(vStr(k1), vSeq(vInt("1")), vStr(k2), vNull()), vSeq(vSeq(vInt("4")))))
	default:
		root = vDoc(vMap(vStr(k1), vMap(vStr(k3), vMap(vStr(k2), vSeq())), vStr(k2), vSeq(vInt("5"), vInt("6"))))
	}
	res, err := vEval(vParse(".."), root)
	if err != nil {
		verifFail("C16/recursive-descent-failed")
	}
	count := 0
	for _, nd := range vNodes(res) {
		pa := c16One("path", nd)
		verifAssert(pa != nil, "C16/path-missing fresh")
		if pa != nil {
			verifAssert(c16Follow(root, pa, 0) == nd, "C16/path-leads-to-node fresh")
			if len(pa.Content) > 0 {
				kn := c16One("key", nd)
				verifAssert(kn != nil && verifConcreteBool(verifEqStr(kn.Value, pa.Content[len(pa.Content)-1].Value)), "C16/key-is-last-path-element fresh")
				pn := c16One("parent", nd)
				verifAssert(pn != nil && pn == nd.Parent, "C16/parent fresh")
			}
		}
		count++
	}
	verifAssert(count >= 5, "C16/fresh-node-count")
	verifCover("C16/fresh/end")
}

var c16Copies = []string{".b = .a", ".b = [.a[]]", ".b = (.a | .[0:])", ".b = (.a | map(.))", ".b = .a + []", ".b = (.a | reverse | reverse)"}
var c16CopyNames = []string{"assign", "collect", "slice", "map", "concat", "reverse-twice"}

// VerifC16CopyThenDelete: a multi-step history — copy a sequence into the document, delete an element from one
// of the two, then ask every element of BOTH where it is. Keys must stay the elements' own.
func VerifC16CopyThenDelete() {
	n := 3
	seq := vSeq()
	for i := 0; i < n; i++ {
		seq.Content = append(seq.Content, vInt(verifStrN("e"+verifItoa(int64(i)), 1, vDigits())))
	}
	doc := vDoc(vMap(vStr("a"), seq))
	c := verifChoice("copy", len(c16Copies))
	victim := verifChoice("deleteFrom", 2) // 0: from the original .a, 1: from the copy .b
	i := verifIntRange("i", 0, n-1)
	target := []string{".a", ".b"}[victim]
	e := vParse(c16Copies[c] + " | del(" + target + "[7770001])")
	vSubst(e, "7770001", "!!int", verifItoa(int64(i)))
	_, err := vEval(e, doc)
	label := "copy=" + c16CopyNames[c] + " delete-from=" + target
	verifAssert(err == nil, "C16/copy-delete-error "+label)
	if err != nil {
		return
	}
	for _, name := range []string{"a", "b"} {
		cont := c16One("."+name, doc)
		verifAssert(cont != nil && cont.Kind == SequenceNode, "C16/copy-delete-container "+label)
		if cont == nil || cont.Kind != SequenceNode {
			return
		}
		cPath := c16One("path", cont)
		for k, el := range cont.Content {
			kn := c16One("key", el)
			verifAssert(kn != nil && verifEqStr(kn.Value, verifItoa(int64(k))), "C16/key-is-position-after-copy-and-delete "+label+" in=."+name)
			pa := c16One("path", el)
			if pa != nil && cPath != nil && len(pa.Content) == len(cPath.Content)+1 {
				verifAssert(c16Follow(cont, pa, len(cPath.Content)) == el, "C16/path-leads-to-node-after-copy-and-delete "+label+" in=."+name)
			} else {
				verifFail("C16/path-shape-after-copy-and-delete " + label)
			}
		}
	}
	verifCover("C16/copydelete/end")
}

// VerifC16AfterRebuild: documents whose nodes were put in place by an operator rather than by the decoder — exploded
// aliases (of maps and sequences, nested), values assigned or merged in, entries rebuilt: every node `..` reaches
// has a path that leads to itself from the root, its key is the last path element and its parent is the node that
// holds it. (The parent pointer itself is not trusted: the holder is found by walking the tree.)
func VerifC16AfterRebuild() {
	k1, k2 := verifStrN("k1", 1, "ac"), verifStrN("k2", 1, "ac")
	verifAssume(!verifEqStr(k1, k2))
	build := func() *CandidateNode {
		inner := vMap(vStr(k2), vSeq(vInt("1"), vInt("2")))
		x := vMap(vStr(k1), inner, vStr("z"), vInt("3"))
		x.Anchor = "x"
		s := vSeq(vInt("4"), vMap(vStr(k1), vInt("5")))
		s.Anchor = "s"
		return vDoc(vMap(vStr("A"), x, vStr("B"), &yaml.Node{Kind: yaml.AliasNode, Value: "x", Alias: x}, vStr("S"), s,
			vStr("T"), vSeq(&yaml.Node{Kind: yaml.AliasNode, Value: "s", Alias: s}), vStr("M"), vMap(vS("!!merge", "<<"), &yaml.Node{Kind: yaml.AliasNode, Value: "x", Alias: x}, vStr("w"), vInt("6"))))
	}
	steps := []string{"explode(.)", "explode(.B) | explode(.T)", ".C = .A", ".C = .A * {\"n\": {\"m\": 1}}", ".C = (.S | map(.))", ".A |= with_entries(.)", ".C = (.A | to_entries | from_entries)",
		".C = (.M | explode(.))", ".B |= explode(.)", ".C = .A + {\"q\": [1]}", ".A.n.m = 1", "explode(.) | .D = .B"}
	// (collected and concatenated sequences - `[.A, .S]`, `.S + [7]` - keep stale element keys: the recorded C16 finding)
	si := verifChoice("step", len(steps))
	root := build()
	if _, err := vEval(vParse(steps[si]), root); err != nil {
		verifFail("C16/rebuild-step-failed step=" + steps[si])
	}
	label := "after=" + steps[si]
	res, err := vEval(vParse(".."), root)
	if err != nil {
		verifFail("C16/recursive-descent-failed " + label)
	}
	// holder of every node, by walking the tree
	holder := map[*CandidateNode]*CandidateNode{}
	var walk func(n *CandidateNode)
	walk = func(n *CandidateNode) {
		for _, c := range n.Content {
			if _, seen := holder[c]; !seen {
				holder[c] = n
				walk(c)
			}
		}
	}
	walk(root)
	count := 0
	for _, nd := range vNodes(res) {
		if nd == root {
			continue
		}
		if _, inTree := holder[nd]; !inTree {
			continue // reached through an alias: the node lives under its anchor, where `..` reaches it as well
		}
		pa := c16One("path", nd)
		verifAssert(pa != nil, "C16/path-missing "+label)
		if pa == nil {
			continue
		}
		verifAssert(c16Follow(root, pa, 0) == nd, "C16/path-leads-to-node "+label)
		if len(pa.Content) > 0 {
			kn := c16One("key", nd)
			verifAssert(kn != nil && verifConcreteBool(verifEqStr(kn.Value, pa.Content[len(pa.Content)-1].Value)), "C16/key-is-last-path-element "+label)
		}
		pn := c16One("parent", nd)
		verifAssert(pn == holder[nd], "C16/parent-is-holder "+label)
		count++
	}
	verifAssert(count >= 5, "C16/rebuild-node-count "+label)
	verifCover("C16/rebuild/end")
}

// c16CheckTree: every node `..` reaches below root has a path that leads to itself from the root, its key is the last
// path element and its parent is the node that holds it (the holder is found by walking the tree).
func c16CheckTree(root *CandidateNode, label string) int {
	res, err := vEval(vParse(".."), root)
	if err != nil {
		verifFail("C16/recursive-descent-failed " + label)
	}
	holder := map[*CandidateNode]*CandidateNode{}
	var walk func(n *CandidateNode)
	walk = func(n *CandidateNode) {
		for _, c := range n.Content {
			if _, seen := holder[c]; !seen {
				holder[c] = n
				walk(c)
			}
		}
	}
	walk(root)
	count := 0
	for _, nd := range vNodes(res) {
		if nd == root {
			continue
		}
		if _, inTree := holder[nd]; !inTree {
			continue
		}
		pa := c16One("path", nd)
		verifAssert(pa != nil, "C16/path-missing "+label)
		if pa == nil {
			continue
		}
		verifAssert(c16Follow(root, pa, 0) == nd, "C16/path-leads-to-node "+label)
		kn := c16One("key", nd)
		if len(pa.Content) > 0 {
			verifAssert(kn != nil && verifConcreteBool(verifEqStr(kn.Value, pa.Content[len(pa.Content)-1].Value)), "C16/key-is-last-path-element "+label)
		} else {
			verifAssert(false, "C16/path-of-a-nested-node-is-empty "+label)
		}
		pn := c16One("parent", nd)
		verifAssert(pn == holder[nd], "C16/parent-is-holder "+label)
		count++
	}
	return count
}

// VerifC16Decoded: documents as the decoders other than YAML's build them (each decoder sets keys and parents with
// code of its own): JSON through yq's UnmarshalJSON walk (reader stub of h_jsonstub.go) with every element slot drawn
// from {number, null, string, [], {}, a nested array with a null}, CSV and TSV objects, XML through the real
// tokenizer, and YAML for comparison.
func VerifC16Decoded() {
	slot := func(name string) string {
		return []string{"1", "null", "\"s\"", "[]", "{}", "[null,2]", "{\"n\":null}"}[verifChoice(name, 7)]
	}
	var root *CandidateNode
	var err error
	label := ""
	switch verifChoice("format", 5) {
	case 0:
		label = "json"
		var text string
		switch verifChoice("shape", 3) {
		case 0:
			text = "[" + slot("e0") + "," + slot("e1") + "," + slot("e2") + "]"
		case 1:
			text = "{\"a\":[" + slot("e0") + "," + slot("e1") + "],\"b\":" + slot("e2") + "}"
		default:
			text = "{\"a\":{\"b\":[[" + slot("e0") + "],{\"c\":" + slot("e1") + "}]}}"
		}
		verifObserve("text", text)
		dec := NewJSONDecoder()
		if dec.Init(strings.NewReader(text)) != nil {
			verifFail("C16/decoder-init")
		}
		root, err = dec.Decode()
	case 1:
		label = "csv"
		dec := NewCSVObjectDecoder(ConfiguredCsvPreferences)
		if dec.Init(strings.NewReader("a,b\n1,2\n3,\n")) != nil {
			verifFail("C16/decoder-init")
		}
		root, err = dec.Decode()
	case 2:
		label = "tsv"
		dec := NewCSVObjectDecoder(ConfiguredTsvPreferences)
		if dec.Init(strings.NewReader("a\tb\n1\t2\n")) != nil {
			verifFail("C16/decoder-init")
		}
		root, err = dec.Decode()
	case 3:
		label = "xml"
		verifXMLReal = true
		dec := NewXMLDecoder(NewDefaultXmlPreferences())
		if dec.Init(strings.NewReader("<r><a>1</a><a>2</a><b id=\"x\">t<c/></b><d></d></r>")) != nil {
			verifFail("C16/decoder-init")
		}
		root, err = dec.Decode()
	default:
		label = "yaml"
		dec := NewYamlDecoder(NewDefaultYamlPreferences())
		if dec.Init(strings.NewReader("a: [1, ~, {b: }]\nc:\n- - x\n")) != nil {
			verifFail("C16/decoder-init")
		}
		root, err = dec.Decode()
	}
	if err != nil || root == nil {
		verifFail("C16/decode-failed decoded-by=" + label)
		return
	}
	n := c16CheckTree(root, "decoded-by="+label)
	verifAssert(n >= 2, "C16/decoded-node-count decoded-by="+label)
	verifCover("C16/decoded/end")
}
