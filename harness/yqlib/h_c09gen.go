package yqlib

import "strings"

// C09 — generated programs. The grammar of h_c01gen.go produces every program twice: fully parenthesised (t)
// and with only the parentheses the precedence table demands (m: a tighter-binding child needs none; a chain of
// one associative operator needs none; everything else keeps them). Both texts, and m re-laid-out with extra
// blanks, newlines or `#` comments at every token boundary, go through the real lexer rules, token post-processing,
// shunting-yard and tree builder, and are evaluated by the real operators on the same symbolic document: the
// results must be the same list (or both must fail).

// c09LayoutNames: ordered so that a tier that takes only the first k layouts gets the most different ones.
var c09LayoutNames = []string{"minimal-parentheses", "tabs", "carriage-return-line-feed", "comments", "extra-blanks", "newlines", "blank-tab-newline"}

func c09Layout(text string, layout int) string {
	switch c09LayoutNames[layout] {
	case "extra-blanks":
		return strings.ReplaceAll(text, " ", "   ")
	case "newlines":
		return strings.ReplaceAll(text, " ", "\n")
	case "comments":
		return strings.ReplaceAll(text, " ", " # note\n ")
	case "tabs":
		return strings.ReplaceAll(text, " ", "\t")
	case "carriage-return-line-feed":
		return strings.ReplaceAll(text, " ", "\r\n") // an expression file written on Windows
	case "blank-tab-newline":
		return strings.ReplaceAll(text, " ", " \t\n")
	}
	return text
}

func c09GenDoc(xs [4]string) *CandidateNode {
	return vDoc(vMap(vStr("a"), vSeq(vInt(xs[0]), vInt(xs[1])), vStr("b"), vInt(xs[2]), vStr("s"), vStr("k"), vStr("m"), vMap(vStr("k"), vInt(xs[3])), vStr("e"), vSeq()))
}

func c09EvalText(text string, xs [4]string) (string, bool, bool) {
	InitExpressionParser()
	node, err := ExpressionParser.ParseExpression(text)
	if err != nil {
		return "", false, false
	}
	res, err := vEval(node, c09GenDoc(xs))
	if err != nil {
		return "", true, false
	}
	return vDumpList(res), true, true
}

func VerifC09Generated() {
	c01GenCtr, c01EnvDepth = 0, 0
	c01GenCreates = false
	c01GenBudget = verifParam("size", 1)
	g := c01GenT()
	layout := verifChoice("layout", verifParam("layouts", 7))
	if g.t == g.m && layout == 0 {
		return // nothing to compare: the program has no removable parentheses and the layout is unchanged
	}
	text := c09Layout(g.m, layout)
	verifObserve("explicit", g.t)
	verifObserve("minimal", text)
	xs := [4]string{verifStrN("x0", 1, "03"), verifStrN("x1", 1, "03"), verifStrN("b", 1, "03"), verifStrN("mk", 1, "03")}
	want, parsedT, okT := c09EvalText(g.t, xs)
	got, parsedM, okM := c09EvalText(text, xs)
	label := c09LayoutNames[layout]
	verifAssert(parsedT, "C09/explicitly-parenthesised-form-rejected")
	verifAssert(parsedM == parsedT, "C09/generated-form-rejected "+label)
	if !parsedT || !parsedM {
		return
	}
	verifAssert(okT == okM, "C09/generated-forms-differ-in-failing "+label)
	if okT && okM {
		verifObserve("want", want)
		verifObserve("got", got)
		verifAssert(verifEqStr(got, want), "C09/generated-form-means-something-else "+label)
	}
	verifCover("C09/gen/end")
}
