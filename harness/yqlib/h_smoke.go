package yqlib

import "container/list"

// Smoke harnesses used to bring the engine up (not tied to a property).

func VerifSmokeConcrete() {
	InitExpressionParser()
	node, err := ExpressionParser.ParseExpression(".a | length")
	verifAssert(err == nil, "smoke/parse")
	doc := &CandidateNode{Kind: MappingNode, Tag: "!!map"}
	doc.AddKeyValueChild(&CandidateNode{Kind: ScalarNode, Tag: "!!str", Value: "a"},
		&CandidateNode{Kind: SequenceNode, Tag: "!!seq", Content: []*CandidateNode{
			{Kind: ScalarNode, Tag: "!!int", Value: "3"}, {Kind: ScalarNode, Tag: "!!int", Value: "1"}}})
	l := list.New()
	l.PushBack(doc)
	ctx, err := NewDataTreeNavigator().GetMatchingNodes(Context{MatchingNodes: l}, node)
	verifAssert(err == nil, "smoke/eval")
	verifAssert(ctx.MatchingNodes.Len() == 1, "smoke/one-result")
	res := ctx.MatchingNodes.Front().Value.(*CandidateNode)
	verifObserve("result", res.Value)
	verifAssert(res.Value == "2", "smoke/value")
	verifCover("smoke/end")
}

func VerifSmokeSym() {
	a := verifInt64("a")
	b := verifInt64("b")
	lhs := &CandidateNode{Kind: ScalarNode, Tag: "!!int", Value: verifItoa(a)}
	rhs := &CandidateNode{Kind: ScalarNode, Tag: "!!int", Value: verifItoa(b)}
	arr := sortableNodeArray([]sortableNode{})
	c1 := arr.compare(lhs, rhs, "2006-01-02T15:04:05Z07:00")
	verifObserve("cmp", c1)
	verifAssert((c1 < 0) == (a < b), "smoke/compare-agrees-with-int-order")
	verifCover("smoke/end")
}

func VerifSmokeYaml() {
	doc := vYaml("# lead\na: [3, 1, 2] # lc\nb: &x {c: hi}\nd: *x\n")
	res, err := vEval(vParse(".a | sort"), doc)
	verifAssert(err == nil && res.Len() == 1, "smoke/yaml-eval")
	out, err2 := vToYaml(res.Front().Value.(*CandidateNode))
	verifAssert(err2 == nil, "smoke/yaml-encode")
	verifObserve("out", out)
	whole, _ := vToYaml(doc)
	verifObserve("whole", whole)
	verifCover("smoke/end")
}

func VerifSmokeDeepMatch() {
	r1 := deepMatch("b", "*a")
	r2 := deepMatch("ba", "*a")
	r3 := deepMatch("a", "*a")
	r4 := deepMatch("", "*a")
	verifObserve("r", []bool{r1, r2, r3, r4})
	verifAssert(!r1 && r2 && r3 && !r4, "smoke/deepmatch")
	verifCover("smoke/deepmatch/end")
}
