package yqlib

import "strings"

// Harnesses that run the REAL encoding/xml tokenizer (interpreted from its SSA by the engine, symbolic input bytes)
// under yq's decodeXML / convertToYamlNode. decoder_xml.go is loaded with `xml.NewDecoder(` redirected to
// verifXMLNewDecoder (h_c11.go), which hands out the library's decoder when verifXMLReal is set.

func xmlRealDecode(text string, rawToken bool) (*CandidateNode, error) {
	verifXMLReal = true
	prefs := NewDefaultXmlPreferences()
	prefs.UseRawToken = rawToken
	dec := NewXMLDecoder(prefs)
	err := dec.Init(strings.NewReader(text))
	var node *CandidateNode
	if err == nil {
		node, err = dec.Decode()
	}
	verifXMLReal = false
	return node, err
}

// VerifC11XMLBytes: every byte string up to the length bound over an XML alphabet — free text, or a short free
// fragment at each interesting place of a small document — goes through the real tokenizer and yq's decoder glue:
// a result or an error, never a crash or a hang; with the default preferences (RawToken) and with checked nesting.
func VerifC11XMLBytes() {
	alphabet := "<<>>//aa==\"\"  !!--??&&;;"
	var text string
	mode := verifChoice("where", 6)
	n := verifParam("xmllen", 4)
	frag := verifParam("xmlfrag", 2)
	switch mode {
	case 0:
		text = verifStr("text", n, alphabet)
	case 1:
		text = "<r>" + verifStr("text", frag, alphabet) + "</r>"
	case 2:
		text = "<r " + verifStr("text", frag, alphabet) + ">t</r>"
	case 3:
		text = "<r><a>1</a>" + verifStr("text", frag, alphabet) + "</r>"
	case 4:
		text = verifStr("text", frag, alphabet) + "<r/>" + verifStr("tail", 1, alphabet)
	default:
		text = "<?xml version=\"1.0\"?><!DOCTYPE r><r a=\"1\">" + verifStr("text", frag, alphabet) + "</r><!-- c -->"
	}
	rawToken := verifChoice("rawToken", 2) == 1
	node, err := xmlRealDecode(text, rawToken)
	if err != nil {
		verifCover("C11/xmlbytes/error")
	} else {
		// whatever was decoded can also be printed
		_ = vDump(node)
		verifCover("C11/xmlbytes/result")
	}
	verifCover("C11/xmlbytes/end")
}

// xmlRefText: an independent reader of XML character data (XML 1.0 §2.4, §4.6): `&lt;` `&gt;` `&amp;` `&quot;` `&apos;`
// stand for < > & " '; a bare `<` ends the data (ok=false here: the harness texts hold no markup), a `&` that starts
// none of the five references is not well formed (ok=false).
func xmlRefText(t string) (val string, ok bool) {
	out := ""
	for i := 0; i < len(t); {
		c := t[i]
		if verifConcreteBool(c == '<') {
			return "", false
		}
		if verifConcreteBool(c != '&') {
			out += t[i : i+1]
			i++
			continue
		}
		matched := false
		for _, ent := range [][2]string{{"&lt;", "<"}, {"&gt;", ">"}, {"&amp;", "&"}, {"&quot;", "\""}, {"&apos;", "'"}} {
			if i+len(ent[0]) <= len(t) && verifConcreteBool(verifEqStr(t[i:i+len(ent[0])], ent[0])) {
				out += ent[1]
				i += len(ent[0])
				matched = true
				break
			}
		}
		if !matched {
			return "", false
		}
	}
	return out, true
}

func xmlTrim(s string) string {
	for len(s) > 0 && verifConcreteBool(s[0] == ' ' || s[0] == '\n' || s[0] == '\t') {
		s = s[1:]
	}
	for len(s) > 0 && verifConcreteBool(s[len(s)-1] == ' ' || s[len(s)-1] == '\n' || s[len(s)-1] == '\t') {
		s = s[:len(s)-1]
	}
	return s
}

// VerifC14XMLDecodeText: `<r>TEXT</r>` and `<r a="TEXT"/>` with TEXT an arbitrary string over letters, blanks and the
// characters of the predefined entity references, through the real tokenizer: where TEXT is well formed, yq's value
// is what the text denotes (references resolved; content trimmed as yq documents, attribute values as written).
func VerifC14XMLDecodeText() {
	t := verifStr("t", verifParam("textlen", 4), "aa  &&;;llttgg")
	val, wellFormed := xmlRefText(t)
	inAttr := verifChoice("inAttribute", 2) == 1
	var text, want string
	if inAttr {
		text = "<r a=\"" + t + "\"/>"
		want = "{<!!str r>: {<!!str +@a>: <!!str " + val + ">}}"
	} else {
		text = "<r>" + t + "</r>"
		tv := xmlTrim(val)
		want = "{<!!str r>: <!!str " + tv + ">}"
		if tv == "" {
			want = "{<!!str r>: <!!null >}"
		}
	}
	node, err := xmlRealDecode(text, verifChoice("rawToken", 2) == 1)
	label := "attribute"
	if !inAttr {
		label = "content"
	}
	if !wellFormed {
		verifCover("C14/xmltext/ill-formed")
		return // what a lenient reader makes of ill-formed references is not claimed
	}
	verifAssert(err == nil && node != nil, "C14/xml-well-formed-text-rejected "+label)
	if err != nil || node == nil {
		return
	}
	got := vDump(node)
	verifObserve("got", got)
	verifObserve("want", want)
	verifAssert(verifEqStr(got, want), "C14/xml-decoded-value-differs-from-what-the-text-denotes "+label)
	if len(val) < len(t) {
		verifCover("C14/xmltext/with-a-reference")
	}
	verifCover("C14/xmltext/end")
}

var xmlRealDocs = []string{"<r><a>1</a><a>2</a><b k=\"v\">t</b></r>", "<?xml version=\"1.0\"?>\n<r a=\"1\"><!-- c --><e/></r>", "<r>&lt;x&gt;</r>", "<a><b><c>d</c></b></a>"}

// VerifC19XMLPrefixes: a complete document decodes; every proper prefix of it that ends inside an element is an
// error (through the real tokenizer), not a shorter document reported as success.
func VerifC19XMLPrefixes() {
	doc := xmlRealDocs[verifChoice("doc", len(xmlRealDocs))]
	rawToken := verifChoice("rawToken", 2) == 1
	cut := verifChoice("cut", 41)
	if cut > len(doc) {
		return
	}
	// the root element opens at the first '<' that starts a name; before that nothing has been opened
	rootOpen := strings.Index(doc, "<r")
	if rootOpen < 0 {
		rootOpen = strings.Index(doc, "<a")
	}
	_, err := xmlRealDecode(doc[:cut], rawToken)
	if cut == len(doc) {
		verifAssert(err == nil, "C19/xml-complete-document-rejected")
		verifCover("C19/xmlprefix/complete")
	} else if cut > rootOpen+1 {
		verifAssert(err != nil, "C19/xml-input-that-ends-inside-an-element-reported-as-success")
		verifCover("C19/xmlprefix/truncated")
	}
	verifCover("C19/xmlprefix/end")
}
