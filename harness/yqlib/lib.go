package yqlib

// Shared harness library: executed by the symbolic engine AND compiled natively for replay.
// Only plain Go over the real yqlib types; no engine-specific constructs besides the verif* primitives.

import (
	"strings"
	"container/list"

	yaml "gopkg.in/yaml.v3"
)

const vRFC3339 = "2006-01-02T15:04:05Z07:00"

// ---- yaml.Node builders (documents are then built by the real UnmarshalYAML) ----

func vS(tag, val string) *yaml.Node { return &yaml.Node{Kind: yaml.ScalarNode, Tag: tag, Value: val} }
func vInt(val string) *yaml.Node    { return vS("!!int", val) }
func vStr(val string) *yaml.Node    { return vS("!!str", val) }
func vBool(val string) *yaml.Node   { return vS("!!bool", val) }
func vNull() *yaml.Node             { return vS("!!null", "null") }
func vSeq(items ...*yaml.Node) *yaml.Node {
	return &yaml.Node{Kind: yaml.SequenceNode, Tag: "!!seq", Content: items}
}
func vMap(kv ...*yaml.Node) *yaml.Node {
	return &yaml.Node{Kind: yaml.MappingNode, Tag: "!!map", Content: kv}
}

// vDoc converts a yaml.Node tree the way yamlDecoder.Decode + streamEvaluator.Evaluate do.
func vDoc(root *yaml.Node) *CandidateNode {
	return vDocAt(root, 0, 0, "f.yml")
}

func vDocAt(root *yaml.Node, docIndex uint, fileIndex int, filename string) *CandidateNode {
	n := CandidateNode{document: docIndex}
	if err := n.UnmarshalYAML(root, make(map[string]*CandidateNode)); err != nil {
		verifFail("lib/unmarshal-yaml-error")
	}
	n.document = docIndex
	n.filename = filename
	n.fileIndex = fileIndex
	return &n
}

// ---- expressions ----

func vParse(expr string) *ExpressionNode {
	InitExpressionParser()
	node, err := ExpressionParser.ParseExpression(expr)
	if err != nil {
		verifFail("lib/parse-error")
	}
	return node
}

// vSubst replaces, in a parsed expression tree, every literal / path element spelled `placeholder`
// by newValue (with tag newTag for literals; "" keeps the tag).
func vSubst(n *ExpressionNode, placeholder string, newTag string, newValue string) int {
	if n == nil {
		return 0
	}
	c := 0
	op := n.Operation
	if op != nil {
		if op.CandidateNode != nil && op.CandidateNode.Value == placeholder {
			op.CandidateNode.Value = newValue
			if newTag != "" {
				op.CandidateNode.Tag = newTag
			}
			op.StringValue = newValue
			c++
		} else if op.StringValue == placeholder {
			op.StringValue = newValue
			if _, isStr := op.Value.(string); isStr {
				op.Value = newValue
			}
			c++
		}
	}
	return c + vSubst(n.LHS, placeholder, newTag, newValue) + vSubst(n.RHS, placeholder, newTag, newValue)
}

// vEval evaluates a parsed expression against one root node (a fresh Context, like the stream evaluator).
func vEval(exp *ExpressionNode, doc *CandidateNode) (*list.List, error) {
	l := list.New()
	l.PushBack(doc)
	ctx, err := NewDataTreeNavigator().GetMatchingNodes(Context{MatchingNodes: l}, exp)
	if err != nil {
		return nil, err
	}
	return ctx.MatchingNodes, nil
}

func vEvalList(exp *ExpressionNode, docs ...*CandidateNode) (*list.List, error) {
	l := list.New()
	for _, d := range docs {
		l.PushBack(d)
	}
	ctx, err := NewDataTreeNavigator().GetMatchingNodes(Context{MatchingNodes: l}, exp)
	if err != nil {
		return nil, err
	}
	return ctx.MatchingNodes, nil
}

func vNodes(l *list.List) []*CandidateNode {
	var out []*CandidateNode
	if l == nil {
		return out
	}
	for el := l.Front(); el != nil; el = el.Next() {
		out = append(out, el.Value.(*CandidateNode))
	}
	return out
}

// ---- canonical dump of a node tree (data model only: kind, tag, value, order) ----

func vDump(n *CandidateNode) string {
	if n == nil {
		return "<nil>"
	}
	switch n.Kind {
	case ScalarNode:
		return "<" + n.Tag + " " + n.Value + ">"
	case AliasNode:
		return "*" + vDump(n.Alias)
	case SequenceNode:
		s := "["
		for i, c := range n.Content {
			if i > 0 {
				s += ", "
			}
			s += vDump(c)
		}
		return s + "]"
	case MappingNode:
		s := "{"
		for i := 0; i+1 < len(n.Content); i += 2 {
			if i > 0 {
				s += ", "
			}
			s += vDump(n.Content[i]) + ": " + vDump(n.Content[i+1])
		}
		return s + "}"
	}
	return "<kind?>"
}

func vDumpList(l *list.List) string {
	s := ""
	for i, n := range vNodes(l) {
		if i > 0 {
			s += " | "
		}
		s += vDump(n)
	}
	return s
}

// vDumpFull additionally includes presentation attributes.
func vDumpFull(n *CandidateNode) string {
	if n == nil {
		return "<nil>"
	}
	attrs := "(s=" + verifItoa(int64(n.Style)) + " a=" + n.Anchor + " h=" + n.HeadComment + " l=" + n.LineComment + " f=" + n.FootComment + ")"
	switch n.Kind {
	case ScalarNode:
		return "<" + n.Tag + " " + n.Value + ">" + attrs
	case AliasNode:
		return "*" + attrs
	case SequenceNode:
		s := "[" + n.Tag + attrs
		for _, c := range n.Content {
			s += ", " + vDumpFull(c)
		}
		return s + "]"
	case MappingNode:
		s := "{" + n.Tag + attrs
		for i := 0; i+1 < len(n.Content); i += 2 {
			s += ", " + vDumpFull(n.Content[i]) + ": " + vDumpFull(n.Content[i+1])
		}
		return s + "}"
	}
	return "<kind?>"
}

// vAllNodes lists every node reachable through Content (keys and values), pre-order.
func vAllNodes(n *CandidateNode) []*CandidateNode {
	out := []*CandidateNode{n}
	for _, c := range n.Content {
		out = append(out, vAllNodes(c)...)
	}
	return out
}

func vErrStr(err error) string {
	if err == nil {
		return "<nil>"
	}
	return "error"
}

func vBoolStr(b bool) string {
	if b {
		return "true"
	}
	return "false"
}

// vYaml decodes concrete YAML text with the real yamlDecoder (yaml.v3 runs natively under the engine).
func vYaml(text string) *CandidateNode {
	dec := NewYamlDecoder(NewDefaultYamlPreferences())
	if err := dec.Init(strings.NewReader(text)); err != nil {
		verifFail("lib/yaml-init")
	}
	n, err := dec.Decode()
	if err != nil {
		verifFail("lib/yaml-decode")
	}
	n.filename = "f.yml"
	return n
}

// vToYaml prints a node with the real yamlEncoder.
func vToYaml(n *CandidateNode) (string, error) {
	var sb strings.Builder
	prefs := NewDefaultYamlPreferences()
	err := NewYamlEncoder(prefs).Encode(vSBWriter{&sb}, n)
	return sb.String(), err
}

type vSBWriter struct{ sb *strings.Builder }

func (w vSBWriter) Write(p []byte) (int, error) { return w.sb.Write(p) }

// vDigits / vKeyRange: the byte ranges symbolic digits and keys are drawn from. The thorough tier widens them
// (parameter wide=1): all ten digits and keys a..e.
func vDigits() string {
	if verifParam("wide", 0) == 1 {
		return "09"
	}
	return "03"
}
