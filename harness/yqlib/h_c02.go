package yqlib

import (
	"strings"

	yaml "gopkg.in/yaml.v3"
)

// C02 — assignment obeys the update laws (put-get, get-put, put-put, frame).
//
// Document: {KA: {KB: x0}, KC: [x1, x2], KS: x3} with fixed keys a/c/s at the top and symbolic key KB.
// Paths p and q are drawn from templates whose key and index segments are solver variables, so "exists",
// "must be created", "equals a sibling", "negative index", "index beyond the end" are all decided in one run.

type c02Path struct {
	text  string   // expression text with placeholders
	name  string   // template name
	keys  []string // symbolic key segments (placeholders KEY1, KEY2)
	idx   int      // symbolic index (placeholder 7770001)
	hasIx bool
}

func c02Doc(kb, x0, x1, x2, x3 string) *CandidateNode {
	root := vMap(vStr("a"), vMap(vStr(kb), vInt(x0)), vStr("c"), vSeq(vInt(x1), vInt(x2)), vStr("s"), vInt(x3))
	return vDoc(root)
}

// c02MakePath builds a path whose existing prefix is type compatible with the document above.
func c02MakePath(prefix string, tmpl int) c02Path {
	p := c02Path{}
	switch tmpl {
	case 0: // top-level key: a, c, s or a new key
		k := verifStrN(prefix+"_k1", 1, "ad")
		p.text, p.name, p.keys = ".KEY1", "key", []string{k}
	case 1: // key below a map (a) or below a key to be created (b, d)
		k1 := verifStrN(prefix+"_k1", 1, "ad")
		verifAssume(verifAnd(!verifEqStr(k1, "c"), !verifEqStr(k1, "s")))
		k2 := verifStrN(prefix+"_k2", 1, "ad")
		p.text, p.name, p.keys = ".KEY1.KEY2", "key.key", []string{k1, k2}
	case 2: // index below the sequence (c) or below a key to be created
		k1 := verifStrN(prefix+"_k1", 1, "ad")
		verifAssume(verifAnd(!verifEqStr(k1, "a"), !verifEqStr(k1, "s")))
		p.idx = verifIntRange(prefix+"_i", -3, 4)
		p.hasIx = true
		p.text, p.name, p.keys = ".KEY1[7770001]", "key[index]", []string{k1}
	case 3: // a key given as a string, which may be the empty string: .[""] is the entry whose key is ""
		k := verifStr(prefix+"_k1", 1, "ad")
		p.text, p.name, p.keys = ".[\"KEY1\"]", "[string-key]", []string{k}
	case 4: // the same below the map a
		k2 := verifStr(prefix+"_k2", 1, "ad")
		p.text, p.name, p.keys = ".a[\"KEY2\"]", "a[string-key]", []string{"a", k2}
	}
	return p
}

func c02Parse(text string, p c02Path, ph string) *ExpressionNode {
	e := vParse(text)
	c02Subst(e, p, ph)
	return e
}

func c02Subst(e *ExpressionNode, p c02Path, ph string) {
	for i, k := range p.keys {
		vSubst(e, ph+"KEY"+verifItoa(int64(i+1)), "", k)
	}
	if p.hasIx {
		if ph == "" {
			vSubst(e, "7770001", "!!int", verifItoa(int64(p.idx)))
		} else {
			vSubst(e, "7770002", "!!int", verifItoa(int64(p.idx)))
		}
	}
}

// c02Related: q is a prefix of p, an extension of p, or p itself (segment-wise, negative indices excluded by the caller).
func c02Related(p, q c02Path) bool {
	// first segments are always keys
	r := verifEqStr(p.keys[0], q.keys[0])
	np, nq := len(p.keys), len(q.keys)
	if p.hasIx {
		np++
	}
	if q.hasIx {
		nq++
	}
	if np == 1 || nq == 1 {
		return r // one of them is a single segment: related iff the first segments agree
	}
	// both have two segments
	if p.hasIx != q.hasIx {
		// key vs index as second segment: compatible prefixes differ in container kind, never the same node
		// (k1 must be a map for one and a sequence for the other); treat as related only if first keys agree
		return r
	}
	if p.hasIx {
		return verifAnd(r, p.idx == q.idx)
	}
	return verifAnd(r, verifEqStr(p.keys[1], q.keys[1]))
}

func c02Value(kind int, v string) *yaml.Node {
	switch kind {
	case 0:
		return vInt(v)
	case 1:
		return vMap(vStr("z"), vInt(v))
	default:
		return vSeq(vInt(v), vNull())
	}
}

var c02ValueText = []string{"7770009", "{\"z\": 7770009}", "[7770009, null]"}
var c02ValueNames = []string{"scalar", "map", "seq"}

func c02ReadDump(exp *ExpressionNode, doc *CandidateNode) (string, bool) {
	res, err := c03EvalReadOnly(exp, doc)
	if err != nil {
		return "", false
	}
	if res.Len() == 0 {
		// a path that addresses nothing reads as null (yq prints nothing or null for it; the data model value is null)
		return "<!!null null>", true
	}
	return vDumpList(res), true
}

// VerifC02PutGetFrame: after `p = v` reading p yields v, and every unrelated path q reads as before.
func VerifC02PutGetFrame() {
	kb := verifStr("kb", 1, "ad")
	x0, x1, x2, x3 := verifStrN("x0", 1, vDigits()), verifStrN("x1", 1, vDigits()), verifStrN("x2", 1, vDigits()), verifStrN("x3", 1, vDigits())
	pt := verifChoice("ptmpl", 5)
	p := c02MakePath("p", pt)
	vk := verifChoice("vkind", 3)
	v := verifStrN("v", 1, "49")
	label := "p=" + p.name + " v=" + c02ValueNames[vk]

	doc := c02Doc(kb, x0, x1, x2, x3)
	twin := c02Doc(kb, x0, x1, x2, x3)

	asg := vParse(p.text + " = " + c02ValueText[vk])
	c02Subst(asg, p, "")
	vSubst(asg, "7770009", "!!int", v)
	res, err := vEval(asg, doc)
	if err != nil {
		// only an index below -len may be refused
		verifCover("C02/putget/error")
		verifAssert(verifAnd(p.hasIx, p.idx < 0), "C02/assign-error "+label)
		return
	}
	verifAssert(res.Len() == 1 && res.Front().Value.(*CandidateNode) == doc, "C02/assign-returns-document "+label)
	// put-get
	got, ok := c02ReadDump(c02Parse(p.text, p, ""), doc)
	want := vDump(vDoc(c02Value(vk, v)))
	verifObserve("got", got)
	verifAssert(ok && verifEqStr(got, want), "C02/put-get "+label)
	// frame: an unrelated path reads the same before and after
	qt := verifChoice("qtmpl", 5)
	q := c02MakePath("q", qt)
	if q.hasIx {
		verifAssume(q.idx >= 0)
	}
	if p.hasIx {
		verifAssume(p.idx >= 0) // negative indices alias non-negative ones; the frame is stated for distinct paths
	}
	verifAssume(!c02Related(p, q))
	before, okB := c02ReadDump(c02Parse(q.text, q, ""), twin)
	after, okA := c02ReadDump(c02Parse(q.text, q, ""), doc)
	verifObserve("before", before)
	verifObserve("after", after)
	verifAssert(okA == okB && verifEqStr(before, after), "C02/frame "+label+" q="+q.name)
	verifCover("C02/putget/end")
}

// VerifC02PutPutGetPut: `p = v1 | p = v2` equals `p = v2`; `p = p` changes nothing when p has one match.
func VerifC02PutPutGetPut() {
	kb := verifStr("kb", 1, "ad")
	x0, x1, x2, x3 := verifStrN("x0", 1, vDigits()), verifStrN("x1", 1, vDigits()), verifStrN("x2", 1, vDigits()), verifStrN("x3", 1, vDigits())
	pt := verifChoice("ptmpl", 5)
	p := c02MakePath("p", pt)
	vk1 := verifChoice("vkind1", 3)
	vk2 := verifChoice("vkind2", 3)
	v1 := verifStrN("v1", 1, "49")
	v2 := verifStrN("v2", 1, "49")
	label := "p=" + p.name + " v1=" + c02ValueNames[vk1] + " v2=" + c02ValueNames[vk2]
	d1 := c02Doc(kb, x0, x1, x2, x3)
	d2 := c02Doc(kb, x0, x1, x2, x3)
	d3 := c02Doc(kb, x0, x1, x2, x3)
	plain := c02Doc(kb, x0, x1, x2, x3)

	e12 := vParse("(" + p.text + " = " + c02ValueText[vk1] + ") | (" + p.text + " = " + c02ValueText2(vk2) + ")")
	c02Subst(e12, p, "")
	vSubst(e12, "7770009", "!!int", v1)
	vSubst(e12, "7770008", "!!int", v2)
	e2 := vParse(p.text + " = " + c02ValueText2(vk2))
	c02Subst(e2, p, "")
	vSubst(e2, "7770008", "!!int", v2)
	_, err12 := vEval(e12, d1)
	_, err2 := vEval(e2, d2)
	verifAssert((err12 == nil) == (err2 == nil), "C02/put-put-error-agreement "+label)
	if err12 == nil && err2 == nil {
		verifObserve("putput", vDump(d1))
		verifAssert(verifEqStr(vDump(d1), vDump(d2)), "C02/put-put "+label)
	}
	// get-put: only where p addresses exactly one existing node
	rd, errR := c03EvalReadOnly(c02Parse(p.text, p, ""), plain)
	if errR == nil && rd.Len() == 1 && rd.Front().Value.(*CandidateNode).Parent != nil && c02Attached(plain, rd.Front().Value.(*CandidateNode)) {
		gp := vParse(p.text + " = " + p.text)
		c02Subst(gp, p, "")
		before := vDump(d3)
		_, errG := vEval(gp, d3)
		verifAssert(errG == nil, "C02/get-put-error "+label)
		if errG == nil {
			verifAssert(verifEqStr(vDump(d3), before), "C02/get-put "+label)
		}
		verifCover("C02/getput/checked")
	}
	verifCover("C02/putput/end")
}

func c02ValueText2(kind int) string {
	return []string{"7770008", "{\"z\": 7770008}", "[7770008, null]"}[kind]
}

// c02Attached: n is really part of root's tree (a detached null answered for an out-of-range read is not).
func c02Attached(root, n *CandidateNode) bool {
	_, ok := c03FindPos(root, n, nil)
	return ok
}

// VerifC02Update: `p |= f` gives each match the first result of f applied to it (matches visited back to
// front); `p op= e` gives each match m the value m op e.
func VerifC02Update() {
	x1, x2 := verifStrN("x1", 1, vDigits()), verifStrN("x2", 1, vDigits())
	n1, _ := parseInt64ForHarness(x1)
	n2, _ := parseInt64ForHarness(x2)
	k := verifStrN("k", 1, "05")
	kn, _ := parseInt64ForHarness(k)
	form := verifChoice("form", 6)
	forms := []string{".c[] |= (. + 7770001, 9)", ".c[] += 7770001", ".c[] -= 7770001", ".c[] *= 7770001", ".c[0] |= . + 7770001", ".c[] |= ([.] | length)"}
	names := []string{"update-first-result", "add-assign", "subtract-assign", "multiply-assign", "update-one", "update-independent-of-order"}
	doc := c02Doc("b", "0", x1, x2, "0")
	e := vParse(forms[form])
	vSubst(e, "7770001", "!!int", k)
	_, err := vEval(e, doc)
	label := names[form]
	verifAssert(err == nil, "C02/update-error "+label)
	if err != nil {
		return
	}
	c := doc.Content[3]
	verifAssert(c.Kind == SequenceNode && len(c.Content) == 2, "C02/update-shape "+label)
	if c.Kind != SequenceNode || len(c.Content) != 2 {
		return
	}
	var w1, w2 int64
	switch form {
	case 0, 1:
		w1, w2 = n1+kn, n2+kn
	case 2:
		w1, w2 = n1-kn, n2-kn
	case 3:
		w1, w2 = n1*kn, n2*kn
	case 4:
		w1, w2 = n1+kn, n2
	case 5:
		w1, w2 = 1, 1
	}
	g1, e1 := parseInt64ForHarness(c.Content[0].Value)
	g2, e2 := parseInt64ForHarness(c.Content[1].Value)
	verifObserve("g1", g1)
	verifObserve("g2", g2)
	verifAssert(verifAnd(e1, e2), "C02/update-result-not-integer "+label)
	verifAssert(verifAnd(g1 == w1, g2 == w2), "C02/update-value "+label)
	// frame: the rest of the document is untouched
	verifAssert(verifEqStr(vDump(doc.Content[1]), "{<!!str b>: <!!int 0>}") && verifEqStr(vDump(doc.Content[5]), "<!!int 0>"), "C02/update-frame "+label)
	verifCover("C02/update/end")
}

// parseInt64ForHarness: the real parser, returning ok instead of an error value.
func parseInt64ForHarness(s string) (int64, bool) {
	_, v, err := parseInt64(s)
	return v, err == nil
}

// VerifC02OverwriteCreated: put-put / put-get on a path whose intermediate node was auto-created by an earlier
// assignment in the same expression: `.N.M = v | .N = STR` must leave .N reading as the string STR, typed !!str,
// also when STR looks like another type.
func VerifC02OverwriteCreated() {
	n := verifStrN("n", 1, "ad") // existing (a) or new key
	verifAssume(!verifEqStr(n, "c") && !verifEqStr(n, "s"))
	kind := verifChoice("second", 2) // intermediate created as a map (.N.M) or as a sequence (.N[1])
	str := []string{"5", "true", "null", "x", "1.5", "~"}[verifChoice("str", 6)]
	text := "(.KEY1.m = 1) | (.KEY1 = \"PLACEHOLDER\")"
	if kind == 1 {
		text = "(.KEY1[1] = 1) | (.KEY1 = \"PLACEHOLDER\")"
		verifAssume(!verifEqStr(n, "a"))
	}
	doc := c02Doc("b", "0", "1", "2", "3")
	e := vParse(text)
	vSubst(e, "KEY1", "", n)
	vSubst(e, "PLACEHOLDER", "", str)
	_, err := vEval(e, doc)
	verifAssert(err == nil, "C02/overwrite-created-error")
	if err != nil {
		return
	}
	rd := vParse(".KEY1")
	vSubst(rd, "KEY1", "", n)
	got, ok := c02ReadDump(rd, doc)
	verifObserve("got", got)
	verifAssert(ok && verifEqStr(got, "<!!str "+str+">"), "C02/put-get-after-overwriting-auto-created-node")
	tg := vParse(".KEY1 | tag")
	vSubst(tg, "KEY1", "", n)
	tag, ok2 := c02ReadDump(tg, doc)
	verifAssert(ok2 && verifEqStr(tag, "<!!str !!str>"), "C02/tag-after-overwriting-auto-created-node")
	verifCover("C02/overwrite/end")
}

// VerifC02UpdatePerNode: `p op= e` gives EACH match m the value `m op e`, with e evaluated for the node m belongs to —
// several current nodes (`.a[] | (.x += .y)`) must not see each other's operands. Also `|=` per node.
func VerifC02UpdatePerNode() {
	var xs, ys [2]string
	var xn, yn [2]int64
	seq := vSeq()
	for i := 0; i < 2; i++ {
		xs[i], ys[i] = verifStrN("x"+verifItoa(int64(i)), 1, vDigits()), verifStrN("y"+verifItoa(int64(i)), 1, vDigits())
		xn[i], _ = parseInt64ForHarness(xs[i])
		yn[i], _ = parseInt64ForHarness(ys[i])
		seq.Content = append(seq.Content, vMap(vStr("x"), vInt(xs[i]), vStr("y"), vInt(ys[i])))
	}
	doc := vDoc(vMap(vStr("a"), seq))
	form := verifChoice("form", 6)
	forms := []string{".a[] | (.x += .y)", ".a[] | (.x -= .y)", ".a[] | (.x *= .y)", ".a[] | (.x |= . + 1)", ".a[] |= (.x += .y)", ".a[] | (.x = .y)"}
	res, err := vEval(vParse(forms[form]), doc)
	label := "form=" + forms[form]
	verifAssert(err == nil && res != nil, "C02/update-error "+label)
	if err != nil {
		return
	}
	for i := 0; i < 2; i++ {
		var want int64
		switch form {
		case 0, 4:
			want = xn[i] + yn[i]
		case 1:
			want = xn[i] - yn[i]
		case 2:
			want = xn[i] * yn[i]
		case 3:
			want = xn[i] + 1
		default:
			want = yn[i]
		}
		el := doc.Content[1].Content[i]
		got, ok := parseInt64ForHarness(el.Content[1].Value)
		verifObserve("x"+verifItoa(int64(i)), got)
		verifAssert(ok && got == want, "C02/update-of-one-node-used-another-node's-operand "+label)
		gy, oky := parseInt64ForHarness(el.Content[3].Value)
		verifAssert(oky && gy == yn[i], "C02/update-frame "+label)
	}
	verifCover("C02/update-per-node/end")
}

// VerifC02AssignAncestor: put-get when the value assigned is what an ancestor of the target held: after `p = q` with q a
// prefix of p, reading p yields the OLD value of q.
func VerifC02AssignAncestor() {
	x, y := verifStrN("x", 1, vDigits()), verifStrN("y", 1, vDigits())
	form := verifChoice("form", 4)
	forms := []string{".a.b = .a", ".a.b = .", ".a.b.d = .a", ".a.c = .a"}
	var doc *CandidateNode
	if form == 2 {
		doc = vDoc(vMap(vStr("a"), vMap(vStr("b"), vMap(vStr("d"), vInt(x)), vStr("c"), vInt(y))))
	} else {
		doc = vDoc(vMap(vStr("a"), vMap(vStr("b"), vInt(x), vStr("c"), vInt(y))))
	}
	oldA := vDump(doc.Content[1])
	oldRoot := vDump(doc)
	_, err := vEval(vParse(forms[form]), doc)
	label := "form=" + forms[form]
	verifAssert(err == nil, "C02/assign-ancestor-error "+label)
	if err != nil {
		return
	}
	readPath := []string{".a.b", ".a.b", ".a.b.d", ".a.c"}[form]
	res, rerr := c03EvalReadOnly(vParse(readPath), doc)
	verifAssert(rerr == nil && res.Len() == 1, "C02/assign-ancestor-read "+label)
	if rerr != nil || res.Len() != 1 {
		return
	}
	got := vDump(res.Front().Value.(*CandidateNode))
	want := oldA
	if form == 1 {
		want = oldRoot
	}
	verifObserve("got", got)
	verifAssert(verifEqStr(got, want), "C02/put-get-of-an-ancestor's-value "+label)
	verifCover("C02/assign-ancestor/end")
}

// VerifC02UpdateAnchored: `p op= e` gives the match m the value `m op e` — also when m carries an anchor that aliases
// elsewhere in the document refer to: the compound form leaves the same document as `p = p op e` (anchors, aliases
// and all), the anchor stays on the node and every alias of it reads the new value.
//   a: &x {c: V1}   b: *x   s: &y V2   t: *y
func VerifC02UpdateAnchored() {
	v1, v2 := verifStrN("v1", 1, "03"), verifStrN("v2", 1, "03")
	w := verifStrN("w", 1, "03")
	build := func() *CandidateNode {
		x := vMap(vStr("c"), vInt(v1))
		x.Anchor = "x"
		y := vInt(v2)
		y.Anchor = "y"
		z := vNull()
		z.Anchor = "z"
		return vDoc(vMap(vStr("a"), x, vStr("b"), &yaml.Node{Kind: yaml.AliasNode, Value: "x", Alias: x}, vStr("s"), y, vStr("t"), &yaml.Node{Kind: yaml.AliasNode, Value: "y", Alias: y},
			vStr("n"), z, vStr("m"), &yaml.Node{Kind: yaml.AliasNode, Value: "z", Alias: z}))
	}
	forms := [][2]string{{".a *= {\"d\": 7770003}", ".a = .a * {\"d\": 7770003}"}, {".a += {\"d\": 7770003}", ".a = .a + {\"d\": 7770003}"}, {".a *= {\"c\": 7770003}", ".a = .a * {\"c\": 7770003}"},
		{".s += 7770003", ".s = .s + 7770003"}, {".s -= 7770003", ".s = .s - 7770003"}, {".s *= 7770003", ".s = .s * 7770003"}, {".a |= . + {\"d\": 7770003}", ".a = .a + {\"d\": 7770003}"}, {".a *=n {\"d\": 7770003}", ".a = .a *n {\"d\": 7770003}"},
		// an anchored null: the calculation returns a fresh node (null + K is K)
		{".n += 7770003", ".n = .n + 7770003"}, {".n += [7770003]", ".n = .n + [7770003]"}, {".n += {\"d\": 7770003}", ".n = .n + {\"d\": 7770003}"}}
	fi := verifChoice("form", len(forms))
	label := "form=" + forms[fi][0]
	run := func(text string) (*CandidateNode, bool) {
		e := vParse(text)
		vSubst(e, "7770003", "!!int", w)
		d := build()
		res, err := vEval(e, d)
		if err != nil || res.Len() != 1 {
			return nil, false
		}
		return d, true
	}
	d1, ok1 := run(forms[fi][0])
	d2, ok2 := run(forms[fi][1])
	verifAssert(ok1 && ok2, "C02/update-error anchored "+label)
	if !ok1 || !ok2 {
		return
	}
	verifAssert(verifEqStr(vDumpFull(d1), vDumpFull(d2)), "C02/compound-assignment-differs-from-its-expansion anchored "+label)
	target, name := d1.Content[1], "x"
	if fi >= 3 && fi <= 5 {
		target, name = d1.Content[5], "y"
	}
	if fi >= 8 {
		target, name = d1.Content[9], "z"
	}
	verifAssert(target.Anchor == name, "C02/compound-assignment-dropped-the-anchor-of-its-target "+label)
	verifCover("C02/anchored/end")
}

// VerifC02UpdateCreatesPerNode: an update applied to several current nodes creates what is missing in EACH of them:
// `.a[] | (.n += K)` over elements of which any subset lacks `n` (or the map that holds it) leaves every element
// with n = old + K (old = nothing counts as null, null + K = K), and reading it back gives that.
func VerifC02UpdateCreatesPerNode() {
	forms := []string{".a[] | (.n += 7770001)", ".a[] | (.m.n += 7770001)", ".a[] | (.n = 7770001)", ".a[] | (.n |= 7770001)", ".a[].n += 7770001", ".a[] | (.n -= 7770001)", ".a[] | (.l[1] += 7770001)", ".a[] | (.n *= 7770001)", "(.a[] | .n) += 7770001"}
	form := verifChoice("form", len(forms))
	k := verifStrN("k", 1, vDigits())
	kn, _ := parseInt64ForHarness(k)
	var present [3]bool
	var xs [3]string
	var xn [3]int64
	seq := vSeq()
	n := 2 + verifChoice("elements", 2)
	for i := 0; i < n; i++ {
		present[i] = verifChoice("has"+verifItoa(int64(i)), 2) == 1
		xs[i] = verifStrN("x"+verifItoa(int64(i)), 1, vDigits())
		xn[i], _ = parseInt64ForHarness(xs[i])
		el := vMap(vStr("o"), vInt("9"))
		if present[i] {
			switch form {
			case 1:
				el = vMap(vStr("o"), vInt("9"), vStr("m"), vMap(vStr("n"), vInt(xs[i])))
			case 6:
				el = vMap(vStr("o"), vInt("9"), vStr("l"), vSeq(vInt("0"), vInt(xs[i])))
			default:
				el = vMap(vStr("o"), vInt("9"), vStr("n"), vInt(xs[i]))
			}
		}
		seq.Content = append(seq.Content, el)
	}
	doc := vDoc(vMap(vStr("a"), seq))
	e := vParse(forms[form])
	vSubst(e, "7770001", "!!int", k)
	_, err := vEval(e, doc)
	label := "form=" + forms[form]
	if (form == 5 || form == 7) && !(present[0] && present[1] && (n == 2 || present[2])) {
		// null - K and null * K are not numbers: an error or a created null are both acceptable; the elements that have n
		// are not examined either (the statement covers updates that are defined)
		verifCover("C02/update-creates/undefined")
		return
	}
	verifAssert(err == nil, "C02/update-error "+label)
	if err != nil {
		return
	}
	for i := 0; i < n; i++ {
		var want int64
		switch form {
		case 2, 3:
			want = kn
		case 5:
			want = xn[i] - kn
		case 7:
			want = xn[i] * kn
		default:
			want = kn
			if present[i] {
				want = xn[i] + kn
			}
		}
		read := ".a[" + verifItoa(int64(i)) + "].n"
		if form == 1 {
			read = ".a[" + verifItoa(int64(i)) + "].m.n"
		} else if form == 6 {
			read = ".a[" + verifItoa(int64(i)) + "].l[1]"
		}
		res, rerr := c03EvalReadOnly(vParse(read), doc)
		ok := rerr == nil && res.Len() == 1
		verifAssert(ok, "C02/updated-path-not-there-in-every-node "+label)
		if !ok {
			continue
		}
		got, okp := parseInt64ForHarness(res.Front().Value.(*CandidateNode).Value)
		verifObserve("n"+verifItoa(int64(i)), got)
		verifAssert(okp && got == want, "C02/update-per-node-value "+label)
		o, _ := c03EvalReadOnly(vParse(".a["+verifItoa(int64(i))+"].o"), doc)
		verifAssert(o != nil && o.Len() == 1 && o.Front().Value.(*CandidateNode).Value == "9", "C02/update-frame "+label)
	}
	verifCover("C02/update-creates/end")
}

// VerifC02CreateBelowOverwritten: a container overwritten by a scalar or null is gone: a path created below the same
// place later in the SAME expression starts from nothing - `.a = null | .a.K = V` leaves `a: {K: V}`, `.c = null |
// .c[I] = V` a sequence padded with nulls - whatever the container held before (frame and creation clauses).
func VerifC02CreateBelowOverwritten() {
	v := verifStrN("v", 1, vDigits())
	k := verifStrN("k", 1, "ad")
	over := []string{"null", "5", "\"s\"", "true"}[verifChoice("overwrittenWith", 4)]
	form := verifChoice("form", 4)
	doc := c02Doc("b", "0", "1", "2", "3") // {a: {b: 0}, c: [1, 2], s: 3}
	var text, read, want string
	switch form {
	case 0:
		text, read = ".a = OVER | .a.KEY1 = 7770001", ".a"
		want = "{<!!str " + k + ">: <!!int " + v + ">}"
	case 1:
		i := verifChoice("i", 3)
		text, read = ".c = OVER | .c["+verifItoa(int64(i))+"] = 7770001", ".c"
		want = "["
		for j := 0; j < i; j++ {
			want += "<!!null null>, "
		}
		want += "<!!int " + v + ">]"
	case 2:
		text, read = ".a |= OVER | .a.KEY1 = 7770001", ".a"
		want = "{<!!str " + k + ">: <!!int " + v + ">}"
	default:
		text, read = ".c = OVER | .c.KEY1 = 7770001", ".c"
		want = "{<!!str " + k + ">: <!!int " + v + ">}"
	}
	if over != "null" {
		// below a scalar that is not null nothing can be created: an error, and the scalar stays
		text = strings.Replace(text, "OVER", over, 1)
		e := vParse(text)
		vSubst(e, "KEY1", "", k)
		vSubst(e, "7770001", "!!int", v)
		_, err := vEval(e, doc)
		if err != nil {
			verifCover("C02/create-below/refused")
			return
		}
		got, ok := c02ReadDump(vParse(read), doc)
		verifObserve("got", got)
		verifAssert(ok && (verifConcreteBool(verifEqStr(got, want)) || !strings.Contains(got, "<!!int 1>") && !strings.Contains(got, "<!!str b>")), "C02/overwritten-container-kept-its-children overwrittenWith="+over)
		verifCover("C02/create-below/end")
		return
	}
	text = strings.Replace(text, "OVER", over, 1)
	e := vParse(text)
	vSubst(e, "KEY1", "", k)
	vSubst(e, "7770001", "!!int", v)
	_, err := vEval(e, doc)
	verifAssert(err == nil, "C02/create-below-overwritten-error form="+verifItoa(int64(form)))
	if err != nil {
		return
	}
	got, ok := c02ReadDump(vParse(read), doc)
	verifObserve("got", got)
	verifAssert(ok && verifEqStr(got, want), "C02/overwritten-container-kept-its-children form="+verifItoa(int64(form)))
	verifCover("C02/create-below/end")
}
