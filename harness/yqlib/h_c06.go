package yqlib

import (
	"bufio"
	"io"
	"math"
	"strconv"
	"strings"

	yaml "gopkg.in/yaml.v3"
)

// C06 — YAML<->JSON conversion is value-exact (the part in yq's own code).
//
// For this property candidiate_node_json.go is loaded with json.NewEncoder( redirected to the value-level
// stub below (goccy/go-json's encoder is an unsafe opcode VM and cannot be encoded): the stub renders what it
// is given as a canonical text — S(string) I(int64) F(float) true false null — and re-enters the real
// MarshalJSON for nodes, exactly where the library would call the Marshaler interface. So key order, nesting,
// alias resolution and above all the typing of scalars (GetValueRep, parseInt64, isTruthyNode) are the real code.

type verifJSONEncoder struct{ w io.Writer }

func verifJSONNewEncoder(w io.Writer) *verifJSONEncoder { return &verifJSONEncoder{w} }
func (e *verifJSONEncoder) SetIndent(_, _ string)        {}
func (e *verifJSONEncoder) SetEscapeHTML(_ bool)         {}

func (e *verifJSONEncoder) Encode(v interface{}) error {
	out := ""
	switch x := v.(type) {
	case nil:
		out = "null"
	case string:
		out = "S(" + x + ")"
	case int64:
		out = "I(" + verifItoa(x) + ")"
	case int:
		out = "I(" + verifItoa(int64(x)) + ")"
	case float64:
		out = "F(" + strconv.FormatFloat(x, 'g', -1, 64) + ")"
	case bool:
		if x {
			out = "true"
		} else {
			out = "false"
		}
	case *CandidateNode:
		if x == nil {
			out = "null"
		} else {
			b, err := x.MarshalJSON()
			if err != nil {
				return err
			}
			out = string(b)
		}
	case []*CandidateNode:
		out = "["
		for i, c := range x {
			if i > 0 {
				out += ","
			}
			b, err := c.MarshalJSON()
			if err != nil {
				return err
			}
			out += string(b)
		}
		out += "]"
	default:
		out = "UNSUPPORTED"
	}
	_, err := e.w.Write([]byte(out))
	return err
}

// reference value model
type c06V struct {
	kind  int // 0 null 1 bool 2 int 3 str 4 float 5 seq 6 map 7 unrepresentable float
	b     bool
	i     int64
	s     string
	keys  []string
	items []*c06V
}

func c06Ref(v *c06V) string {
	switch v.kind {
	case 0:
		return "null"
	case 1:
		if verifConcreteBool(v.b) {
			return "true"
		}
		return "false"
	case 2:
		return "I(" + verifItoa(v.i) + ")"
	case 3:
		return "S(" + v.s + ")"
	case 4:
		return "F(" + v.s + ")"
	case 5:
		out := "["
		for i, it := range v.items {
			if i > 0 {
				out += ","
			}
			out += c06Ref(it)
		}
		return out + "]"
	default:
		out := "{"
		for i, it := range v.items {
			if i > 0 {
				out += ","
			}
			out += "S(" + v.keys[i] + "):" + c06Ref(it)
		}
		return out + "}"
	}
}

// c06Scalar: a YAML scalar with solver-chosen spelling and the value it denotes.
func c06Scalar(name string) (*yaml.Node, *c06V) {
	switch verifChoice(name+"_kind", 8) {
	case 0:
		return vS("!!null", verifPick(name+"_null", "null", "~", "")), &c06V{kind: 0}
	case 1:
		s := verifPick(name+"_bool", "true", "false", "True", "FALSE", "yes", "no")
		t := verifOr(verifEqStr(s, "true"), verifOr(verifEqStr(s, "True"), verifEqStr(s, "yes")))
		return vS("!!bool", s), &c06V{kind: 1, b: t}
	case 2: // full-range decimal integer
		n := verifInt64(name + "_int")
		return vInt(verifItoa(n)), &c06V{kind: 2, i: n}
	case 3: // spelled integers through the real parser
		sp, val := c15SpelledInt(name)
		return vInt(sp), &c06V{kind: 2, i: val}
	case 4: // strings, including ones that look like other types
		s := verifStr(name+"_str", 2, "")
		return vStr(s), &c06V{kind: 3, s: s}
	case 5:
		s := verifConcreteStr(verifPick(name+"_lookalike", "true", "null", "12", "0x1f", "1.5", "~", ""))
		return vStr(s), &c06V{kind: 3, s: s}
	case 6:
		f := verifConcreteStr(verifPick(name+"_float", "0.5", "-1.5", "2.0", "1e3", "1.0e-2"))
		x, _ := strconv.ParseFloat(f, 64)
		return vS("!!float", f), &c06V{kind: 4, s: strconv.FormatFloat(x, 'g', -1, 64)}
	default:
		f := verifConcreteStr(verifPick(name+"_badfloat", ".inf", "-.inf", ".nan", ".Inf"))
		return vS("!!float", f), &c06V{kind: 7}
	}
}

func c06HasUnrepresentable(v *c06V) bool {
	if v.kind == 7 {
		return true
	}
	for _, it := range v.items {
		if c06HasUnrepresentable(it) {
			return true
		}
	}
	return false
}

// VerifC06Encode: the JSON value of a document equals its YAML data-model value; unrepresentable floats are an error.
func VerifC06Encode() {
	shape := verifChoice("shape", 8)
	var root *yaml.Node
	var ref *c06V
	switch shape {
	case 0:
		root, ref = c06Scalar("s")
	case 1:
		n1, v1 := c06Scalar("e0")
		n2, v2 := c06Scalar("e1")
		root, ref = vSeq(n1, n2), &c06V{kind: 5, items: []*c06V{v1, v2}}
	case 2:
		k1, k2 := verifStrN("k1", 1, "az"), verifStrN("k2", 1, "az")
		verifAssume(!verifEqStr(k1, k2))
		n1, v1 := c06Scalar("v1")
		n2, v2 := c06Scalar("v2")
		root, ref = vMap(vStr(k1), n1, vStr(k2), n2), &c06V{kind: 6, keys: []string{k1, k2}, items: []*c06V{v1, v2}}
	case 3: // nesting and empty containers
		n1, v1 := c06Scalar("v1")
		root = vMap(vStr("a"), vSeq(vMap(vStr("b"), n1), vSeq()), vStr("e"), vMap())
		ref = &c06V{kind: 6, keys: []string{"a", "e"}, items: []*c06V{
			{kind: 5, items: []*c06V{{kind: 6, keys: []string{"b"}, items: []*c06V{v1}}, {kind: 5}}}, {kind: 6}}}
	case 4: // an alias stands for its anchored node
		n1, v1 := c06Scalar("v1")
		n1.Anchor = "x"
		root = vMap(vStr("a"), n1, vStr("b"), &yaml.Node{Kind: yaml.AliasNode, Value: "x", Alias: n1})
		ref = &c06V{kind: 6, keys: []string{"a", "b"}, items: []*c06V{v1, v1}}
	case 6: // a key that is no scalar (`? [p] : v`) has no JSON counterpart: an error, not some other key
		n1, _ := c06Scalar("v1")
		keyKind := verifChoice("keyKind", 3)
		key := []*yaml.Node{vSeq(vStr("p")), vMap(vStr("p"), vStr("q")), vSeq()}[keyKind]
		root, ref = vMap(vStr("k"), vInt("1"), key, n1), &c06V{kind: 7}
	case 7: // scalar keys that are not strings become the JSON strings of their text
		n1, v1 := c06Scalar("v1")
		d := verifStrN("d", 1, "09")
		root = vMap(vInt(d), n1, vS("!!bool", "true"), vInt("2"))
		ref = &c06V{kind: 6, keys: []string{d, "true"}, items: []*c06V{v1, {kind: 2, i: 2}}}
	default: // an anchor name defined twice: an alias stands for the most recent definition before it
		n1, v1 := c06Scalar("v1")
		n2, v2 := c06Scalar("v2")
		n1.Anchor, n2.Anchor = "x", "x"
		root = vMap(vStr("a"), n1, vStr("b"), &yaml.Node{Kind: yaml.AliasNode, Value: "x", Alias: n1},
			vStr("c"), n2, vStr("d"), &yaml.Node{Kind: yaml.AliasNode, Value: "x", Alias: n2})
		ref = &c06V{kind: 6, keys: []string{"a", "b", "c", "d"}, items: []*c06V{v1, v1, v2, v2}}
	}
	doc := vDoc(root)
	b, err := doc.MarshalJSON()
	label := []string{"scalar", "seq", "map", "nested", "alias", "anchor-redefined", "non-scalar-key", "non-string-keys"}[shape]
	if c06HasUnrepresentable(ref) {
		verifCover("C06/encode/unrepresentable")
		verifAssert(err != nil, "C06/unrepresentable-value-encoded-as-something "+label)
		return
	}
	verifAssert(err == nil, "C06/encode-error "+label)
	if err != nil {
		return
	}
	got := string(b)
	verifObserve("json", got)
	verifAssert(verifEqStr(got, c06Ref(ref)), "C06/json-value-differs-from-yaml-value "+label)
	verifCover("C06/encode/end")
}

// VerifC06Decode: classification of decoded JSON scalars (goccy hands numbers over as float64: contract).
func VerifC06Decode() {
	which := verifChoice("value", 12)
	ints := []int64{0, 1, -1, 255, 9007199254740991, 9007199254740992, 9007199254740993, -9007199254740993, 4611686018427387905, 1152921504606846977}
	var n CandidateNode
	switch {
	case which < len(ints):
		v := ints[which]
		err := n.setScalarFromJson(float64(v)) // the nearest float64, as the JSON library delivers it
		verifAssert(err == nil, "C06/decode-error")
		verifObserve("value", n.Value)
		verifAssert(n.Tag == "!!int" && n.Value == strconv.FormatInt(v, 10), "C06/json-integer-not-exact magnitude="+c06Magnitude(v))
	case which == 10:
		_ = n.setScalarFromJson(1.5)
		verifAssert(n.Tag == "!!float" && n.Value == "1.5", "C06/json-float")
	default:
		_ = n.setScalarFromJson("12")
		verifAssert(n.Tag == "!!str" && n.Value == "12", "C06/json-string-that-looks-like-number")
	}
	verifCover("C06/decode/end")
}

func c06Magnitude(v int64) string {
	if v < 0 {
		v = -v
	}
	if v > 9007199254740992 {
		return "above-2^53"
	}
	return "up-to-2^53"
}

// VerifC06WideInts: integers at the edge of the 64-bit range, in decimal and hexadecimal spelling with a symbolic
// leading / trailing digit: inside the range the JSON number is the exact value, outside it encoding fails —
// it must not wrap to another number.
func VerifC06WideInts() {
	var text string
	var val int64
	inRange := true
	switch verifChoice("spelling", 4) {
	case 0: // 0x d fffffffffffffff / 0x d 000000000000000
		d := verifStrN("d", 1, "09af")
		var dv int64
		if verifConcreteBool(d[0] <= '9') {
			dv = int64(d[0] - '0')
		} else {
			dv = int64(d[0]-'a') + 10
		}
		low := verifChoice("low", 2)
		pre := verifPick("prefix", "0x", "0X")
		if low == 0 {
			text, val = pre+d+"000000000000000", dv<<60
		} else {
			text, val = pre+d+"fffffffffffffff", dv<<60|0xfffffffffffffff
		}
		inRange = verifConcreteBool(dv < 8)
	case 1: // 922337203685477580 d
		d := verifStrN("d", 1, "09")
		dv := int64(d[0] - '0')
		text = "922337203685477580" + d
		inRange = verifConcreteBool(dv <= 7)
		val = 9223372036854775800 + dv
	case 2: // -922337203685477580 d
		d := verifStrN("d", 1, "09")
		dv := int64(d[0] - '0')
		text = "-922337203685477580" + d
		inRange = verifConcreteBool(dv <= 8)
		val = -9223372036854775800 - dv
	default: // 0o d 777777777777777777777 (22 octal digits: d=0 in range, d>=1 beyond 2^63)
		d := verifStrN("d", 1, "07")
		dv := int64(d[0] - '0')
		text = "0o" + d + "777777777777777777777"
		inRange = verifConcreteBool(dv == 0)
		val = 0x7fffffffffffffff
	}
	doc := vDoc(vMap(vStr("k"), vInt(text)))
	b, err := doc.MarshalJSON()
	verifObserve("text", text)
	if !inRange {
		verifCover("C06/wide/out-of-range")
		if err == nil {
			verifObserve("json", string(b))
		}
		verifAssert(err != nil, "C06/integer-outside-int64-encoded-as-another-number")
		return
	}
	verifAssert(err == nil, "C06/encode-error wide-int")
	if err != nil {
		return
	}
	verifObserve("json", string(b))
	verifAssert(verifEqStr(string(b), "{S(k):I("+verifItoa(val)+")}"), "C06/json-value-differs-from-yaml-value wide-int")
	verifCover("C06/wide/end")
}

// VerifC06JSONEncoder: the real jsonEncoder.Encode (its JSON library call redirected to the value-level stub) with the
// unwrap-scalar preference symbolic: whatever the preference, a sequence or mapping — empty ones included — comes
// out as its JSON value; only a scalar may be written bare, and then as its own text.
func VerifC06JSONEncoder() {
	prefs := ConfiguredJSONPreferences.Copy()
	prefs.UnwrapScalar = verifBool("unwrapScalar")
	prefs.ColorsEnabled = false
	shape := verifChoice("shape", 6)
	s := verifStrN("s", 1, "az")
	var n *yaml.Node
	var want string
	bare := ""
	switch shape {
	case 0:
		n, want, bare = vStr(s), "S("+s+")", s
	case 1:
		n, want = vSeq(), "[]"
	case 2:
		n, want = vMap(), "{}"
	case 3:
		n, want = vSeq(vStr(s)), "[S("+s+")]"
	case 4:
		n, want = vMap(vStr("k"), vSeq()), "{S(k):[]}"
	default:
		n, want, bare = vS("!!null", "null"), "null", "null"
	}
	var sb strings.Builder
	err := NewJSONEncoder(prefs).Encode(c17Writer{&sb}, vDoc(n))
	verifAssert(err == nil, "C06/json-encoder-error")
	if err != nil {
		return
	}
	out := sb.String()
	verifObserve("out", out)
	label := []string{"string", "empty-seq", "empty-map", "seq", "map-of-empty-seq", "null"}[shape]
	if bare != "" && verifConcreteBool(prefs.UnwrapScalar) {
		verifAssert(verifEqStr(out, bare+"\n"), "C06/unwrapped-scalar-is-not-its-text "+label)
	} else {
		verifAssert(verifEqStr(out, want), "C06/json-encoder-output-is-not-the-value "+label)
	}
	verifCover("C06/encoder/end")
}

// VerifC06LiteralMergeKeyText: a map key that merely spells `<<` (a string, as JSON input or a quoted YAML key gives) is
// data: the JSON printed through the real printer (which explodes aliases and merge keys first) keeps it.
func VerifC06LiteralMergeKeyText() {
	s := verifStrN("s", 1, "az")
	pos := verifChoice("position", 2)
	k := vStr("<<")
	var n *yaml.Node
	var want string
	if pos == 0 {
		n, want = vMap(k, vStr(s), vStr("a"), vInt("2")), "{S(<<):S("+s+"),S(a):I(2)}"
	} else {
		n, want = vMap(vStr("a"), vInt("2"), k, vMap(vStr("b"), vStr(s))), "{S(a):I(2),S(<<):{S(b):S("+s+")}}"
	}
	prefs := ConfiguredJSONPreferences.Copy()
	prefs.UnwrapScalar = false
	prefs.ColorsEnabled = false
	var sb strings.Builder
	printer := NewPrinter(NewJSONEncoder(prefs), NewSinglePrinterWriter(bufio.NewWriter(c17Writer{&sb})))
	err := printer.PrintResults(vDoc(n).AsList())
	verifAssert(err == nil, "C06/print-error literal-merge-key-text")
	if err != nil {
		return
	}
	verifObserve("out", sb.String())
	verifAssert(verifEqStr(sb.String(), want), "C06/json-value-differs-from-yaml-value key-spelt-like-a-merge-key")
	verifCover("C06/literal-merge-key/end")
}

// VerifC06JSONNumbers: the JSON library hands every number over as a float64 (contract of decoder_json.go). For every
// finite float64 (a solver variable: an arbitrary bit pattern) the YAML scalar yq makes of it denotes exactly that
// number: tagged !!int only if its decimal text is that very value, otherwise a !!float whose text reads back to the
// same float — never another number (no wrap-around beyond the int64 range, no rounding).
func VerifC06JSONNumbers() {
	f := math.Float64frombits(uint64(verifInt64("bits")))
	verifAssume(!math.IsNaN(f) && !math.IsInf(f, 0))
	var n CandidateNode
	err := n.setScalarFromJson(f)
	verifAssert(err == nil, "C06/decode-error number")
	if err != nil {
		return
	}
	switch n.Tag {
	case "!!int":
		_, i, perr := parseInt64(n.Value)
		verifAssert(perr == nil, "C06/json-number-became-unreadable-integer")
		if perr == nil {
			// the integer i is exactly the number f: f lies inside the int64 range, is a whole number, and i is it
			inRange := verifAnd(f >= -9223372036854775808.0, f < 9223372036854775808.0)
			verifAssert(verifAnd(inRange, verifAnd(f == math.Trunc(f), i == int64(f))), "C06/json-number-became-another-integer")
		}
		verifCover("C06/numbers/int")
	case "!!float":
		back, perr := strconv.ParseFloat(n.Value, 64)
		verifAssert(perr == nil && back == f, "C06/json-number-became-another-float")
		verifCover("C06/numbers/float")
	default:
		verifFail("C06/json-number-tag")
	}
	verifCover("C06/numbers/end")
}

// VerifC06MergeKeysToJSON: "aliases and merge keys resolved" — a map that merges other maps (also through a map that
// has a merge key or a merge list of its own) is converted the way `yq -o=json .H` does it (the printer explodes the
// result node alone, then the JSON encoder walks it): the JSON object has no `<<` member and, for every key, exactly
// the value the merge-key rules define. Keys are symbolic as in C13; the document builder and the rule reference are
// C13's.
func VerifC06MergeKeysToJSON() {
	ka1, ka2, kb1, kb2, e1, e2 := c13Keys()
	mergeKind := 4 + verifChoice("merge", 2)
	pos := verifChoice("pos", 2) * 2
	q := verifStrN("q", 1, "ad")
	want, src := c13Ref(q, ka1, ka2, kb1, kb2, e1, e2, mergeKind)
	label := c13MergeNames[mergeKind] + " " + c13PosNames[pos] + " key=" + src
	doc := vDoc(c13Build(ka1, ka2, kb1, kb2, e1, e2, mergeKind, pos))
	hres, err := vEval(vParse(".H"), doc)
	if err != nil || hres.Len() != 1 {
		verifFail("C06/merge-read-error " + label)
	}
	exp := ExpressionNode{Operation: &Operation{OperationType: explodeOpType}}
	ctx, err := NewDataTreeNavigator().GetMatchingNodes(Context{MatchingNodes: hres}, &exp)
	if err != nil || ctx.MatchingNodes.Len() != 1 {
		verifFail("C06/merge-explode-error " + label)
	}
	h := ctx.MatchingNodes.Front().Value.(*CandidateNode)
	b, err := h.MarshalJSON()
	verifAssert(err == nil, "C06/encode-error merge "+label)
	if err != nil {
		return
	}
	js := string(b)
	verifObserve("json", js)
	verifAssert(!strings.Contains(js, "S(<<)"), "C06/json-object-keeps-a-merge-key "+label)
	if src == "explicit-also-merged" && pos != 0 {
		verifCover("C06/merge-json/recorded-class")
		return // the recorded finding of C13 (an explicit key written before << loses to the merged one) is not re-reported here
	}
	member := "S(" + q + "):I(" + want + ")"
	if want == "" {
		verifAssert(!strings.Contains(js, "S("+q+"):"), "C06/json-object-has-a-member-the-merge-rules-do-not-define "+label)
	} else {
		verifAssert(strings.Contains(js, member), "C06/json-member-differs-from-the-merge-rules "+label)
	}
	verifCover("C06/merge-json/end")
}

// ---- JSON -> YAML -> JSON ----

// strings that YAML could mistake for something else, or that need care when written
var c06Texts = []string{"", "a", "null", "~", "Null", "1", "-1", "1.5", "0x1F", "0o17", "1e3", ".inf", ".nan", "true", "True", "yes", "no", "on", "<<", "=",
	" ", " a", "a ", "#", "a #b", "#a", "a: b", "a:", ":", "-", "- a", "-a", "?", "? a", "\na", "a\n", "\n", "a\nb", "a\n\nb", "\t", "a\tb", "\ta", "'", "\"", "a'b", "*a", "&a", "!t", "!!str", "%a", "@a", "`a", "|", ">", "|-", "[", "]", "{", "}", "[a]", "{a: b}", ",", "a,b",
	"---", "...", "--- a", "2001-01-01", "12:30:45", "0", "00", "+1", "1_000", "0b11", "\\", "\\n", "é", "a b", " ", "\U0001F600"}

func c06JSONQuote(s string) string {
	out := "\""
	for i := 0; i < len(s); i++ {
		switch s[i] {
		case '"':
			out += "\\\""
		case '\\':
			out += "\\\\"
		case '\n':
			out += "\\n"
		case '\t':
			out += "\\t"
		default:
			out += string(s[i : i+1])
		}
	}
	return out + "\""
}

// a JSON scalar: its text and the canonical rendering the JSON-encoder stub gives the same value
func c06JSONScalar(name string) (text string, canon string) {
	switch verifChoice(name+"_kind", 6) {
	case 0:
		s := c06Texts[verifChoice(name+"_text", len(c06Texts))]
		return c06JSONQuote(s), "S(" + s + ")"
	case 1:
		n := []string{"0", "1", "-1", "255", "9007199254740991", "-9007199254740991"}[verifChoice(name+"_int", 6)]
		return n, "I(" + n + ")"
	case 2:
		n := []string{"1.5", "-0.25", "1e-7", "1.7976931348623157e+308", "0.1"}[verifChoice(name+"_float", 5)]
		f, _ := strconv.ParseFloat(n, 64)
		return n, "F(" + strconv.FormatFloat(f, 'g', -1, 64) + ")"
	case 3:
		return "true", "true"
	case 4:
		return "false", "false"
	}
	return "null", "null"
}

// VerifC06JSONRoundTrip: a JSON value read by yq's JSON decoder (the real UnmarshalJSON walk over the reader stub of
// h_jsonstub.go), printed as YAML by the real printer and YAML encoder, read again by the real YAML decoder and
// written as JSON (the real MarshalJSON over the encoder stub) is the original value: keys and strings from a pool of
// 80 texts that YAML could mistake for something else, integers, floats, booleans, null, in objects, nested objects
// and arrays.
func VerifC06JSONRoundTrip() {
	shape := verifChoice("shape", verifParam("shapes", 3))
	var text, canon, class string
	switch shape {
	case 0: // {K: V}
		k := c06Texts[verifChoice("k", len(c06Texts))]
		vt, vc := c06JSONScalar("v")
		text = "{" + c06JSONQuote(k) + ":" + vt + "}"
		canon = "{S(" + k + "):" + vc + "}"
	case 1: // [V, V2]
		vt, vc := c06JSONScalar("v")
		wt, wc := c06JSONScalar("w")
		text = "[" + vt + "," + wt + "]"
		canon = "[" + vc + "," + wc + "]"
	case 2: // a scalar document
		vt, vc := c06JSONScalar("v")
		text, canon = vt, vc
		class = " [a document that is a scalar]"
	case 3: // {K: {K2: V}, "z": [V]}
		k := c06Texts[verifChoice("k", len(c06Texts))]
		k2 := c06Texts[verifChoice("k2", len(c06Texts))]
		vt, vc := c06JSONScalar("v")
		if k == "z" {
			return
		}
		text = "{" + c06JSONQuote(k) + ":{" + c06JSONQuote(k2) + ":" + vt + "},\"z\":[" + vt + "]}"
		canon = "{S(" + k + "):{S(" + k2 + "):" + vc + "},S(z):[" + vc + "]}"
	default: // [[], {}, [V], {"a": []}]
		vt, vc := c06JSONScalar("v")
		text = "[[],{},[" + vt + "],{\"a\":[]}]"
		canon = "[[],{},[" + vc + "],{S(a):[]}]"
	}
	verifObserve("json", text)
	dec := NewJSONDecoder()
	if err := dec.Init(strings.NewReader(text)); err != nil {
		verifFail("C06/json-decoder-init")
		return
	}
	node, err := dec.Decode()
	verifAssert(err == nil, "C06/json-not-read"+class)
	if err != nil {
		return
	}
	var sb strings.Builder
	w := bufio.NewWriter(c17Writer{&sb})
	printer := NewPrinter(NewYamlEncoder(NewDefaultYamlPreferences()), NewSinglePrinterWriter(w))
	err = printer.PrintResults(node.AsList())
	verifAssert(err == nil, "C06/json-to-yaml-failed"+class)
	if err != nil {
		return
	}
	yamlText := sb.String()
	verifObserve("yaml", yamlText)
	ydec := NewYamlDecoder(NewDefaultYamlPreferences())
	if err := ydec.Init(strings.NewReader(yamlText)); err != nil {
		verifFail("C06/yaml-decoder-init")
		return
	}
	back, err := ydec.Decode()
	verifAssert(err == nil, "C06/yaml-made-of-json-not-read-again"+class)
	if err != nil {
		return
	}
	b, err := back.MarshalJSON()
	verifAssert(err == nil, "C06/yaml-made-of-json-not-written-as-json"+class)
	if err != nil {
		return
	}
	verifObserve("back", string(b))
	verifAssert(string(b) == canon, "C06/json-to-yaml-and-back-changed-the-value"+class)
	_, err = ydec.Decode()
	verifAssert(err != nil, "C06/json-to-yaml-made-more-than-one-document"+class)
	verifCover("C06/json-roundtrip/end")
}

// VerifC06WideIntsOutside: integers in the window the symbolic harness above reaches with one digit only, as whole
// texts: decimal and hex spellings from 2^63 to 2^64-1 (what yaml.v3 still resolves as !!int) are refused by the JSON
// encoding - directly, inside a sequence, and through an alias - never written as a rounded number.
func VerifC06WideIntsOutside() {
	texts := []string{"9223372036854775808", "9223372036854775809", "12345678901234567890", "18446744073709551615", "18446744073709551614", "10000000000000000000", "0x8000000000000000", "0xffffffffffffffff", "0o1000000000000000000000", "0xFFFFFFFFFFFFFFFF"}
	text := texts[verifChoice("text", len(texts))]
	var doc *CandidateNode
	switch verifChoice("place", 3) {
	case 0:
		doc = vDoc(vMap(vStr("k"), vInt(text)))
	case 1:
		doc = vDoc(vSeq(vInt("1"), vInt(text)))
	default:
		x := vInt(text)
		x.Anchor = "x"
		doc = vDoc(vMap(vStr("k"), x, vStr("j"), &yaml.Node{Kind: yaml.AliasNode, Value: "x", Alias: x}))
	}
	b, err := doc.MarshalJSON()
	if err == nil {
		verifObserve("json", string(b))
	}
	verifAssert(err != nil, "C06/integer-outside-int64-encoded-as-another-number text="+text)
	verifCover("C06/wide-outside/end")
}
