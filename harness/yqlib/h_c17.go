package yqlib

import (
	"bufio"
	"io"
	"strings"

	yaml "gopkg.in/yaml.v3"
)

var c17Tag string

// C17 — @sh and -o=shell output is injection-safe and expands to the exact value.

// c17NeverSpecial: characters that no POSIX shell treats specially when they appear unquoted inside a word.
func c17NeverSpecial(c byte) bool {
	return (c >= 'a' && c <= 'z') || (c >= 'A' && c <= 'Z') || (c >= '0' && c <= '9') ||
		c == '_' || c == '@' || c == '%' || c == '+' || c == '=' || c == ':' || c == ',' || c == '.' || c == '/' || c == '-'
}

// c17ReadWord: reference reader of the POSIX word syntax the encoders may emit: bare characters, '…' and \c.
// ok=false: unterminated quote or dangling backslash; safe=false: an unquoted character that a shell may
// treat specially (expansion, globbing, splitting, operators, comment, tilde).
func c17ReadWord(w string) (val string, ok bool, safe bool) {
	safe = true
	i := 0
	for i < len(w) {
		c := w[i]
		switch {
		case verifConcreteBool(c == '\''):
			j := i + 1
			for j < len(w) && !verifConcreteBool(w[j] == '\'') {
				j++
			}
			if j >= len(w) {
				return "", false, safe
			}
			val += w[i+1 : j]
			i = j + 1
		case verifConcreteBool(c == '\\'):
			if i+1 >= len(w) {
				return "", false, safe
			}
			if verifConcreteBool(w[i+1] == '\n') {
				// backslash-newline is a line continuation: the pair disappears
				i += 2
				continue
			}
			val += w[i+1 : i+2]
			i += 2
		default:
			if !verifConcreteBool(c17NeverSpecial(c)) {
				safe = false
			}
			val += w[i : i+1]
			i++
		}
	}
	return val, true, safe
}

// VerifC17Sh: for every string s, the word @sh produces reads back to exactly s and exposes no special character.
func VerifC17Sh() {
	s := verifStr("s", verifParam("maxlen", 3), "\x01\x7f")
	enc := (&shEncoder{}).encode(s)
	verifObserve("enc", enc)
	val, ok, safe := c17ReadWord(enc)
	verifAssert(ok, "C17/sh-unterminated-quoting")
	if !ok {
		return
	}
	verifAssert(verifEqStr(val, s), "C17/sh-word-expands-to-other-value")
	verifAssert(safe, "C17/sh-unquoted-special-character")
	if len(s) == 0 {
		// an empty string must still be one (empty) word, not no word at all
		verifAssert(enc != "", "C17/sh-empty-string-vanishes")
	}
	verifCover("C17/sh/end")
}

// VerifC17ShBytes: values are byte strings, not necessarily valid UTF-8 (a file name, a binary token). The word
// @sh produces expands to exactly those bytes: a stray 0xFF, a truncated or overlong sequence, a surrogate — next
// to an arbitrary ASCII byte on either side.
func VerifC17ShBytes() {
	mids := []string{"\xff", "a\xffb", "\xc3\xa9", "\xc3", "\xe2\x82", "\xe2\x82\xac", "'\xff", "\xff'", "\xf0\x9f", "\x80a",
		"\xc3\xa9'\xfe x", "\xc0\xaf", "\xed\xa0\x80", "\xf4\x90\x80\x80", "\xef\xbf\xbd", "\xff\xfe\xfd"}
	mid := mids[verifChoice("mid", len(mids))]
	s := verifStr("p", 1, "\x01\x7f") + mid + verifStr("q", 1, "\x01\x7f")
	enc := (&shEncoder{}).encode(s)
	val, ok, _ := c17ReadWord(enc)
	verifAssert(ok, "C17/sh-unterminated-quoting bytes")
	if !ok {
		return
	}
	verifAssert(verifEqStr(val, s), "C17/sh-word-expands-to-other-bytes")
	verifCover("C17/shbytes/end")
}

type c17Writer struct{ sb *strings.Builder }

func (w c17Writer) Write(p []byte) (int, error) { return w.sb.Write(p) }

func c17IsName(n string) bool {
	if len(n) == 0 {
		return false
	}
	for i := 0; i < len(n); i++ {
		c := n[i]
		alpha := (c >= 'a' && c <= 'z') || (c >= 'A' && c <= 'Z') || c == '_'
		if i == 0 {
			if !verifConcreteBool(alpha) {
				return false
			}
		} else if !verifConcreteBool(alpha || (c >= '0' && c <= '9')) {
			return false
		}
	}
	return true
}

// c17Lines splits the encoder output into assignment lines. A value may contain newlines inside quotes, so
// the split follows the quoting.
func c17Assignments(out string) (names []string, values []string, ok bool) {
	i := 0
	for i < len(out) {
		j := i
		for j < len(out) && !verifConcreteBool(out[j] == '=') {
			j++
		}
		if j >= len(out) {
			return nil, nil, false
		}
		name := out[i:j]
		// the value word runs to the first newline outside quotes
		k := j + 1
		inQ := false
		for k < len(out) {
			c := out[k]
			if verifConcreteBool(c == '\'') {
				inQ = !inQ
			} else if verifConcreteBool(c == '"') && !inQ {
				// quoteValue emits "'" between single-quoted blocks: a double-quoted single quote
				if k+2 < len(out) && verifConcreteBool(out[k+1] == '\'') && verifConcreteBool(out[k+2] == '"') {
					k += 2
				}
			} else if verifConcreteBool(c == '\n') && !inQ {
				break
			}
			k++
		}
		if k >= len(out) {
			return nil, nil, false
		}
		names = append(names, name)
		values = append(values, out[j+1:k])
		i = k + 1
	}
	return names, values, true
}

// c17ReadValue: reader for the value syntax of -o=shell: bare [A-Za-z0-9_]* or '…' blocks joined by "'".
func c17ReadValue(w string) (val string, ok bool, safe bool) {
	safe = true
	i := 0
	for i < len(w) {
		c := w[i]
		switch {
		case verifConcreteBool(c == '\''):
			j := i + 1
			for j < len(w) && !verifConcreteBool(w[j] == '\'') {
				j++
			}
			if j >= len(w) {
				return "", false, safe
			}
			val += w[i+1 : j]
			i = j + 1
		case verifConcreteBool(c == '"'):
			// "'" : a double-quoted single quote
			if i+2 < len(w) && verifConcreteBool(w[i+1] == '\'') && verifConcreteBool(w[i+2] == '"') {
				val += "'"
				i += 3
			} else {
				return "", false, safe
			}
		default:
			if !verifConcreteBool(c17NeverSpecial(c)) {
				safe = false
			}
			val += w[i : i+1]
			i++
		}
	}
	return val, true, safe
}

// VerifC17ShellVars: every line of -o=shell is NAME=VALUE with a valid NAME and a VALUE that reads back to the scalar.
func VerifC17ShellVars() {
	L := verifParam("maxlen", 2)
	shape := verifChoice("shape", 4)
	key := verifStr("key", L, "\x01\x7f")
	v1 := verifStr("v1", L, "\x01\x7f")
	// the scalar's tag: a string, or a core tag written explicitly / assigned by an expression (`!!int $(x)`, `~`)
	c17Tag = "!!str"
	if verifParam("typed", 0) == 1 {
		c17Tag = []string{"!!int", "!!null", "!!bool", "!!float", "!custom"}[verifChoice("tag", 5)]
		verifAssume(shape == 0 || shape == 3)
		verifAssume(verifEqStr(key, "k"))
	}
	var root *CandidateNode
	var wantVals []string
	val := func() *yaml.Node { return vS(c17Tag, v1) }
	switch shape {
	case 0: // {key: v1}
		root = vDoc(vMap(vStr(key), val()))
		wantVals = []string{v1}
	case 1: // {key: {key: v1}}
		root = vDoc(vMap(vStr(key), vMap(vStr(key), val())))
		wantVals = []string{v1}
	case 2: // {key: [v1, v1]}
		root = vDoc(vMap(vStr(key), vSeq(val(), val())))
		wantVals = []string{v1, v1}
	default: // bare scalar
		root = vDoc(val())
		wantVals = []string{v1}
	}
	var sb strings.Builder
	var w io.Writer = c17Writer{&sb}
	err := NewShellVariablesEncoder().Encode(w, root)
	verifAssert(err == nil, "C17/shell-encode-error")
	if err != nil {
		return
	}
	out := sb.String()
	verifObserve("out", out)
	names, values, ok := c17Assignments(out)
	verifAssert(ok, "C17/shell-output-not-assignments")
	if !ok {
		return
	}
	verifAssert(len(names) == len(wantVals), "C17/shell-assignment-count")
	if len(names) != len(wantVals) {
		return
	}
	for i := range names {
		verifAssert(c17IsName(names[i]), "C17/shell-invalid-variable-name")
		val, okv, safe := c17ReadValue(values[i])
		verifAssert(okv, "C17/shell-value-unterminated-quoting")
		if okv {
			verifAssert(verifEqStr(val, wantVals[i]), "C17/shell-value-expands-to-other-value")
			verifAssert(safe, "C17/shell-value-unquoted-special-character")
		}
	}
	verifCover("C17/shellvars/end")
}

// VerifC17ShellVarsTyped: the same obligations for scalars that carry a core (or custom) tag while their text is
// arbitrary — `n: !!int $(touch x)`, a `~` null, a value retagged by an expression.
func VerifC17ShellVarsTyped() {
	VerifC17ShellVars()
}

// VerifC17ShellVarsUnicode: keys outside ASCII (letters with and without a decomposition, decimal digits of other
// scripts, full-width forms, combining marks) still give NAME=VALUE lines whose NAME is a shell identifier.
func VerifC17ShellVarsUnicode() {
	key := verifConcreteStr(verifPick("key", "a٣", "k३x", "é", "日本", "x_1", "ｋ１", "a-b", "1a", "๓", "áb", "²", "①", "_", "١٢"))
	v1 := verifStrN("v1", 1, "\x01\x7f")
	nested := verifChoice("nested", 2) == 1
	var root *CandidateNode
	if nested {
		root = vDoc(vMap(vStr("p"), vMap(vStr(key), vStr(v1))))
	} else {
		root = vDoc(vMap(vStr(key), vStr(v1)))
	}
	var sb strings.Builder
	var w io.Writer = c17Writer{&sb}
	err := NewShellVariablesEncoder().Encode(w, root)
	verifAssert(err == nil, "C17/shell-encode-error unicode-key")
	if err != nil {
		return
	}
	out := sb.String()
	verifObserve("out", out)
	names, values, ok := c17Assignments(out)
	verifAssert(ok && len(names) == 1, "C17/shell-output-not-assignments unicode-key")
	if !ok || len(names) != 1 {
		return
	}
	verifAssert(c17IsName(names[0]), "C17/shell-invalid-variable-name unicode-key")
	val, okv, safe := c17ReadValue(values[0])
	verifAssert(okv && verifConcreteBool(verifEqStr(val, v1)) && safe, "C17/shell-value-expands-to-other-value unicode-key")
	verifCover("C17/shellvars-unicode/end")
}

// VerifC17ShellFormatNames: every spelling of the shell output format that `-o=` accepts (shell, s, sh) selects the
// encoder whose every output line is NAME=VALUE with the value quoted for the shell — not some other encoder.
func VerifC17ShellFormatNames() {
	names := []string{"shell", "s", "sh"}
	name := names[verifChoice("name", len(names))]
	f, err := FormatFromString(name)
	verifAssert(err == nil && f != nil && f.EncoderFactory != nil, "C17/shell-format-name-not-an-output-format name="+name)
	if err != nil || f == nil || f.EncoderFactory == nil {
		return
	}
	v := verifStr("v", 2, "\x01\x7f")
	var root *CandidateNode
	want := 1
	switch verifChoice("shape", 3) {
	case 0:
		root = vDoc(vStr(v))
	case 1:
		root = vDoc(vMap(vStr("k"), vStr(v)))
	default:
		root = vDoc(vMap(vStr("k"), vSeq(vStr(v), vStr("w"))))
		want = 2
	}
	var sb strings.Builder
	encErr := f.EncoderFactory().Encode(c17Writer{&sb}, root)
	verifAssert(encErr == nil, "C17/shell-encode-error name="+name)
	if encErr != nil {
		return
	}
	ns, vals, ok := c17Assignments(sb.String())
	verifAssert(ok && len(ns) == want, "C17/shell-output-not-assignments name="+name)
	if !ok || len(ns) != want {
		return
	}
	verifAssert(c17IsName(ns[0]), "C17/shell-invalid-variable-name name="+name)
	val, okv, safe := c17ReadValue(vals[0])
	verifAssert(okv && safe && verifEqStr(val, v), "C17/shell-value-expands-to-other-value name="+name)
	verifCover("C17/shellnames/end")
}

// VerifC17NUL: no shell word or variable can hold a NUL byte (POSIX shells cut or drop it), so a value that contains
// one has no faithful shell form: @sh and -o=shell must report an error for it instead of writing bytes that expand
// to another value; values without NUL are encoded.
func VerifC17NUL() {
	v := verifStr("v", 2, "\x00\x00az''")
	hasNul := strings.IndexByte(v, 0) >= 0
	var sb strings.Builder
	var err error
	which := verifChoice("encoder", 2)
	if which == 0 {
		err = (&shEncoder{}).Encode(c17Writer{&sb}, vDoc(vStr(v)))
	} else {
		err = NewShellVariablesEncoder().Encode(c17Writer{&sb}, vDoc(vMap(vStr("k"), vStr(v))))
	}
	label := []string{"@sh", "-o=shell"}[which]
	if hasNul {
		verifAssert(err != nil, "C17/value-with-NUL-encoded-for-the-shell "+label)
		verifCover("C17/nul/with")
	} else {
		verifAssert(err == nil, "C17/shell-encode-error "+label)
	}
	verifCover("C17/nul/end")
}

// VerifC17AliasResults: the value handed to @sh or -o=shell may be an alias (`b: *x`, an element `- *x`, an alias of
// a map): what is written is the encoding of the anchored value — the same text as for the anchored node itself —
// never the alias name.
func VerifC17AliasResults() {
	v := verifStr("v", 2, "\x20\x7e")
	build := func() *CandidateNode {
		x := vStr(v)
		x.Anchor = "x"
		m := vMap(vStr("k"), vStr(v))
		m.Anchor = "m"
		al := func(n *yaml.Node, name string) *yaml.Node { return &yaml.Node{Kind: yaml.AliasNode, Value: name, Alias: n} }
		return vDoc(vMap(vStr("a"), x, vStr("b"), al(x, "x"), vStr("c"), vSeq(al(x, "x"), vStr("w")), vStr("m"), m, vStr("n"), al(m, "m")))
	}
	which := verifChoice("case", 6)
	var got, want string
	var okG, okW bool
	sh := func(expr string) (string, bool) {
		res, err := vEval(vParse(expr), build())
		if err != nil || res.Len() < 1 {
			return "", false
		}
		return res.Front().Value.(*CandidateNode).Value, true
	}
	shell := func(expr string) (string, bool) {
		res, err := vEval(vParse(expr), build())
		if err != nil {
			return "", false
		}
		var sb strings.Builder
		w := bufio.NewWriter(c17Writer{&sb})
		printer := NewPrinter(NewShellVariablesEncoder(), NewSinglePrinterWriter(w))
		if printer.PrintResults(res) != nil {
			return "", false
		}
		_ = w.Flush()
		return sb.String(), true
	}
	switch which {
	case 0:
		got, okG = sh(".b | @sh")
		want, okW = sh(".a | @sh")
	case 1:
		got, okG = sh(".c[0] | @sh")
		want, okW = sh(".a | @sh")
	case 2:
		got, okG = sh(".c[] | @sh")
		want, okW = sh(".a | @sh")
	case 3:
		got, okG = shell(".b")
		want, okW = shell(".a")
	case 4:
		got, okG = shell(".n")
		want, okW = shell(".m")
	default:
		got, okG = shell(".c[0]")
		want, okW = shell(".a")
	}
	label := "case=" + verifItoa(int64(which))
	verifAssert(okG == okW, "C17/alias-result-fails-where-the-anchored-value-does-not "+label)
	if okG && okW {
		verifObserve("got", got)
		verifAssert(verifEqStr(got, want), "C17/alias-result-encoded-as-something-else-than-its-value "+label)
	}
	verifCover("C17/alias-results/end")
}

// VerifC17ShellVarsRepeatedKeys: the same key text at several depths, in one document or in the documents one encoder
// writes one after the other (as the printer reuses it): a key that does not start with a letter - a digit-first key,
// a sequence index - gets its leading underscore at the top level and none further down, wherever it was seen
// first. Every NAME is a shell identifier, every VALUE reads back.
func VerifC17ShellVarsRepeatedKeys() {
	key := []string{"2fa", "0", "x", "_y", "9-9", "-"}[verifChoice("key", 6)]
	v := verifStr("v", 1, "\x01\x7f")
	enc := NewShellVariablesEncoder()
	var docs []*CandidateNode
	want := 0
	switch verifChoice("history", 5) {
	case 0: // nested first, then at the top of the same document
		docs, want = []*CandidateNode{vDoc(vMap(vStr("a"), vMap(vStr(key), vStr(v)), vStr(key), vStr(v)))}, 2
	case 1: // at the top first, then nested
		docs, want = []*CandidateNode{vDoc(vMap(vStr(key), vStr(v), vStr("a"), vMap(vStr(key), vStr(v))))}, 2
	case 2: // a nested sequence in one document, a sequence at the top of the next
		docs, want = []*CandidateNode{vDoc(vMap(vStr("a"), vSeq(vStr(v)))), vDoc(vSeq(vStr(v), vStr(v)))}, 3
	case 3: // nested in one document, at the top of the next
		docs, want = []*CandidateNode{vDoc(vMap(vStr("a"), vMap(vStr(key), vStr(v)))), vDoc(vMap(vStr(key), vStr(v)))}, 2
	default: // at the top of one document, nested in the next
		docs, want = []*CandidateNode{vDoc(vMap(vStr(key), vStr(v))), vDoc(vMap(vStr("a"), vMap(vStr(key), vStr(v))))}, 2
	}
	var sb strings.Builder
	var w io.Writer = c17Writer{&sb}
	for _, d := range docs {
		if err := enc.Encode(w, d); err != nil {
			verifCover("C17/repeated-keys/refused")
			return
		}
	}
	out := sb.String()
	verifObserve("out", out)
	names, values, ok := c17Assignments(out)
	verifAssert(ok, "C17/shell-output-not-assignments repeated-keys")
	if !ok {
		return
	}
	verifAssert(len(names) == want, "C17/shell-assignment-count repeated-keys")
	for i := range names {
		verifAssert(c17IsName(names[i]), "C17/shell-invalid-variable-name repeated-keys")
		val, okv, safe := c17ReadValue(values[i])
		verifAssert(okv && safe, "C17/shell-value-unterminated-quoting repeated-keys")
		if okv {
			verifAssert(verifEqStr(val, v), "C17/shell-value-expands-to-other-value repeated-keys")
		}
	}
	verifCover("C17/repeated-keys/end")
}
