package cmd

import (
	"container/list"
	"errors"
	"io"
	"io/fs"
	"time"

	"github.com/mikefarah/yq/v4/pkg/yqlib"
	"github.com/spf13/cobra"
)

// C19 (and the glue half of C12) at the command layer.
//
// evaluate_sequence_command.go, evaluate_all_command.go and utils.go are loaded from the current tree with
// their environment call sites mechanically redirected to the stubs below (see "rewrites" of C19 in
// checks.json): cobra accessors, os.*, the evaluators, the encoder and the in-place handler. Everything else
// (initCommand, processArgs, the flag logic, configureDecoder, configurePrinterWriter, the real yqlib printer,
// the deferred finish, completedSuccessfully, the -e check) is the real code.

type verifGlueState struct {
	evalFails      bool
	encodeFails    bool
	createFails    bool
	finishFails    bool
	results        int
	truthy         []bool
	created        int
	finishedTrue   int
	finishedFalse  int
	evaluated      int
	encoded        int
	usagePrinted   bool
	readInput      bool
	fileExists     map[string]bool
}

var verifGlue *verifGlueState

type verifInfo struct{ dir bool }

func (i verifInfo) Name() string       { return "f" }
func (i verifInfo) Size() int64        { return 1 }
func (i verifInfo) Mode() fs.FileMode  { return 0 } // not a char device: stdout/stdin are pipes
func (i verifInfo) ModTime() time.Time { return time.Time{} }
func (i verifInfo) IsDir() bool        { return i.dir }
func (i verifInfo) Sys() any           { return nil }

func verifCmdOut() io.Writer { return io.Discard }
func verifUsage()            { verifGlue.usagePrinted = true }
func verifStdStat() (fs.FileInfo, error) {
	return verifInfo{}, nil
}
func verifOSStat(name string) (fs.FileInfo, error) {
	if verifGlue.fileExists[name] {
		return verifInfo{}, nil
	}
	return nil, errors.New("no such file")
}
func verifOSReadFile(_ string) ([]byte, error) { return nil, errors.New("no such file") }

type verifEncoder struct{}

func (verifEncoder) Encode(_ io.Writer, _ *yqlib.CandidateNode) error {
	verifGlue.encoded++
	if verifGlue.encodeFails {
		return errors.New("encode failed")
	}
	return nil
}
func (verifEncoder) PrintDocumentSeparator(_ io.Writer) error         { return nil }
func (verifEncoder) PrintLeadingContent(_ io.Writer, _ string) error { return nil }
func (verifEncoder) CanHandleAliases() bool                          { return true }

func verifConfigureEncoder() (yqlib.Encoder, error) {
	// keep the real function's format check
	if _, err := yqlib.FormatFromString(outputFormat); err != nil {
		return nil, err
	}
	return verifEncoder{}, nil
}

func verifResults() *list.List {
	l := list.New()
	for i := 0; i < verifGlue.results; i++ {
		n := &yqlib.CandidateNode{Kind: yqlib.ScalarNode, Tag: "!!int", Value: "1"}
		if verifConcreteBool(!verifGlue.truthy[i]) {
			n.Tag, n.Value = "!!null", "null"
		}
		l.PushBack(n)
	}
	return l
}

type verifStreamEvaluator struct{}

func (verifStreamEvaluator) Evaluate(_ string, _ io.Reader, _ *yqlib.ExpressionNode, _ yqlib.Printer, _ yqlib.Decoder) (uint, error) {
	return 0, errors.New("not used")
}
func (verifStreamEvaluator) EvaluateFiles(_ string, _ []string, printer yqlib.Printer, _ yqlib.Decoder) error {
	verifGlue.evaluated++
	verifGlue.readInput = true
	if verifGlue.evalFails {
		return errors.New("evaluation failed")
	}
	return printer.PrintResults(verifResults())
}
func (verifStreamEvaluator) EvaluateNew(_ string, printer yqlib.Printer) error {
	verifGlue.evaluated++
	if verifGlue.evalFails {
		return errors.New("evaluation failed")
	}
	return printer.PrintResults(verifResults())
}

func verifNewStreamEvaluator() yqlib.StreamEvaluator { return verifStreamEvaluator{} }

type verifAllEvaluator struct{}

func (verifAllEvaluator) EvaluateFiles(e string, f []string, p yqlib.Printer, d yqlib.Decoder) error {
	return verifStreamEvaluator{}.EvaluateFiles(e, f, p, d)
}
func (verifAllEvaluator) EvaluateNodes(_ string, _ ...*yqlib.CandidateNode) (*list.List, error) {
	return nil, errors.New("not used")
}
func (verifAllEvaluator) EvaluateCandidateNodes(_ string, _ *list.List) (*list.List, error) {
	return nil, errors.New("not used")
}
func verifNewAllAtOnceEvaluator() yqlib.Evaluator { return verifAllEvaluator{} }

type verifWIP struct{}

func (verifWIP) CreateTempFile() (io.Writer, error) {
	verifGlue.created++
	if verifGlue.createFails {
		return nil, errors.New("cannot create temp file")
	}
	return io.Discard, nil
}
func (verifWIP) FinishWriteInPlace(ok bool) error {
	if ok {
		verifGlue.finishedTrue++
	} else {
		verifGlue.finishedFalse++
	}
	if verifGlue.finishFails {
		return errors.New("cannot replace target")
	}
	return nil
}
func verifNewWriteInPlaceHandler(_ string) verifWIP { return verifWIP{} }

func verifResetFlags() {
	unwrapScalarFlag = newUnwrapFlag()
	unwrapScalar = false
	writeInplace = false
	outputToJSON = false
	outputFormat = ""
	inputFormat = ""
	exitStatus = false
	indent = 2
	noDocSeparators = false
	nullInput = false
	nulSepOutput = false
	prettyPrint = false
	forceColor = false
	forceNoColor = false
	colorsEnabled = false
	frontMatter = ""
	splitFileExp = ""
	splitFileExpFile = ""
	completedSuccessfully = false
	forceExpression = ""
	expressionFile = ""
}

// VerifCmdGlue: exit status truthfulness of evaluateSequence / evaluateAll over all flag combinations and outcomes.
func VerifCmdGlue() {
	yqlib.InitExpressionParser()
	verifResetFlags()
	g := &verifGlueState{fileExists: map[string]bool{}}
	verifGlue = g
	which := verifChoice("command", 2) // 0 eval, 1 eval-all
	// flags and outcomes stay symbolic: the real code forks on them only where it looks at them
	writeInplace = verifBool("writeInplace")
	exitStatus = verifBool("exitStatus")
	nullInput = verifBool("nullInput")
	outputFormat = verifPick("outputFormat", "", "yaml", "props", "nonsense")
	inputFormat = verifPick("inputFormat", "", "json", "nonsense")
	origOut, origIn := outputFormat, inputFormat
	g.evalFails = verifBool("evaluationFails")
	g.encodeFails = verifBool("encodeFails")
	g.createFails = verifBool("createTempFails")
	g.finishFails = verifBool("finishFails")
	g.results = verifChoice("results", 3)
	anyTruthy := false
	for i := 0; i < g.results; i++ {
		t := verifBool("truthy" + verifItoa(int64(i)))
		g.truthy = append(g.truthy, t)
		anyTruthy = verifOr(anyTruthy, t)
	}
	// arguments: [expression] [file]; named files exist on "disk"
	nargs := verifChoice("args", 3)
	var args []string
	file := ""
	if nargs >= 1 {
		args = append(args, ".a")
	}
	if nargs >= 2 {
		file = verifConcreteStr(verifPick("file", "f.yml", "f.sh", "-"))
		args = append(args, file)
		g.fileExists[file] = file != "-"
	}
	var err error
	c := &cobra.Command{}
	if which == 0 {
		err = evaluateSequence(c, args)
	} else {
		err = evaluateAll(c, args)
	}
	name := []string{"eval", "eval-all"}[which]
	// (1) success only if everything that was attempted succeeded
	if err == nil {
		verifCover("C19/glue/ok")
		verifAssert(verifNot(verifAnd(g.evaluated > 0, g.evalFails)), "C19/evaluation-failure-reported-as-success "+name)
		verifAssert(verifNot(verifAnd(g.encoded > 0, g.encodeFails)), "C19/encode-failure-reported-as-success "+name)
		verifAssert(verifNot(verifAnd(g.created > 0, g.createFails)), "C19/temp-file-failure-reported-as-success "+name)
		verifAssert(verifNot(verifAnd(g.finishedTrue+g.finishedFalse > 0, g.finishFails)), "C19/replace-failure-reported-as-success "+name)
		if g.evaluated > 0 {
			verifAssert(verifImplies(exitStatus, anyTruthy), "C19/exit-status-flag-ignored "+name)
			verifAssert(verifImplies(writeInplace, g.finishedTrue == 1), "C19/in-place-success-without-replacing-target "+name)
		}
		if g.evaluated == 0 {
			verifAssert(g.usagePrinted, "C19/success-without-doing-anything "+name)
		}
	} else {
		verifCover("C19/glue/error")
		// (2) an error exit never replaces the target of -i
		verifAssert(verifOr(g.finishedTrue == 0, g.finishFails), "C19/target-replaced-although-command-fails "+name)
		// (3) an error needs a cause: a failing step, -e with nothing truthy, or invalid usage
		usageError := verifOr(verifAnd(writeInplace, nargs < 2 || file == "-"), verifAnd(nullInput, nargs >= 2))
		usageError = verifOr(usageError, verifOr(verifEqStr(origOut, "nonsense"), verifEqStr(origIn, "nonsense")))
		usageError = verifOr(usageError, verifAnd(file == "f.sh", verifEqStr(origIn, ""))) // auto-detected output-only format
		cause := verifOr(verifAnd(g.evaluated > 0, g.evalFails), verifAnd(g.encoded > 0, g.encodeFails))
		cause = verifOr(cause, verifOr(verifAnd(g.created > 0, g.createFails), verifAnd(g.finishedTrue+g.finishedFalse > 0, g.finishFails)))
		cause = verifOr(cause, verifOr(verifAnd(exitStatus, verifNot(anyTruthy)), usageError))
		verifAssert(cause, "C19/error-without-cause "+name)
	}
	// -n never reads input
	verifAssert(verifImplies(nullInput, !g.readInput), "C19/null-input-reads-files "+name)
	verifCover("C19/glue/end")
}
