package cmd

// C19 / C11 at the command layer: format selection must end in a decoder/encoder or an error, never a crash.

var verifFormatNames = []string{"yaml", "y", "yml", "json", "j", "props", "p", "properties", "csv", "c", "tsv", "t", "xml", "x",
	"base64", "uri", "toml", "shell", "s", "sh", "lua", "l", "", "auto", "a", "nonsense"}

// VerifCmdConfigureCodec: for every input/output format name the flags can carry, configureDecoder and
// configureEncoder return a codec or an error.
func VerifCmdConfigureCodec() {
	which := verifChoice("which", 2)
	name := verifPick("format", verifFormatNames...)
	if which == 0 {
		inputFormat = name
		d, err := configureDecoder(false)
		verifAssert((d != nil) != (err != nil), "C19/configureDecoder-neither-decoder-nor-error")
		verifCover("C19/cmd/decoder")
	} else {
		outputFormat = name
		e, err := configureEncoder()
		verifAssert((e != nil) != (err != nil), "C19/configureEncoder-neither-encoder-nor-error")
		verifCover("C19/cmd/encoder")
	}
	verifCover("C19/cmd/end")
}
