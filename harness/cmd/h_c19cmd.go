package cmd

import (
	"github.com/mikefarah/yq/v4/pkg/yqlib"
	"github.com/spf13/cobra"
)

// C19 / C11 at the command layer: format selection must end in a decoder/encoder or an error, never a crash.

var verifFormatNames = []string{"yaml", "y", "yml", "json", "j", "props", "p", "properties", "csv", "c", "tsv", "t", "xml", "x",
	"base64", "uri", "toml", "shell", "s", "sh", "lua", "l", "", "auto", "a", "nonsense"}

// VerifCmdConfigureCodec: for every input/output format name the flags can carry, configureDecoder and
// configureEncoder return a codec or an error.
func VerifCmdConfigureCodec() {
	which := verifChoice("which", 2)
	name := verifPick("format", verifFormatNames...)
	if which == 0 {
		inputFormat = name
		d, err := configureDecoder(false)
		verifAssert((d != nil) != (err != nil), "C19/configureDecoder-neither-decoder-nor-error")
		verifCover("C19/cmd/decoder")
	} else {
		outputFormat = name
		e, err := configureEncoder()
		verifAssert((e != nil) != (err != nil), "C19/configureEncoder-neither-encoder-nor-error")
		verifCover("C19/cmd/encoder")
	}
	verifCover("C19/cmd/end")
}

var verifInitFiles = []string{"a.yml", "a.yaml", "d.d/a.json", "a.xml", "a.toml", "a.csv", "a.tsv", "a.properties", "a.lua", "A.JSON", "a.b.json", "noext", "a.unknown", "a.sh"}
var verifInitExpect = []string{"yaml", "yaml", "json", "xml", "toml", "csv", "tsv", "props", "lua", "json", "json", "yaml", "yaml", "shell"}

// VerifCmdInitFormats: initCommand's choice of input and output format. With both left automatic they are the
// format named by the first file's extension (yaml when the extension names none); an explicit choice is kept;
// scalars are unwrapped by default exactly for yaml and properties output.
func VerifCmdInitFormats() {
	yqlib.InitExpressionParser()
	verifResetFlags()
	verifGlue = &verifGlueState{fileExists: map[string]bool{}}
	fi := verifChoice("file", len(verifInitFiles))
	file := verifInitFiles[fi]
	verifGlue.fileExists[file] = true
	in := verifConcreteStr(verifPick("inputFormat", "", "auto", "a", "json", "yaml", "csv"))
	out := verifConcreteStr(verifPick("outputFormat", "", "auto", "a", "json", "props", "yaml"))
	inputFormat, outputFormat = in, out
	_, args, err := initCommand(&cobra.Command{}, []string{".", file})
	autoIn := in == "" || in == "auto" || in == "a"
	autoOut := out == "" || out == "auto" || out == "a"
	label := "file=" + file
	if err != nil {
		verifCover("C19/init/error")
		// only an output-only format can make a valid command line fail here — and only at decoder time, not here
		verifAssert(false, "C19/init-rejects-valid-command-line "+label)
		return
	}
	verifAssert(len(args) == 1 && args[0] == file, "C19/init-lost-the-file-argument "+label)
	inF, errIn := yqlib.FormatFromString(inputFormat)
	outF, errOut := yqlib.FormatFromString(outputFormat)
	verifAssert(errIn == nil && errOut == nil && inF != nil && outF != nil, "C19/init-left-an-unknown-format "+label)
	if errIn != nil || errOut != nil || inF == nil || outF == nil {
		return
	}
	want := verifInitExpect[fi]
	if autoIn {
		verifAssert(inF.FormalName == want, "C19/automatic-input-format-is-not-the-extension's "+label)
		if autoOut {
			verifAssert(outF.FormalName == want, "C19/automatic-output-format-is-not-the-extension's "+label)
		}
	} else {
		explicit, _ := yqlib.FormatFromString(in)
		verifAssert(inF == explicit, "C19/explicit-input-format-replaced "+label)
	}
	if !autoOut {
		explicit, _ := yqlib.FormatFromString(out)
		verifAssert(outF == explicit, "C19/explicit-output-format-replaced "+label)
	}
	verifAssert(unwrapScalar == (outF == yqlib.YamlFormat || outF == yqlib.PropertiesFormat), "C19/unwrap-scalar-default-wrong "+label)
	verifCover("C19/init/end")
}
